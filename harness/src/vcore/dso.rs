//! Synthetic linker data (program headers, dynamic section, r_debug, link_map
//! chain) laid out in the arena, with structure-aware corruptions.

use super::arena::*;
use serde::{Deserialize, Serialize};

pub const PT_LOAD: u32 = 1;
pub const PT_DYNAMIC: u32 = 2;
pub const DT_NULL: u64 = 0;
pub const DT_DEBUG: u64 = 21;

#[derive(Debug, Clone, PartialEq, Eq, Hash, Serialize, Deserialize)]
pub enum Phnum {
    True,
    Zero,
    Huge,
    Max61,
    Max,
    Plus(u8),
}

#[derive(Debug, Clone, PartialEq, Eq, Hash, Serialize, Deserialize)]
pub enum Place {
    /// offset chosen by the layout
    Normal,
    /// `back` bytes before the end of the readable arena
    NearEnd(u16),
    /// in the PROT_NONE page
    ProtNone,
    Unmapped,
    Zero,
    /// u64::MAX - k
    Top(u8),
}

#[derive(Debug, Clone, PartialEq, Eq, Hash, Serialize, Deserialize)]
pub enum LName {
    None,
    Utf8(String),
    NonUtf8(Vec<u8>),
    /// 255+ bytes without NUL
    LongNoNul,
    /// string placed so that it ends exactly at the arena end (no NUL before it)
    AtArenaEnd(u8),
    Unmapped,
}

#[derive(Debug, Clone, PartialEq, Eq, Hash, Serialize, Deserialize)]
pub struct Link {
    pub l_addr: u64,
    pub l_ld: u64,
    pub name: LName,
}

#[derive(Debug, Clone, PartialEq, Eq, Hash, Serialize, Deserialize)]
pub enum ChainEnd {
    Null,
    SelfLoop,
    CycleTo(u8),
    ProtNone,
    Unmapped,
    NearEnd(u8),
}

#[derive(Debug, Clone, PartialEq, Eq, Hash, Serialize, Deserialize)]
pub enum LoadVaddr {
    Zero,
    Small(u16),
    Huge,
    Max,
}

#[derive(Debug, Clone, PartialEq, Eq, Hash, Serialize, Deserialize)]
pub struct DsoCase {
    pub phnum: Phnum,
    pub phdr_at: Place,
    /// extra non-interesting program headers before the interesting ones
    pub extra_phdrs: u8,
    pub has_load: bool,
    pub load_vaddr: LoadVaddr,
    pub has_dynamic: bool,
    pub dyn_at: Place,
    /// extra dynamic entries (tag, val) before DT_DEBUG
    pub extra_dyns: Vec<(u64, u64)>,
    pub has_debug: bool,
    pub dyn_null: bool,
    pub rdebug_at: Place,
    pub r_version: i32,
    pub r_brk: u64,
    pub r_state: u32,
    pub r_ldbase: u64,
    pub chain: Vec<Link>,
    pub chain_end: ChainEnd,
    /// fill byte for unused arena space (0 => DT_NULL everywhere)
    pub fill: u8,
}

#[derive(Debug, Clone, Default)]
pub struct Expect {
    /// true when every structure is intact and readable, so the stream must be
    /// produced with exactly these contents
    pub well_formed: bool,
    pub links: Vec<(u64, String, u64)>,
    pub version: u32,
    pub brk: u64,
    pub ldbase: u64,
    pub dynamic: u64,
    pub dynamic_bytes: Vec<u8>,
}

/// Anything the linker data can be laid out in (the live arena or a plain buffer
/// that becomes the content of a mapping at address `ARENA`).
pub trait ArenaLike {
    fn bytes(&mut self) -> &mut [u8];
    fn write(&mut self, off: u64, data: &[u8]) {
        let off = off as usize;
        let n = self.bytes().len();
        let end = (off + data.len()).min(n);
        if off < end {
            self.bytes()[off..end].copy_from_slice(&data[..end - off]);
        }
    }
}
impl ArenaLike for Arena {
    fn bytes(&mut self) -> &mut [u8] {
        Arena::bytes(self)
    }
}
pub struct BufArena(pub Vec<u8>);
impl ArenaLike for BufArena {
    fn bytes(&mut self) -> &mut [u8] {
        &mut self.0
    }
}

fn place(p: &Place, normal: u64, need: u64) -> u64 {
    match p {
        Place::Normal => ARENA + normal,
        Place::NearEnd(back) => ARENA + ARENA_SIZE - (*back as u64 % 4096).min(ARENA_SIZE),
        Place::ProtNone => ARENA + ARENA_SIZE + 8,
        Place::Unmapped => 0x3000_0000_0000,
        Place::Zero => 0,
        Place::Top(k) => u64::MAX - *k as u64 - need.min(0),
    }
}

/// Lays the case out in the arena.  Returns (phnum, phdr address, expectation).
pub fn lay_out(c: &DsoCase, a: &mut dyn ArenaLike) -> (u64, u64, Expect) {
    let fill = c.fill;
    for b in a.bytes().iter_mut() {
        *b = fill;
    }
    // fixed layout offsets
    const P_OFF: u64 = 0x40; // program headers (first page)
    const D_OFF: u64 = 0x1000; // dynamic
    const R_OFF: u64 = 0x2000; // r_debug
    const L_OFF: u64 = 0x3000; // link maps (64 bytes apart)
    const N_OFF: u64 = 0x5000; // names (512 bytes apart)
    let mut well = true;
    let phdr_addr = place(&c.phdr_at, P_OFF, 56);
    if c.phdr_at != Place::Normal {
        well = false;
    }
    let base = phdr_addr & !0xfff;
    let dyn_addr = place(&c.dyn_at, D_OFF, 16);
    if c.dyn_at != Place::Normal {
        well = false;
    }
    // program headers
    let mut ph: Vec<u8> = vec![];
    let mut n_true = 0u64;
    let push_ph = |ph: &mut Vec<u8>, ty: u32, off: u64, vaddr: u64| {
        ph.extend_from_slice(&ty.to_le_bytes());
        ph.extend_from_slice(&4u32.to_le_bytes());
        ph.extend_from_slice(&off.to_le_bytes());
        ph.extend_from_slice(&vaddr.to_le_bytes());
        ph.extend_from_slice(&vaddr.to_le_bytes());
        ph.extend_from_slice(&0x100u64.to_le_bytes());
        ph.extend_from_slice(&0x100u64.to_le_bytes());
        ph.extend_from_slice(&0x1000u64.to_le_bytes());
    };
    for i in 0..c.extra_phdrs % 6 {
        push_ph(&mut ph, 4 + i as u32 * 0x1000, 0x1000 + i as u64, 0x777);
        n_true += 1;
    }
    let lv = match c.load_vaddr {
        LoadVaddr::Zero => 0,
        LoadVaddr::Small(v) => v as u64 * 0x1000,
        LoadVaddr::Huge => 0x7fff_ffff_f000,
        LoadVaddr::Max => u64::MAX,
    };
    let eff_base = if c.has_load { base.wrapping_sub(lv) } else { base };
    if c.has_load {
        push_ph(&mut ph, PT_LOAD, 0, lv);
        n_true += 1;
        if base.checked_sub(lv).is_none() {
            well = false;
        }
    }
    if c.has_dynamic {
        push_ph(&mut ph, PT_DYNAMIC, 0x2000, dyn_addr.wrapping_sub(eff_base));
        n_true += 1;
        if dyn_addr.wrapping_sub(eff_base) == 0 {
            well = false; // p_vaddr 0 means "not found" for the writer
        }
    } else {
        well = false;
    }
    if phdr_addr >= ARENA && phdr_addr < ARENA + ARENA_SIZE {
        a.write(phdr_addr - ARENA, &ph);
    }
    let phnum = match c.phnum {
        Phnum::True => n_true,
        Phnum::Zero => 0,
        Phnum::Huge => 100_000,
        Phnum::Max61 => 1 << 61,
        Phnum::Max => u64::MAX,
        Phnum::Plus(k) => n_true + k as u64,
    };
    if c.phnum != Phnum::True {
        well = false;
    }
    // dynamic section
    let rdebug_addr = place(&c.rdebug_at, R_OFF, 40);
    if c.rdebug_at != Place::Normal {
        well = false;
    }
    let mut dy: Vec<u8> = vec![];
    for (t, v) in c.extra_dyns.iter().take(40) {
        let t = if *t == DT_NULL || *t == DT_DEBUG { 1 } else { *t };
        dy.extend_from_slice(&t.to_le_bytes());
        dy.extend_from_slice(&v.to_le_bytes());
    }
    if c.has_debug {
        dy.extend_from_slice(&DT_DEBUG.to_le_bytes());
        dy.extend_from_slice(&rdebug_addr.to_le_bytes());
    } else {
        well = false;
    }
    if c.dyn_null {
        dy.extend_from_slice(&[0u8; 16]);
    } else if fill != 0 {
        well = false;
    } else {
        // zero fill acts as DT_NULL
        dy.extend_from_slice(&[0u8; 16]);
    }
    if dyn_addr >= ARENA && dyn_addr < ARENA + ARENA_SIZE {
        a.write(dyn_addr - ARENA, &dy);
    }
    // chain
    let n = c.chain.len().min(12);
    let link_addr = |i: usize| ARENA + L_OFF + 64 * i as u64;
    let mut links_expect = vec![];
    for (i, l) in c.chain.iter().take(12).enumerate() {
        let name_addr = ARENA + N_OFF + 512 * i as u64;
        let (l_name, exp_name): (u64, Option<String>) = match &l.name {
            LName::None => (0, Some(String::new())),
            LName::Utf8(s) => {
                let mut b = s.as_bytes().to_vec();
                b.truncate(255);
                let s2 = String::from_utf8_lossy(&b).into_owned();
                let ok = s2.as_bytes() == &b[..] && !b.contains(&0);
                b.push(0);
                a.write(name_addr - ARENA, &b);
                (name_addr, if ok { Some(s2) } else { None })
            }
            LName::NonUtf8(b) => {
                let mut b = b.clone();
                b.truncate(200);
                b.retain(|x| *x != 0);
                if std::str::from_utf8(&b).is_ok() {
                    b.push(0xff);
                }
                b.push(0);
                a.write(name_addr - ARENA, &b);
                (name_addr, None)
            }
            LName::LongNoNul => {
                a.write(name_addr - ARENA, &[b'x'; 400]);
                (name_addr, None)
            }
            LName::AtArenaEnd(k) => {
                let len = (*k as u64 % 200) + 1;
                let at = ARENA + ARENA_SIZE - len;
                a.write(at - ARENA, &vec![b'e'; len as usize]);
                (at, None)
            }
            LName::Unmapped => (0x3000_0000_1000, None),
        };
        let next = if i + 1 < n {
            link_addr(i + 1)
        } else {
            match c.chain_end {
                ChainEnd::Null => 0,
                ChainEnd::SelfLoop => link_addr(i),
                ChainEnd::CycleTo(k) => link_addr(k as usize % n),
                ChainEnd::ProtNone => ARENA + ARENA_SIZE + 16,
                ChainEnd::Unmapped => 0x3000_0000_2000,
                ChainEnd::NearEnd(k) => ARENA + ARENA_SIZE - (k as u64 % 40),
            }
        };
        let mut lm = vec![];
        lm.extend_from_slice(&l.l_addr.to_le_bytes());
        lm.extend_from_slice(&l_name.to_le_bytes());
        lm.extend_from_slice(&l.l_ld.to_le_bytes());
        lm.extend_from_slice(&next.to_le_bytes());
        lm.extend_from_slice(&(if i > 0 { link_addr(i - 1) } else { 0 }).to_le_bytes());
        a.write(link_addr(i) - ARENA, &lm);
        match exp_name {
            Some(nm) => links_expect.push((l.l_addr, nm, l.l_ld)),
            None => well = false,
        }
    }
    if n > 0 && c.chain_end != ChainEnd::Null {
        well = false;
    }
    // r_debug
    let mut rd = vec![];
    rd.extend_from_slice(&c.r_version.to_le_bytes());
    rd.extend_from_slice(&[0u8; 4]);
    rd.extend_from_slice(&(if n > 0 { link_addr(0) } else { 0 }).to_le_bytes());
    rd.extend_from_slice(&c.r_brk.to_le_bytes());
    rd.extend_from_slice(&(c.r_state % 3).to_le_bytes());
    rd.extend_from_slice(&[0u8; 4]);
    rd.extend_from_slice(&c.r_ldbase.to_le_bytes());
    if rdebug_addr >= ARENA && rdebug_addr < ARENA + ARENA_SIZE {
        a.write(rdebug_addr - ARENA, &rd);
    }
    let e = Expect {
        well_formed: well,
        links: links_expect,
        version: c.r_version as u32,
        brk: c.r_brk,
        ldbase: c.r_ldbase,
        dynamic: dyn_addr,
        dynamic_bytes: dy,
    };
    (phnum, phdr_addr, e)
}

use proptest::prelude::*;

pub fn place_strategy() -> impl Strategy<Value = Place> {
    prop_oneof![
        8 => Just(Place::Normal),
        2 => prop_oneof![Just(8u16), Just(24), Just(39), Just(40), Just(55), Just(56), Just(100), 0u16..200].prop_map(Place::NearEnd),
        1 => Just(Place::ProtNone),
        1 => Just(Place::Unmapped),
        1 => Just(Place::Zero),
        1 => (0u8..60).prop_map(Place::Top),
    ]
}

pub fn lname_strategy() -> impl Strategy<Value = LName> {
    prop_oneof![
        2 => Just(LName::None),
        6 => proptest::collection::vec(prop_oneof![(0x20u8..0x7f).prop_map(|c| c as char), Just('\u{e9}'), Just('\u{4e2d}')], 0..40).prop_map(|v| LName::Utf8(v.into_iter().collect())),
        1 => Just(LName::Utf8("x".repeat(255))),
        1 => proptest::collection::vec(0x80u8..=0xff, 1..20).prop_map(LName::NonUtf8),
        1 => Just(LName::LongNoNul),
        1 => any::<u8>().prop_map(LName::AtArenaEnd),
        1 => Just(LName::Unmapped),
    ]
}

pub fn dso_strategy() -> impl Strategy<Value = DsoCase> {
    (
        (
            prop_oneof![8 => Just(Phnum::True), 1 => Just(Phnum::Zero), 1 => Just(Phnum::Huge), 1 => Just(Phnum::Max61), 1 => Just(Phnum::Max), 1 => (1u8..200).prop_map(Phnum::Plus)],
            place_strategy(),
            0u8..6,
            proptest::bool::weighted(0.8),
            prop_oneof![6 => Just(LoadVaddr::Zero), 1 => (1u16..100).prop_map(LoadVaddr::Small), 1 => Just(LoadVaddr::Huge), 1 => Just(LoadVaddr::Max)],
            proptest::bool::weighted(0.9),
            place_strategy(),
        ),
        (
            proptest::collection::vec((prop_oneof![1u64..40, any::<u64>()], any::<u64>()), 0..8),
            proptest::bool::weighted(0.9),
            proptest::bool::weighted(0.85),
            place_strategy(),
            any::<i32>(),
            any::<u64>(),
            any::<u32>(),
            any::<u64>(),
        ),
        proptest::collection::vec((any::<u64>(), any::<u64>(), lname_strategy()).prop_map(|(l_addr, l_ld, name)| Link { l_addr, l_ld, name }), 0..13),
        prop_oneof![8 => Just(ChainEnd::Null), 1 => Just(ChainEnd::SelfLoop), 1 => any::<u8>().prop_map(ChainEnd::CycleTo), 1 => Just(ChainEnd::ProtNone), 1 => Just(ChainEnd::Unmapped), 1 => any::<u8>().prop_map(ChainEnd::NearEnd)],
        prop_oneof![3 => Just(0u8), 1 => Just(0xffu8), 1 => any::<u8>()],
    )
        .prop_map(|((phnum, phdr_at, extra_phdrs, has_load, load_vaddr, has_dynamic, dyn_at), (extra_dyns, has_debug, dyn_null, rdebug_at, r_version, r_brk, r_state, r_ldbase), chain, chain_end, fill)| DsoCase {
            phnum, phdr_at, extra_phdrs, has_load, load_vaddr, has_dynamic, dyn_at, extra_dyns, has_debug, dyn_null, rdebug_at, r_version, r_brk, r_state, r_ldbase, chain, chain_end, fill,
        })
}

/// Mostly intact linker data (for the semantic oracle of C18).
pub fn valid_dso_strategy() -> impl Strategy<Value = DsoCase> {
    (
        0u8..6,
        any::<bool>(),
        proptest::collection::vec((1u64..40, any::<u64>()), 0..8),
        any::<bool>(),
        (any::<i32>(), any::<u64>(), any::<u32>(), any::<u64>()),
        proptest::collection::vec(
            (any::<u64>(), any::<u64>(), prop_oneof![1 => Just(LName::None), 6 => proptest::collection::vec(prop_oneof![(0x20u8..0x7f).prop_map(|c| c as char), Just('\u{e9}'), Just('\u{4e2d}')], 0..60).prop_map(|v| LName::Utf8(v.into_iter().collect())), 1 => Just(LName::Utf8("y".repeat(255)))]).prop_map(|(l_addr, l_ld, name)| Link { l_addr, l_ld, name }),
            0..13,
        ),
        prop_oneof![3 => Just(0u8), 1 => 1u8..=255],
        // non-PIE style: the PT_LOAD segment of file offset 0 has a non-zero virtual address
        prop_oneof![2 => Just(LoadVaddr::Zero), 1 => (1u16..100).prop_map(LoadVaddr::Small)],
    )
        .prop_map(|(extra_phdrs, has_load, extra_dyns, dyn_null, (r_version, r_brk, r_state, r_ldbase), chain, fill, load_vaddr)| DsoCase {
            phnum: Phnum::True,
            phdr_at: Place::Normal,
            extra_phdrs,
            has_load,
            load_vaddr,
            has_dynamic: true,
            dyn_at: Place::Normal,
            extra_dyns,
            has_debug: true,
            dyn_null: dyn_null || fill != 0,
            rdebug_at: Place::Normal,
            r_version,
            r_brk,
            r_state,
            r_ldbase,
            chain,
            chain_end: ChainEnd::Null,
            fill,
        })
}

/// Compares a decoded DSO stream with the expectation; returns (signature, detail).
pub fn compare(e: &Expect, d: &super::md::Dso) -> Option<(String, String)> {
    if d.count as usize != e.links.len() || d.links.len() != e.links.len() {
        return Some(("dso-count".into(), format!("stream lists {} objects, the linker list has {}", d.count, e.links.len())));
    }
    for (i, ((a, n, l), (ga, gn, gl))) in e.links.iter().zip(d.links.iter()).enumerate() {
        if a != ga {
            return Some(("load-address".into(), format!("object {i}: addr {ga:#x}, linker list says {a:#x}")));
        }
        if l != gl {
            return Some(("dynamic-address".into(), format!("object {i}: ld {gl:#x}, linker list says {l:#x}")));
        }
        if Some(n) != gn.as_ref() {
            return Some(("name".into(), format!("object {i}: name {gn:?}, linker list says {n:?}")));
        }
    }
    if d.version != e.version || d.brk != e.brk || d.ldbase != e.ldbase {
        return Some(("r_debug-fields".into(), format!("version/brk/ldbase {:#x}/{:#x}/{:#x} expected {:#x}/{:#x}/{:#x}", d.version, d.brk, d.ldbase, e.version, e.brk, e.ldbase)));
    }
    if d.dynamic != e.dynamic {
        return Some(("dynamic-section-address".into(), format!("{:#x} expected {:#x}", d.dynamic, e.dynamic)));
    }
    if d.dynamic_bytes != e.dynamic_bytes {
        return Some(("dynamic-section-bytes".into(), format!("{} bytes vs {} expected", d.dynamic_bytes.len(), e.dynamic_bytes.len())));
    }
    None
}
