//! Strict, hand-written minidump decoder (no `minidump` crate).
//!
//! Parses header, directory and the 18 stream types the Linux writer emits,
//! with explicit bounds checks; every referenced blob is entered into an
//! object map so that overlap and containment can be judged.  Written from the
//! format definition (record sizes in `SZ_*`).

use std::collections::BTreeMap;

pub const SIGNATURE: u32 = 0x504d444d;
pub const VERSION: u32 = 42899;

pub const ST_THREAD_LIST: u32 = 3;
pub const ST_MODULE_LIST: u32 = 4;
pub const ST_MEMORY_LIST: u32 = 5;
pub const ST_EXCEPTION: u32 = 6;
pub const ST_SYSTEM_INFO: u32 = 7;
pub const ST_HANDLE_DATA: u32 = 12;
pub const ST_MEMORY_INFO_LIST: u32 = 16;
pub const ST_THREAD_NAMES: u32 = 24;
pub const ST_LINUX_CPU_INFO: u32 = 0x47670003;
pub const ST_LINUX_PROC_STATUS: u32 = 0x47670004;
pub const ST_LINUX_LSB_RELEASE: u32 = 0x47670005;
pub const ST_LINUX_CMD_LINE: u32 = 0x47670006;
pub const ST_LINUX_ENVIRON: u32 = 0x47670007;
pub const ST_LINUX_AUXV: u32 = 0x47670008;
pub const ST_LINUX_MAPS: u32 = 0x47670009;
pub const ST_LINUX_DSO_DEBUG: u32 = 0x4767000A;
pub const ST_MOZ_LINUX_LIMITS: u32 = 0x4d7a0003;
pub const ST_MOZ_SOFT_ERRORS: u32 = 0x4d7a0004;

pub const SZ_HEADER: u64 = 32;
pub const SZ_DIR: u64 = 12;
pub const SZ_THREAD: u64 = 48;
pub const SZ_MODULE: u64 = 108;
pub const SZ_MEMDESC: u64 = 16;
pub const SZ_THREAD_NAME: u64 = 12;
pub const SZ_MEMINFO: u64 = 48;
pub const SZ_MEMINFO_HDR: u64 = 16;
pub const SZ_HANDLE: u64 = 32;
pub const SZ_HANDLE_HDR: u64 = 16;
pub const SZ_SYSINFO: u64 = 56;
pub const SZ_EXCEPTION: u64 = 168;
pub const SZ_CONTEXT: u64 = 1232;
pub const SZ_LINKMAP: u64 = 20;
pub const SZ_DSO: u64 = 36;
pub const CV_ELF: u32 = 0x4270454c;

#[derive(Debug, Clone)]
pub struct Problem {
    pub sig: String,
    pub detail: String,
}

#[derive(Debug, Clone, PartialEq, Eq)]
pub struct Object {
    pub off: u64,
    pub len: u64,
    pub kind: &'static str,
    pub owner: String,
}

#[derive(Debug, Clone, Copy, Default, PartialEq, Eq)]
pub struct Loc {
    pub size: u32,
    pub rva: u32,
}

#[derive(Debug, Clone, Default)]
pub struct DirEnt {
    pub stream_type: u32,
    pub loc: Loc,
}

#[derive(Debug, Clone, Default)]
pub struct Thread {
    pub tid: u32,
    pub suspend_count: u32,
    pub priority_class: u32,
    pub priority: u32,
    pub teb: u64,
    pub stack_start: u64,
    pub stack: Loc,
    pub ctx: Loc,
}

#[derive(Debug, Clone, Default)]
pub struct Module {
    pub base: u64,
    pub size: u32,
    pub checksum: u32,
    pub time_date_stamp: u32,
    pub name_rva: u32,
    pub name: Option<String>,
    pub version: [u32; 13],
    pub cv: Loc,
    pub cv_bytes: Option<Vec<u8>>,
    pub misc: Loc,
}

#[derive(Debug, Clone, Default)]
pub struct MemDesc {
    pub start: u64,
    pub loc: Loc,
}

#[derive(Debug, Clone, Default)]
pub struct Exception {
    pub tid: u32,
    pub code: u32,
    pub flags: u32,
    pub record: u64,
    pub address: u64,
    pub num_params: u32,
    pub ctx: Loc,
}

#[derive(Debug, Clone, Default)]
pub struct SysInfo {
    pub arch: u16,
    pub level: u16,
    pub revision: u16,
    pub nproc: u8,
    pub product_type: u8,
    pub major: u32,
    pub minor: u32,
    pub build: u32,
    pub platform_id: u32,
    pub csd_rva: u32,
    pub csd: Option<String>,
    pub cpu: [u8; 24],
}

#[derive(Debug, Clone, Default)]
pub struct MemInfo {
    pub base: u64,
    pub alloc_base: u64,
    pub alloc_prot: u32,
    pub region_size: u64,
    pub state: u32,
    pub protection: u32,
    pub ty: u32,
}

#[derive(Debug, Clone, Default)]
pub struct Handle {
    pub handle: u64,
    pub type_name_rva: u32,
    pub object_name_rva: u32,
    pub object_name: Option<String>,
    pub attributes: u32,
    pub granted_access: u32,
    pub handle_count: u32,
    pub pointer_count: u32,
}

#[derive(Debug, Clone, Default)]
pub struct Dso {
    pub version: u32,
    pub map_rva: u32,
    pub count: u32,
    pub brk: u64,
    pub ldbase: u64,
    pub dynamic: u64,
    pub links: Vec<(u64, Option<String>, u64)>,
    pub dynamic_bytes: Vec<u8>,
}

#[derive(Debug, Clone, Default)]
pub struct Decoded {
    pub len: u64,
    pub stream_count: u32,
    pub dir_rva: u32,
    pub time_date_stamp: u32,
    pub dirs: Vec<DirEnt>,
    pub objects: Vec<Object>,
    pub threads: Option<Vec<Thread>>,
    pub modules: Option<Vec<Module>>,
    pub memory: Option<Vec<MemDesc>>,
    pub exception: Option<Exception>,
    pub sysinfo: Option<SysInfo>,
    pub thread_names: Option<Vec<(u32, u64, Option<String>)>>,
    pub meminfo: Option<Vec<MemInfo>>,
    pub handles: Option<Vec<Handle>>,
    pub dso: Option<Dso>,
    pub raw: BTreeMap<u32, Loc>,
    pub problems: Vec<Problem>,
}

pub struct Rd<'a> {
    pub b: &'a [u8],
}

impl<'a> Rd<'a> {
    pub fn get(&self, off: u64, len: u64) -> Option<&'a [u8]> {
        let end = off.checked_add(len)?;
        if end > self.b.len() as u64 {
            return None;
        }
        Some(&self.b[off as usize..end as usize])
    }
    pub fn u8(&self, off: u64) -> Option<u8> {
        self.get(off, 1).map(|s| s[0])
    }
    pub fn u16(&self, off: u64) -> Option<u16> {
        self.get(off, 2).map(|s| u16::from_le_bytes(s.try_into().unwrap()))
    }
    pub fn u32(&self, off: u64) -> Option<u32> {
        self.get(off, 4).map(|s| u32::from_le_bytes(s.try_into().unwrap()))
    }
    pub fn u64(&self, off: u64) -> Option<u64> {
        self.get(off, 8).map(|s| u64::from_le_bytes(s.try_into().unwrap()))
    }
    pub fn loc(&self, off: u64) -> Option<Loc> {
        Some(Loc { size: self.u32(off)?, rva: self.u32(off + 4)? })
    }
}

impl Decoded {
    fn problem(&mut self, sig: &str, detail: String) {
        self.problems.push(Problem { sig: sig.to_string(), detail });
    }
    fn object(&mut self, off: u64, len: u64, kind: &'static str, owner: String) {
        self.objects.push(Object { off, len, kind, owner });
    }

    /// Reads a length-prefixed UTF-16LE string at `rva`, registers it.
    fn string(&mut self, rd: &Rd, rva: u64, owner: String) -> Option<String> {
        let n = match rd.u32(rva) {
            Some(n) => n as u64,
            None => {
                self.problem("string-header-outside-image", format!("{owner}: string header at {rva:#x} outside image (len {:#x})", rd.b.len()));
                return None;
            }
        };
        if n % 2 != 0 {
            self.problem("string-odd-length", format!("{owner}: string at {rva:#x} declares odd byte length {n}"));
            return None;
        }
        let bytes = match rd.get(rva + 4, n) {
            Some(b) => b,
            None => {
                self.problem("string-body-outside-image", format!("{owner}: string at {rva:#x} (+{n}) runs outside the image"));
                return None;
            }
        };
        self.object(rva, 4 + n, "string", owner);
        let units: Vec<u16> = bytes.chunks(2).map(|c| u16::from_le_bytes([c[0], c[1]])).collect();
        Some(char::decode_utf16(units).map(|r| r.unwrap_or('\u{fffd}')).collect())
    }

    pub fn stream(&self, ty: u32) -> Option<&DirEnt> {
        self.dirs.iter().find(|d| d.stream_type == ty && d.loc.size != 0)
    }

    /// Pairs of distinct objects that overlap, except the sanctioned sharing.
    pub fn overlaps(&self) -> Vec<(Object, Object)> {
        let mut objs: Vec<&Object> = self.objects.iter().filter(|o| o.len > 0).collect();
        objs.sort_by_key(|o| (o.off, o.len));
        let mut out = vec![];
        let mut i = 0;
        while i < objs.len() {
            let a = objs[i];
            let mut j = i + 1;
            while j < objs.len() && objs[j].off < a.off + a.len {
                let b = objs[j];
                let same_extent = a.off == b.off && a.len == b.len;
                let sanctioned = same_extent
                    && matches!(
                        (a.kind, b.kind),
                        ("stack", "memory") | ("memory", "stack") | ("context", "exception-context") | ("exception-context", "context")
                    );
                if !sanctioned {
                    out.push((a.clone(), b.clone()));
                    if out.len() > 8 {
                        return out;
                    }
                }
                j += 1;
            }
            i += 1;
        }
        out
    }
}

/// Decodes `b`.  Structural problems are collected in `problems` (the decoder
/// never panics and never reads outside `b`).
pub fn decode(b: &[u8]) -> Decoded {
    let rd = Rd { b };
    let mut d = Decoded { len: b.len() as u64, ..Default::default() };
    let (sig, ver, count, dir_rva) = match (rd.u32(0), rd.u32(4), rd.u32(8), rd.u32(12)) {
        (Some(a), Some(b_), Some(c), Some(e)) if b.len() as u64 >= SZ_HEADER => (a, b_, c, e),
        _ => {
            d.problem("header-truncated", format!("image has {} bytes", b.len()));
            return d;
        }
    };
    d.time_date_stamp = rd.u32(20).unwrap_or(0);
    if sig != SIGNATURE {
        d.problem("bad-signature", format!("{sig:#x}"));
    }
    if ver & 0xffff != VERSION {
        d.problem("bad-version", format!("{ver:#x}"));
    }
    d.stream_count = count;
    d.dir_rva = dir_rva;
    d.object(0, SZ_HEADER, "header", "header".into());
    if count > 4096 {
        d.problem("absurd-stream-count", format!("{count}"));
        return d;
    }
    if rd.get(dir_rva as u64, count as u64 * SZ_DIR).is_none() {
        d.problem("directory-outside-image", format!("rva {dir_rva:#x} count {count} image {:#x}", b.len()));
        return d;
    }
    d.object(dir_rva as u64, count as u64 * SZ_DIR, "directory", "directory".into());
    for i in 0..count as u64 {
        let o = dir_rva as u64 + i * SZ_DIR;
        d.dirs.push(DirEnt { stream_type: rd.u32(o).unwrap(), loc: rd.loc(o + 4).unwrap() });
    }
    let dirs = d.dirs.clone();
    let mut seen: BTreeMap<u32, usize> = BTreeMap::new();
    for (i, e) in dirs.iter().enumerate() {
        if e.stream_type == 0 {
            if e.loc.size != 0 || e.loc.rva != 0 {
                d.problem("unused-entry-not-zero", format!("entry {i}: type 0 but location {:?}", e.loc));
            }
            continue;
        }
        if let Some(prev) = seen.insert(e.stream_type, i) {
            d.problem("duplicate-stream-type", format!("type {:#x} in entries {prev} and {i}", e.stream_type));
            continue;
        }
        let (rva, size) = (e.loc.rva as u64, e.loc.size as u64);
        if rd.get(rva, size).is_none() {
            d.problem("stream-outside-image", format!("entry {i} type {:#x}: [{rva:#x},+{size:#x}) image {:#x}", e.stream_type, b.len()));
            continue;
        }
        d.object(rva, size, "stream", format!("stream {:#x}", e.stream_type));
        decode_stream(&mut d, &rd, e.stream_type, rva, size);
    }
    d
}

fn size_problem(d: &mut Decoded, what: &str, size: u64, want: u64) -> bool {
    if size != want {
        d.problem("stream-size-mismatch", format!("{what}: data_size {size} but record count implies {want}"));
        true
    } else {
        false
    }
}

fn blob(d: &mut Decoded, rd: &Rd, loc: Loc, kind: &'static str, owner: String) -> bool {
    if loc.size == 0 {
        return true;
    }
    if rd.get(loc.rva as u64, loc.size as u64).is_none() {
        d.problem("blob-outside-image", format!("{owner}: {kind} [{:#x},+{:#x}) outside image {:#x}", loc.rva, loc.size, rd.b.len()));
        return false;
    }
    d.object(loc.rva as u64, loc.size as u64, kind, owner);
    true
}

/// Decodes a single stream located at (rva, size) inside an arbitrary buffer
/// (used when a stream writer is driven directly).
pub fn decode_one(b: &[u8], ty: u32, rva: u64, size: u64) -> Decoded {
    let rd = Rd { b };
    let mut d = Decoded { len: b.len() as u64, ..Default::default() };
    if rd.get(rva, size).is_none() {
        d.problem("stream-outside-image", format!("[{rva:#x},+{size:#x})"));
        return d;
    }
    d.object(rva, size, "stream", format!("stream {ty:#x}"));
    decode_stream(&mut d, &rd, ty, rva, size);
    d
}

fn decode_stream(d: &mut Decoded, rd: &Rd, ty: u32, rva: u64, size: u64) {
    match ty {
        ST_THREAD_LIST => {
            let Some(n) = rd.u32(rva) else { return d.problem("stream-too-short", "thread list".into()) };
            if size < 4 {
                return d.problem("stream-too-short", "thread list".into());
            }
            let n = n as u64;
            if size_problem(d, "thread list", size, 4 + n * SZ_THREAD) {
                return;
            }
            let mut v = vec![];
            for i in 0..n {
                let o = rva + 4 + i * SZ_THREAD;
                let t = Thread {
                    tid: rd.u32(o).unwrap(),
                    suspend_count: rd.u32(o + 4).unwrap(),
                    priority_class: rd.u32(o + 8).unwrap(),
                    priority: rd.u32(o + 12).unwrap(),
                    teb: rd.u64(o + 16).unwrap(),
                    stack_start: rd.u64(o + 24).unwrap(),
                    stack: rd.loc(o + 32).unwrap(),
                    ctx: rd.loc(o + 40).unwrap(),
                };
                blob(d, rd, t.stack, "stack", format!("thread {}", t.tid));
                if t.ctx.size != 0 {
                    if t.ctx.size as u64 != SZ_CONTEXT {
                        d.problem("context-size", format!("thread {}: context size {}", t.tid, t.ctx.size));
                    }
                    blob(d, rd, t.ctx, "context", format!("thread {}", t.tid));
                }
                v.push(t);
            }
            d.threads = Some(v);
        }
        ST_MODULE_LIST => {
            let Some(n) = rd.u32(rva) else { return d.problem("stream-too-short", "module list".into()) };
            let n = n as u64;
            if size_problem(d, "module list", size, 4 + n * SZ_MODULE) {
                return;
            }
            let mut v = vec![];
            for i in 0..n {
                let o = rva + 4 + i * SZ_MODULE;
                let mut m = Module {
                    base: rd.u64(o).unwrap(),
                    size: rd.u32(o + 8).unwrap(),
                    checksum: rd.u32(o + 12).unwrap(),
                    time_date_stamp: rd.u32(o + 16).unwrap(),
                    name_rva: rd.u32(o + 20).unwrap(),
                    cv: rd.loc(o + 24 + 52).unwrap(),
                    misc: rd.loc(o + 24 + 52 + 8).unwrap(),
                    ..Default::default()
                };
                for k in 0..13 {
                    m.version[k] = rd.u32(o + 24 + 4 * k as u64).unwrap();
                }
                m.name = d.string(rd, m.name_rva as u64, format!("module {i} name"));
                if m.cv.size != 0 {
                    if blob(d, rd, m.cv, "cv-record", format!("module {i}")) {
                        let bytes = rd.get(m.cv.rva as u64, m.cv.size as u64).unwrap().to_vec();
                        if bytes.len() < 5 || u32::from_le_bytes(bytes[0..4].try_into().unwrap()) != CV_ELF {
                            d.problem("cv-record-malformed", format!("module {i}: cv record {:02x?}", &bytes[..bytes.len().min(8)]));
                        }
                        m.cv_bytes = Some(bytes);
                    }
                }
                blob(d, rd, m.misc, "misc-record", format!("module {i}"));
                v.push(m);
            }
            d.modules = Some(v);
        }
        ST_MEMORY_LIST => {
            let Some(n) = rd.u32(rva) else { return d.problem("stream-too-short", "memory list".into()) };
            let n = n as u64;
            if size_problem(d, "memory list", size, 4 + n * SZ_MEMDESC) {
                return;
            }
            let mut v = vec![];
            for i in 0..n {
                let o = rva + 4 + i * SZ_MEMDESC;
                let m = MemDesc { start: rd.u64(o).unwrap(), loc: rd.loc(o + 8).unwrap() };
                blob(d, rd, m.loc, "memory", format!("memory {i} @{:#x}", m.start));
                v.push(m);
            }
            d.memory = Some(v);
        }
        ST_EXCEPTION => {
            if size_problem(d, "exception stream", size, SZ_EXCEPTION) {
                return;
            }
            let e = Exception {
                tid: rd.u32(rva).unwrap(),
                code: rd.u32(rva + 8).unwrap(),
                flags: rd.u32(rva + 12).unwrap(),
                record: rd.u64(rva + 16).unwrap(),
                address: rd.u64(rva + 24).unwrap(),
                num_params: rd.u32(rva + 32).unwrap(),
                ctx: rd.loc(rva + 160).unwrap(),
            };
            if e.ctx.size != 0 {
                if e.ctx.size as u64 != SZ_CONTEXT {
                    d.problem("context-size", format!("exception context size {}", e.ctx.size));
                }
                blob(d, rd, e.ctx, "exception-context", "exception".into());
            }
            d.exception = Some(e);
        }
        ST_SYSTEM_INFO => {
            if size_problem(d, "system info", size, SZ_SYSINFO) {
                return;
            }
            let mut s = SysInfo {
                arch: rd.u16(rva).unwrap(),
                level: rd.u16(rva + 2).unwrap(),
                revision: rd.u16(rva + 4).unwrap(),
                nproc: rd.u8(rva + 6).unwrap(),
                product_type: rd.u8(rva + 7).unwrap(),
                major: rd.u32(rva + 8).unwrap(),
                minor: rd.u32(rva + 12).unwrap(),
                build: rd.u32(rva + 16).unwrap(),
                platform_id: rd.u32(rva + 20).unwrap(),
                csd_rva: rd.u32(rva + 24).unwrap(),
                ..Default::default()
            };
            s.cpu.copy_from_slice(rd.get(rva + 32, 24).unwrap());
            s.csd = d.string(rd, s.csd_rva as u64, "system info csd version".into());
            d.sysinfo = Some(s);
        }
        ST_THREAD_NAMES => {
            let Some(n) = rd.u32(rva) else { return d.problem("stream-too-short", "thread names".into()) };
            let n = n as u64;
            if size_problem(d, "thread names", size, 4 + n * SZ_THREAD_NAME) {
                return;
            }
            let mut v = vec![];
            for i in 0..n {
                let o = rva + 4 + i * SZ_THREAD_NAME;
                let tid = rd.u32(o).unwrap();
                let nrva = rd.u64(o + 4).unwrap();
                let name = d.string(rd, nrva, format!("thread name {i} (tid {tid})"));
                v.push((tid, nrva, name));
            }
            d.thread_names = Some(v);
        }
        ST_MEMORY_INFO_LIST => {
            if size < SZ_MEMINFO_HDR {
                return d.problem("stream-too-short", "memory info list".into());
            }
            let hs = rd.u32(rva).unwrap() as u64;
            let es = rd.u32(rva + 4).unwrap() as u64;
            let n = rd.u64(rva + 8).unwrap();
            if hs != SZ_MEMINFO_HDR || es != SZ_MEMINFO {
                d.problem("meminfo-header", format!("size_of_header {hs} size_of_entry {es}"));
                return;
            }
            if n > (1 << 32) || size_problem(d, "memory info list", size, SZ_MEMINFO_HDR + n * SZ_MEMINFO) {
                return;
            }
            let mut v = vec![];
            for i in 0..n {
                let o = rva + SZ_MEMINFO_HDR + i * SZ_MEMINFO;
                v.push(MemInfo {
                    base: rd.u64(o).unwrap(),
                    alloc_base: rd.u64(o + 8).unwrap(),
                    alloc_prot: rd.u32(o + 16).unwrap(),
                    region_size: rd.u64(o + 24).unwrap(),
                    state: rd.u32(o + 32).unwrap(),
                    protection: rd.u32(o + 36).unwrap(),
                    ty: rd.u32(o + 40).unwrap(),
                });
            }
            d.meminfo = Some(v);
        }
        ST_HANDLE_DATA => {
            if size < SZ_HANDLE_HDR {
                return d.problem("stream-too-short", "handle data".into());
            }
            let hs = rd.u32(rva).unwrap() as u64;
            let ds = rd.u32(rva + 4).unwrap() as u64;
            let n = rd.u32(rva + 8).unwrap() as u64;
            if hs != SZ_HANDLE_HDR || ds != SZ_HANDLE {
                d.problem("handle-header", format!("size_of_header {hs} size_of_descriptor {ds}"));
                return;
            }
            if size_problem(d, "handle data", size, SZ_HANDLE_HDR + n * SZ_HANDLE) {
                return;
            }
            let mut v = vec![];
            for i in 0..n {
                let o = rva + SZ_HANDLE_HDR + i * SZ_HANDLE;
                let mut h = Handle {
                    handle: rd.u64(o).unwrap(),
                    type_name_rva: rd.u32(o + 8).unwrap(),
                    object_name_rva: rd.u32(o + 12).unwrap(),
                    attributes: rd.u32(o + 16).unwrap(),
                    granted_access: rd.u32(o + 20).unwrap(),
                    handle_count: rd.u32(o + 24).unwrap(),
                    pointer_count: rd.u32(o + 28).unwrap(),
                    object_name: None,
                };
                if h.type_name_rva != 0 {
                    d.string(rd, h.type_name_rva as u64, format!("handle {} type name", h.handle));
                }
                if h.object_name_rva != 0 {
                    h.object_name = d.string(rd, h.object_name_rva as u64, format!("handle {} object name", h.handle));
                }
                v.push(h);
            }
            d.handles = Some(v);
        }
        ST_LINUX_DSO_DEBUG => {
            if size < SZ_DSO || (size - SZ_DSO) % 16 != 0 {
                d.problem("stream-size-mismatch", format!("dso debug: data_size {size} is not 36 + k*16"));
                return;
            }
            let mut s = Dso {
                version: rd.u32(rva).unwrap(),
                map_rva: rd.u32(rva + 4).unwrap(),
                count: rd.u32(rva + 8).unwrap(),
                brk: rd.u64(rva + 12).unwrap(),
                ldbase: rd.u64(rva + 20).unwrap(),
                dynamic: rd.u64(rva + 28).unwrap(),
                links: vec![],
                dynamic_bytes: rd.get(rva + SZ_DSO, size - SZ_DSO).unwrap().to_vec(),
            };
            if s.count > 0 {
                let arr = Loc { size: 0, rva: s.map_rva };
                let alen = s.count as u64 * SZ_LINKMAP;
                if rd.get(arr.rva as u64, alen).is_none() {
                    d.problem("blob-outside-image", format!("dso link map array [{:#x},+{alen:#x})", arr.rva));
                } else {
                    d.object(arr.rva as u64, alen, "link-map-array", "dso debug".into());
                    for i in 0..s.count as u64 {
                        let o = s.map_rva as u64 + i * SZ_LINKMAP;
                        let addr = rd.u64(o).unwrap();
                        let nrva = rd.u32(o + 8).unwrap();
                        let ld = rd.u64(o + 12).unwrap();
                        let name = d.string(rd, nrva as u64, format!("link map {i} name"));
                        s.links.push((addr, name, ld));
                    }
                }
            }
            d.dso = Some(s);
        }
        ST_LINUX_CPU_INFO | ST_LINUX_PROC_STATUS | ST_LINUX_LSB_RELEASE | ST_LINUX_CMD_LINE | ST_LINUX_ENVIRON
        | ST_LINUX_AUXV | ST_LINUX_MAPS | ST_MOZ_LINUX_LIMITS | ST_MOZ_SOFT_ERRORS => {
            d.raw.insert(ty, Loc { size: size as u32, rva: rva as u32 });
        }
        other => {
            d.problem("unknown-stream-type", format!("{other:#x}"));
        }
    }
}

/// AMD64 context view (offsets from the format definition).
#[derive(Debug, Clone, PartialEq, Eq, Default)]
pub struct Ctx {
    pub context_flags: u32,
    pub mx_csr: u32,
    pub cs: u16,
    pub ds: u16,
    pub es: u16,
    pub fs: u16,
    pub gs: u16,
    pub ss: u16,
    pub eflags: u32,
    pub dr: [u64; 6],
    /// rax rcx rdx rbx rsp rbp rsi rdi r8..r15
    pub gpr: [u64; 16],
    pub rip: u64,
    pub float_save: Vec<u8>,
}

pub const GPR_NAMES: [&str; 16] = [
    "rax", "rcx", "rdx", "rbx", "rsp", "rbp", "rsi", "rdi", "r8", "r9", "r10", "r11", "r12", "r13", "r14", "r15",
];

pub fn parse_ctx(b: &[u8]) -> Option<Ctx> {
    if b.len() as u64 != SZ_CONTEXT {
        return None;
    }
    let rd = Rd { b };
    let mut c = Ctx {
        context_flags: rd.u32(48)?,
        mx_csr: rd.u32(52)?,
        cs: rd.u16(56)?,
        ds: rd.u16(58)?,
        es: rd.u16(60)?,
        fs: rd.u16(62)?,
        gs: rd.u16(64)?,
        ss: rd.u16(66)?,
        eflags: rd.u32(68)?,
        ..Default::default()
    };
    for i in 0..6 {
        c.dr[i] = rd.u64(72 + 8 * i as u64)?;
    }
    for i in 0..16 {
        c.gpr[i] = rd.u64(120 + 8 * i as u64)?;
    }
    c.rip = rd.u64(248)?;
    c.float_save = rd.get(256, 512)?.to_vec();
    Some(c)
}

/// XMM_SAVE_AREA32 view inside `float_save`.
pub struct FloatSave<'a>(pub &'a [u8]);
impl FloatSave<'_> {
    pub fn control_word(&self) -> u16 {
        u16::from_le_bytes(self.0[0..2].try_into().unwrap())
    }
    pub fn status_word(&self) -> u16 {
        u16::from_le_bytes(self.0[2..4].try_into().unwrap())
    }
    pub fn tag_word(&self) -> u8 {
        self.0[4]
    }
    pub fn error_opcode(&self) -> u16 {
        u16::from_le_bytes(self.0[6..8].try_into().unwrap())
    }
    pub fn error_offset(&self) -> u32 {
        u32::from_le_bytes(self.0[8..12].try_into().unwrap())
    }
    pub fn error_selector(&self) -> u16 {
        u16::from_le_bytes(self.0[12..14].try_into().unwrap())
    }
    pub fn data_offset(&self) -> u32 {
        u32::from_le_bytes(self.0[16..20].try_into().unwrap())
    }
    pub fn data_selector(&self) -> u16 {
        u16::from_le_bytes(self.0[20..22].try_into().unwrap())
    }
    pub fn mx_csr(&self) -> u32 {
        u32::from_le_bytes(self.0[24..28].try_into().unwrap())
    }
    pub fn mx_csr_mask(&self) -> u32 {
        u32::from_le_bytes(self.0[28..32].try_into().unwrap())
    }
    /// 8 x 16 bytes
    pub fn float_registers(&self) -> &[u8] {
        &self.0[32..160]
    }
    /// 16 x 16 bytes
    pub fn xmm_registers(&self) -> &[u8] {
        &self.0[160..416]
    }
}

/// The structural predicate of C01 on a complete image.
pub fn structural_problems(d: &Decoded, expect_streams: Option<u32>) -> Vec<Problem> {
    let mut p = d.problems.clone();
    if let Some(n) = expect_streams {
        if d.stream_count != n || d.dirs.len() as u32 != n {
            p.push(Problem { sig: "stream-count".into(), detail: format!("header declares {} entries, directory has {}, expected {n}", d.stream_count, d.dirs.len()) });
        }
    }
    for (a, b) in d.overlaps() {
        p.push(Problem {
            sig: format!("overlap:{}/{}", a.kind.min(b.kind), a.kind.max(b.kind)),
            detail: format!("{} {} [{:#x},+{:#x}) overlaps {} {} [{:#x},+{:#x})", a.kind, a.owner, a.off, a.len, b.kind, b.owner, b.off, b.len),
        });
    }
    p
}
