//! A lane-local `PtraceDumper` bound to an idle helper child.  The dumper's
//! public fields (`mappings`, `threads`, `page_size`) are overwritten per case
//! by the pure engine.

use minidump_writer::maps_reader::{MappingInfo, SystemMappingInfo};
use minidump_writer::ptrace_dumper::PtraceDumper;
use procfs_core::process::MMPermissions;
use std::cell::RefCell;

thread_local! {
    static DUMPER: RefCell<Option<(i32, PtraceDumper)>> = const { RefCell::new(None) };
}

pub fn with_dumper<R>(f: impl FnOnce(&mut PtraceDumper, i32) -> R) -> R {
    DUMPER.with(|d| {
        let mut d = d.borrow_mut();
        if d.is_none() {
            let pid = super::helpers::spawn_idle();
            let dumper = PtraceDumper::new_report_soft_errors(
                pid,
                std::time::Duration::from_millis(1000),
                minidump_writer::minidump_writer::DirectAuxvDumpInfo::default().into(),
                error_graph::strategy::DontCare,
            )
            .expect("PtraceDumper for idle child");
            *d = Some((pid, dumper));
        }
        let (pid, dumper) = d.as_mut().unwrap();
        f(dumper, *pid)
    })
}

pub fn drop_dumper() {
    DUMPER.with(|d| {
        d.borrow_mut().take();
    });
}

/// perms bits: 1 r, 2 w, 4 x, 8 shared
pub fn perms_of(bits: u8) -> MMPermissions {
    let mut p = MMPermissions::empty();
    if bits & 1 != 0 {
        p |= MMPermissions::READ;
    }
    if bits & 2 != 0 {
        p |= MMPermissions::WRITE;
    }
    if bits & 4 != 0 {
        p |= MMPermissions::EXECUTE;
    }
    if bits & 8 != 0 {
        p |= MMPermissions::SHARED;
    } else {
        p |= MMPermissions::PRIVATE;
    }
    p
}

pub fn mapping(start: usize, size: usize, perms: u8, name: Option<&str>, offset: usize) -> MappingInfo {
    MappingInfo {
        start_address: start,
        size,
        system_mapping_info: SystemMappingInfo {
            start_address: start,
            end_address: start + size,
        },
        offset,
        permissions: perms_of(perms),
        name: name.map(|s| s.into()),
    }
}
