//! Structure-aware decoding of fuzz bytes into any `Deserialize` case type (E4 generic target).
//!
//! A serde `Deserializer` that reads the value *shape* from the type (struct fields in order, enum
//! variant = one byte modulo the number of variants, Option = one byte, sequence length = one or two
//! bytes, integers little-endian) and the *content* from the byte string, zero-padded at the end.  A
//! libFuzzer mutation of one byte therefore changes one field / one element / one choice of the case,
//! which is what makes coverage feedback meaningful.  Only sub-checks whose case types are total
//! (every field value is a valid input, because the interpreter reduces selectors itself) are driven
//! this way; see `props::fuzz_entry::GENERIC_SUBS`.

use serde::de::{self, DeserializeSeed, Deserializer, EnumAccess, IntoDeserializer, MapAccess, SeqAccess, VariantAccess, Visitor};

#[derive(Debug)]
pub struct Error(pub String);
impl std::fmt::Display for Error {
    fn fmt(&self, f: &mut std::fmt::Formatter<'_>) -> std::fmt::Result {
        f.write_str(&self.0)
    }
}
impl std::error::Error for Error {}
impl de::Error for Error {
    fn custom<T: std::fmt::Display>(msg: T) -> Self {
        Error(msg.to_string())
    }
}

pub struct ByteDe<'a> {
    data: &'a [u8],
    pos: usize,
    depth: u32,
}

impl<'a> ByteDe<'a> {
    pub fn new(data: &'a [u8]) -> Self {
        ByteDe { data, pos: 0, depth: 0 }
    }
    fn byte(&mut self) -> u8 {
        let b = self.data.get(self.pos).copied().unwrap_or(0);
        self.pos += 1;
        b
    }
    fn le(&mut self, n: usize) -> u64 {
        let mut v = 0u64;
        for i in 0..n {
            v |= (self.byte() as u64) << (8 * i);
        }
        v
    }
    fn seq_len(&mut self) -> usize {
        // past the end of the input every sequence is empty (bounded output for any input)
        if self.pos >= self.data.len() {
            return 0;
        }
        let b = self.byte();
        if b < 224 {
            (b % 32) as usize
        } else {
            32 + self.byte() as usize
        }
    }
}

pub fn from_bytes<T: de::DeserializeOwned>(data: &[u8]) -> Result<T, Error> {
    let mut d = ByteDe::new(data);
    T::deserialize(&mut d)
}

struct Counted<'b, 'a> {
    de: &'b mut ByteDe<'a>,
    left: usize,
}

impl<'de, 'b, 'a> SeqAccess<'de> for Counted<'b, 'a> {
    type Error = Error;
    fn next_element_seed<T: DeserializeSeed<'de>>(&mut self, seed: T) -> Result<Option<T::Value>, Error> {
        if self.left == 0 {
            return Ok(None);
        }
        self.left -= 1;
        seed.deserialize(&mut *self.de).map(Some)
    }
    fn size_hint(&self) -> Option<usize> {
        Some(self.left)
    }
}

impl<'de, 'b, 'a> MapAccess<'de> for Counted<'b, 'a> {
    type Error = Error;
    fn next_key_seed<K: DeserializeSeed<'de>>(&mut self, seed: K) -> Result<Option<K::Value>, Error> {
        if self.left == 0 {
            return Ok(None);
        }
        self.left -= 1;
        seed.deserialize(&mut *self.de).map(Some)
    }
    fn next_value_seed<V: DeserializeSeed<'de>>(&mut self, seed: V) -> Result<V::Value, Error> {
        seed.deserialize(&mut *self.de)
    }
}

struct Enum<'b, 'a> {
    de: &'b mut ByteDe<'a>,
    idx: u32,
}

impl<'de, 'b, 'a> EnumAccess<'de> for Enum<'b, 'a> {
    type Error = Error;
    type Variant = Self;
    fn variant_seed<V: DeserializeSeed<'de>>(self, seed: V) -> Result<(V::Value, Self), Error> {
        let v = seed.deserialize(IntoDeserializer::<Error>::into_deserializer(self.idx))?;
        Ok((v, self))
    }
}

impl<'de, 'b, 'a> VariantAccess<'de> for Enum<'b, 'a> {
    type Error = Error;
    fn unit_variant(self) -> Result<(), Error> {
        Ok(())
    }
    fn newtype_variant_seed<T: DeserializeSeed<'de>>(self, seed: T) -> Result<T::Value, Error> {
        seed.deserialize(self.de)
    }
    fn tuple_variant<V: Visitor<'de>>(self, len: usize, visitor: V) -> Result<V::Value, Error> {
        visitor.visit_seq(Counted { de: self.de, left: len })
    }
    fn struct_variant<V: Visitor<'de>>(self, fields: &'static [&'static str], visitor: V) -> Result<V::Value, Error> {
        visitor.visit_seq(Counted { de: self.de, left: fields.len() })
    }
}

macro_rules! int {
    ($name:ident, $visit:ident, $ty:ty, $n:expr) => {
        fn $name<V: Visitor<'de>>(self, visitor: V) -> Result<V::Value, Error> {
            visitor.$visit(self.le($n) as $ty)
        }
    };
}

impl<'de, 'b, 'a> Deserializer<'de> for &'b mut ByteDe<'a> {
    type Error = Error;

    fn deserialize_any<V: Visitor<'de>>(self, _visitor: V) -> Result<V::Value, Error> {
        Err(Error("self-describing values are not supported".into()))
    }
    fn deserialize_bool<V: Visitor<'de>>(self, visitor: V) -> Result<V::Value, Error> {
        visitor.visit_bool(self.byte() & 1 == 1)
    }
    int!(deserialize_i8, visit_i8, i8, 1);
    int!(deserialize_i16, visit_i16, i16, 2);
    int!(deserialize_i32, visit_i32, i32, 4);
    int!(deserialize_i64, visit_i64, i64, 8);
    int!(deserialize_u8, visit_u8, u8, 1);
    int!(deserialize_u16, visit_u16, u16, 2);
    int!(deserialize_u32, visit_u32, u32, 4);
    int!(deserialize_u64, visit_u64, u64, 8);
    fn deserialize_f32<V: Visitor<'de>>(self, visitor: V) -> Result<V::Value, Error> {
        visitor.visit_f32(f32::from_bits(self.le(4) as u32))
    }
    fn deserialize_f64<V: Visitor<'de>>(self, visitor: V) -> Result<V::Value, Error> {
        visitor.visit_f64(f64::from_bits(self.le(8)))
    }
    fn deserialize_char<V: Visitor<'de>>(self, visitor: V) -> Result<V::Value, Error> {
        let v = self.le(3) as u32;
        visitor.visit_char(char::from_u32(v % 0x11_0000).unwrap_or('\u{fffd}'))
    }
    fn deserialize_str<V: Visitor<'de>>(self, visitor: V) -> Result<V::Value, Error> {
        self.deserialize_string(visitor)
    }
    fn deserialize_string<V: Visitor<'de>>(self, visitor: V) -> Result<V::Value, Error> {
        let n = self.seq_len();
        let mut s = String::new();
        for _ in 0..n {
            // mostly ASCII, sometimes any scalar value
            let b = self.byte();
            if b < 0x80 {
                s.push(b as char);
            } else {
                let v = ((b as u32 & 0x7f) << 16) | self.le(2) as u32;
                s.push(char::from_u32(v % 0x11_0000).unwrap_or('\u{e9}'));
            }
        }
        visitor.visit_string(s)
    }
    fn deserialize_bytes<V: Visitor<'de>>(self, visitor: V) -> Result<V::Value, Error> {
        self.deserialize_byte_buf(visitor)
    }
    fn deserialize_byte_buf<V: Visitor<'de>>(self, visitor: V) -> Result<V::Value, Error> {
        let n = self.seq_len();
        let v: Vec<u8> = (0..n).map(|_| self.byte()).collect();
        visitor.visit_byte_buf(v)
    }
    fn deserialize_option<V: Visitor<'de>>(self, visitor: V) -> Result<V::Value, Error> {
        if self.byte() & 1 == 1 {
            visitor.visit_some(self)
        } else {
            visitor.visit_none()
        }
    }
    fn deserialize_unit<V: Visitor<'de>>(self, visitor: V) -> Result<V::Value, Error> {
        visitor.visit_unit()
    }
    fn deserialize_unit_struct<V: Visitor<'de>>(self, _name: &'static str, visitor: V) -> Result<V::Value, Error> {
        visitor.visit_unit()
    }
    fn deserialize_newtype_struct<V: Visitor<'de>>(self, _name: &'static str, visitor: V) -> Result<V::Value, Error> {
        visitor.visit_newtype_struct(self)
    }
    fn deserialize_seq<V: Visitor<'de>>(self, visitor: V) -> Result<V::Value, Error> {
        self.depth += 1;
        let n = if self.depth > 6 { 0 } else { self.seq_len() };
        let r = visitor.visit_seq(Counted { de: &mut *self, left: n });
        self.depth -= 1;
        r
    }
    fn deserialize_tuple<V: Visitor<'de>>(self, len: usize, visitor: V) -> Result<V::Value, Error> {
        visitor.visit_seq(Counted { de: self, left: len })
    }
    fn deserialize_tuple_struct<V: Visitor<'de>>(self, _name: &'static str, len: usize, visitor: V) -> Result<V::Value, Error> {
        visitor.visit_seq(Counted { de: self, left: len })
    }
    fn deserialize_map<V: Visitor<'de>>(self, visitor: V) -> Result<V::Value, Error> {
        let n = self.seq_len().min(16);
        visitor.visit_map(Counted { de: self, left: n })
    }
    fn deserialize_struct<V: Visitor<'de>>(self, _name: &'static str, fields: &'static [&'static str], visitor: V) -> Result<V::Value, Error> {
        visitor.visit_seq(Counted { de: self, left: fields.len() })
    }
    fn deserialize_enum<V: Visitor<'de>>(self, _name: &'static str, variants: &'static [&'static str], visitor: V) -> Result<V::Value, Error> {
        if variants.is_empty() {
            return Err(Error("empty enum".into()));
        }
        let idx = self.byte() as u32 % variants.len() as u32;
        visitor.visit_enum(Enum { de: self, idx })
    }
    fn deserialize_identifier<V: Visitor<'de>>(self, _visitor: V) -> Result<V::Value, Error> {
        Err(Error("identifiers are not decoded from bytes".into()))
    }
    fn deserialize_ignored_any<V: Visitor<'de>>(self, visitor: V) -> Result<V::Value, Error> {
        visitor.visit_unit()
    }
}
