//! Generated address-space layouts (sorted, non-overlapping, page-aligned
//! mapping lists) for the pure engine.

use proptest::prelude::*;
use serde::{Deserialize, Serialize};

pub const PAGE: u64 = 4096;
pub const BUCKET: u64 = 1 << 21; // granularity of the sanitizer's pre-filter
pub const ALIAS: u64 = 1 << 32; // period of the pre-filter

#[derive(Debug, Clone, PartialEq, Eq, Hash, Serialize, Deserialize)]
pub enum Gap {
    Pages(u32),
    /// advance to the next 2 MiB boundary (then minus `back` pages)
    ToBucketEdge { back: u8 },
    /// advance by k * 4 GiB minus `back` pages (aliasing buckets)
    Alias { k: u8, back: u16 },
}

#[derive(Debug, Clone, PartialEq, Eq, Hash, Serialize, Deserialize)]
pub struct MapSpec {
    pub gap: Gap,
    pub pages: u32,
    /// 1 r, 2 w, 4 x, 8 shared
    pub perms: u8,
}

#[derive(Debug, Clone, PartialEq, Eq, Hash, Serialize, Deserialize)]
pub struct Layout {
    pub base_page: u32,
    pub maps: Vec<MapSpec>,
}

#[derive(Debug, Clone, Copy, PartialEq, Eq)]
pub struct Region {
    pub start: u64,
    pub end: u64,
    pub perms: u8,
}

impl Region {
    pub fn contains(&self, a: u64) -> bool {
        self.start <= a && a < self.end
    }
    pub fn exec(&self) -> bool {
        self.perms & 4 != 0
    }
}

impl Layout {
    pub fn resolve(&self) -> Vec<Region> {
        let mut out = vec![];
        let mut at: u64 = (self.base_page as u64 + 16) * PAGE;
        let limit: u64 = 0x7fff_ffff_f000;
        for m in &self.maps {
            let next = match m.gap {
                Gap::Pages(p) => at + p as u64 * PAGE,
                Gap::ToBucketEdge { back } => {
                    let edge = (at / BUCKET + 1) * BUCKET;
                    let b = back as u64 * PAGE;
                    if edge - at >= b { edge - b } else { edge }
                }
                Gap::Alias { k, back } => {
                    let t = at + (k.max(1) as u64) * ALIAS;
                    let b = back as u64 * PAGE;
                    if t - at > b { t - b } else { t }
                }
            };
            let start = next.max(at);
            // sizes are folded below 4 GiB (the generators stay far below; bounds the cost of byte-decoded cases)
            let end = start + ((m.pages % (1 << 20)).max(1) as u64) * PAGE;
            if end > limit {
                break;
            }
            out.push(Region { start, end, perms: m.perms & 0xf });
            at = end;
        }
        out
    }
}

pub fn perms_strategy() -> impl Strategy<Value = u8> {
    prop_oneof![
        3 => Just(3u8),  // rw-
        3 => Just(5u8),  // r-x
        2 => Just(1u8),  // r--
        2 => Just(0u8),  // ---
        1 => Just(7u8),  // rwx
        1 => Just(4u8),  // --x
        1 => Just(2u8),  // -w-
        1 => 0u8..16,
    ]
}

pub fn mapspec_strategy(max_pages: u32) -> impl Strategy<Value = MapSpec> {
    (
        prop_oneof![
            4 => Just(Gap::Pages(0)),
            3 => (1u32..300).prop_map(Gap::Pages),
            1 => (300u32..100_000).prop_map(Gap::Pages),
            2 => (0u8..4).prop_map(|back| Gap::ToBucketEdge { back }),
            2 => (1u8..5, 0u16..1030).prop_map(|(k, back)| Gap::Alias { k, back }),
        ],
        prop_oneof![
            6 => 1u32..8,
            3 => 8u32..600,
            1 => 600u32..max_pages.max(601),
            1 => Just(512u32), // exactly one bucket
        ],
        perms_strategy(),
    )
        .prop_map(|(gap, pages, perms)| MapSpec { gap, pages, perms })
}

pub fn layout_strategy(max_maps: usize, max_pages: u32) -> impl Strategy<Value = Layout> {
    (0u32..0x4000_0000, proptest::collection::vec(mapspec_strategy(max_pages), 0..max_maps))
        .prop_map(|(base_page, maps)| Layout { base_page, maps })
}

/// Monotone index map (shrinks towards 0).
pub fn pick(sel: u16, len: usize) -> usize {
    ((sel as usize) * len) >> 16
}
