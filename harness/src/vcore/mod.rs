//! Shared machinery: helper processes, strict minidump decoder, ELF kit,
//! target program driver, reference models.
pub mod arena;
pub mod bytede;
pub mod dest;
pub mod dso;
pub mod dumper;
pub mod elf;
pub mod faultfs;
pub mod helpers;
pub mod layout;
pub mod md;
pub mod normal;
pub mod regs;
pub mod target;
pub mod world;
