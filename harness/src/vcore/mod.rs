//! Shared machinery: helper processes, strict minidump decoder, ELF kit,
//! target program driver, reference models.
pub mod dumper;
pub mod helpers;
pub mod layout;
