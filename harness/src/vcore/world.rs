//! Builder for target specifications with known ground truth, and the dump
//! runner (writer construction, outcome capture).

use super::dest::Dest;
use super::regs::FpState;
use super::target::*;
use minidump_writer::app_memory::AppMemory;
use minidump_writer::crash_context::CrashContext;
use minidump_writer::maps_reader::{MappingEntry, MappingInfo, SystemMappingInfo};
use minidump_writer::minidump_writer::MinidumpWriter;
use minidump_writer::minidump_writer::DirectAuxvDumpInfo;
use serde::{Deserialize, Serialize};

pub const STACK_AREA: u64 = 0x1000_0000_0000;
pub const STACK_STRIDE: u64 = 0x100_0000; // 16 MiB
pub const MAP_AREA: u64 = 0x2000_0000_0000;
pub const MAP_STRIDE: u64 = 0x4000_0000; // 1 GiB
pub const PAGE: u64 = 4096;

pub fn splitmix(x: &mut u64) -> u64 {
    *x = x.wrapping_add(0x9e37_79b9_7f4a_7c15);
    let mut z = *x;
    z = (z ^ (z >> 30)).wrapping_mul(0xbf58_476d_1ce4_e5b9);
    z = (z ^ (z >> 27)).wrapping_mul(0x94d0_49bb_1331_11eb);
    z ^ (z >> 31)
}

/// Sentinel GPR values for a thread: canonical-looking but recognisable.
pub fn sentinel_regs(seed: u64) -> Vec<u64> {
    let mut s = seed ^ 0x5e_7153;
    (0..16).map(|_| splitmix(&mut s)).collect()
}

/// A valid FXSAVE image with recognisable x87/SSE contents.
pub fn sentinel_fx(seed: u64) -> Vec<u8> {
    let mut s = seed ^ 0xf10a7;
    let mut fx = vec![0u8; 512];
    fx[0] = 0x7f;
    fx[1] = 0x03; // fcw 0x037f
    fx[4] = 0xff; // abridged tag: all valid
    let rc = (splitmix(&mut s) & 3) as u32;
    let mxcsr: u32 = 0x1f80 | (rc << 13);
    fx[24..28].copy_from_slice(&mxcsr.to_le_bytes());
    for r in 0..8 {
        let a = splitmix(&mut s) | (1 << 63);
        let e = (splitmix(&mut s) & 0x7ffe) as u16 | 1;
        fx[32 + 16 * r..32 + 16 * r + 8].copy_from_slice(&a.to_le_bytes());
        fx[32 + 16 * r + 8..32 + 16 * r + 10].copy_from_slice(&e.to_le_bytes());
    }
    for r in 0..16 {
        let a = splitmix(&mut s);
        let b = splitmix(&mut s);
        fx[160 + 16 * r..160 + 16 * r + 8].copy_from_slice(&a.to_le_bytes());
        fx[160 + 16 * r + 8..160 + 16 * r + 16].copy_from_slice(&b.to_le_bytes());
    }
    fx
}

pub fn fpstate_of_fx(fx: &[u8]) -> FpState {
    FpState {
        cwd: u16::from_le_bytes([fx[0], fx[1]]),
        swd: u16::from_le_bytes([fx[2], fx[3]]),
        ftw: fx[4] as u16,
        fop: u16::from_le_bytes([fx[6], fx[7]]),
        rip: u64::from_le_bytes(fx[8..16].try_into().unwrap()),
        rdp: u64::from_le_bytes(fx[16..24].try_into().unwrap()),
        mxcsr: u32::from_le_bytes(fx[24..28].try_into().unwrap()),
        mxcr_mask: u32::from_le_bytes(fx[28..32].try_into().unwrap()),
        st_space: fx[32..160].chunks(4).map(|c| u32::from_le_bytes(c.try_into().unwrap())).collect(),
        xmm_space: fx[160..416].chunks(4).map(|c| u32::from_le_bytes(c.try_into().unwrap())).collect(),
    }
}

#[derive(Debug, Clone, Copy)]
pub struct StackInfo {
    pub map_id: u32,
    pub base: u64,
    pub end: u64,
    /// address of the PROT_NONE guard page directly below (if any)
    pub guard: Option<u64>,
}

pub struct Builder {
    pub spec: TSpec,
    next_map: u32,
    next_thread: u32,
    stack_slot: u64,
    map_slot: u64,
}

impl Default for Builder {
    fn default() -> Self {
        Self::new()
    }
}

impl Builder {
    pub fn new() -> Self {
        Builder { spec: TSpec::default(), next_map: 1, next_thread: 0, stack_slot: 0, map_slot: 0 }
    }

    pub fn add_stack(&mut self, pages: u64, guard: bool, seed: u64) -> StackInfo {
        let slot = STACK_AREA + self.stack_slot * STACK_STRIDE;
        self.stack_slot += 1;
        // leave 2 MiB below the stack inside the slot for holes/guards
        let base = slot + 0x20_0000;
        let mut g = None;
        if guard {
            let id = self.next_map;
            self.next_map += 1;
            self.spec.maps.push(TMap { id, addr: base - PAGE, pages: 1, prot: 0, kind: MapKind::Anon { seed: 0, content: None } });
            g = Some(base - PAGE);
        }
        let id = self.next_map;
        self.next_map += 1;
        self.spec.maps.push(TMap { id, addr: base, pages, prot: 3, kind: MapKind::Anon { seed: seed | 1, content: None } });
        StackInfo { map_id: id, base, end: base + pages * PAGE, guard: g }
    }

    pub fn next_map_addr(&mut self) -> u64 {
        let a = MAP_AREA + self.map_slot * MAP_STRIDE;
        self.map_slot += 1;
        a
    }

    pub fn add_anon(&mut self, pages: u64, prot: u8, seed: u64) -> (u32, u64) {
        let addr = self.next_map_addr();
        self.add_anon_at(addr, pages, prot, seed)
    }

    pub fn add_anon_at(&mut self, addr: u64, pages: u64, prot: u8, seed: u64) -> (u32, u64) {
        let id = self.next_map;
        self.next_map += 1;
        self.spec.maps.push(TMap { id, addr, pages, prot, kind: MapKind::Anon { seed, content: None } });
        (id, addr)
    }

    pub fn add_content_at(&mut self, addr: u64, pages: u64, prot: u8, content: Vec<u8>) -> u32 {
        let id = self.next_map;
        self.next_map += 1;
        self.spec.maps.push(TMap { id, addr, pages, prot, kind: MapKind::Anon { seed: 0, content: Some(content) } });
        id
    }

    pub fn add_file_map_at(&mut self, addr: u64, pages: u64, prot: u8, path: &[u8], off_pages: u64, shared: bool) -> u32 {
        let id = self.next_map;
        self.next_map += 1;
        self.spec.maps.push(TMap { id, addr, pages, prot, kind: MapKind::File { path: path.to_vec(), off_pages, shared } });
        id
    }

    pub fn add_thread(&mut self, kind: u8, name: Option<Vec<u8>>, sp: u64, seed: u64) -> u32 {
        let id = self.next_thread;
        self.next_thread += 1;
        let mut regs = sentinel_regs(seed);
        if kind == K_SPINNER || kind == K_NULLSP || kind == K_ODDSP {
            regs[12] = 1000 + (seed & 0xff); // r12 counter start
        }
        self.spec.threads.push(TThread { id, kind, name, sp, aux: 0, code: 0, regs, fx: Some(sentinel_fx(seed)) });
        id
    }

    pub fn thread_mut(&mut self, id: u32) -> &mut TThread {
        self.spec.threads.iter_mut().find(|t| t.id == id).unwrap()
    }
}

// ---------------------------------------------------------------------------
// Writer options
// ---------------------------------------------------------------------------

#[derive(Debug, Clone, Default, PartialEq, Eq, Hash, Serialize, Deserialize)]
pub struct UserMap {
    pub start: u64,
    pub size: u64,
    pub name: Option<String>,
    pub identifier: Vec<u8>,
    pub offset: u64,
    pub perms: u8,
}

#[derive(Debug, Clone, Default)]
pub struct DumpOpts {
    pub blamed: i32,
    pub crash: Option<CrashContext2>,
    pub size_limit: Option<u64>,
    pub sanitize: bool,
    pub skip_unreferenced: bool,
    pub principal: Option<u64>,
    pub app_memory: Vec<(u64, u64)>,
    pub user_mappings: Vec<UserMap>,
    /// phnum, phdr, gate, entry
    pub direct_auxv: Option<[u64; 4]>,
    pub stop_timeout_ms: Option<u64>,
}

/// Plain description of a crash context (so it can be cloned).
#[derive(Debug, Clone, PartialEq, Eq, Hash, Serialize, Deserialize)]
pub struct CrashContext2 {
    pub gregs: Vec<i64>,
    pub fp: FpState,
    pub signo: u32,
    pub code: i32,
    pub addr: u64,
    pub tid: i32,
}

impl CrashContext2 {
    pub fn build(&self, pid: i32) -> CrashContext {
        let uc = crate::props::c05::UcCase { gregs: self.gregs.clone(), fp: self.fp.clone(), signo: self.signo, code: self.code, addr: self.addr, errno: 0 };
        crate::props::c05::build_crash_context(&uc, pid, self.tid)
    }
}

pub fn user_mapping_entry(u: &UserMap) -> MappingEntry {
    MappingEntry {
        mapping: MappingInfo {
            start_address: u.start as usize,
            size: u.size as usize,
            system_mapping_info: SystemMappingInfo { start_address: u.start as usize, end_address: u.start.saturating_add(u.size) as usize },
            offset: u.offset as usize,
            permissions: super::dumper::perms_of(u.perms),
            name: u.name.as_ref().map(|s| s.into()),
        },
        identifier: u.identifier.clone(),
    }
}

pub fn make_writer(pid: i32, o: &DumpOpts) -> MinidumpWriter {
    let mut w = MinidumpWriter::new(pid, o.blamed);
    if let Some(c) = &o.crash {
        w.set_crash_context(c.build(pid));
    }
    if let Some(l) = o.size_limit {
        w.set_minidump_size_limit(l);
    }
    if o.sanitize {
        w.sanitize_stack();
    }
    if o.skip_unreferenced {
        w.skip_stacks_if_mapping_unreferenced();
    }
    if let Some(p) = o.principal {
        w.set_principal_mapping_address(p as usize);
    }
    if !o.app_memory.is_empty() {
        w.set_app_memory(o.app_memory.iter().map(|(p, l)| AppMemory { ptr: *p as usize, length: *l as usize }).collect());
    }
    if !o.user_mappings.is_empty() {
        w.set_user_mapping_list(o.user_mappings.iter().map(user_mapping_entry).collect());
    }
    if let Some(a) = o.direct_auxv {
        w.set_direct_auxv_dump_info(DirectAuxvDumpInfo {
            program_header_count: a[0],
            program_header_address: a[1],
            linux_gate_address: a[2],
            entry_address: a[3],
        });
    }
    w.stop_timeout(match o.stop_timeout_ms {
        Some(u64::MAX) => std::time::Duration::MAX,
        Some(v) if v == u64::MAX - 1 => std::time::Duration::from_secs(u64::MAX / 4),
        v => std::time::Duration::from_millis(v.unwrap_or(2000)),
    });
    w
}

#[derive(Debug, Clone)]
pub enum DumpOutcome {
    Ok(Vec<u8>),
    Err(String),
    Panic(String, String),
}

/// Runs `f` while the process may only have `k` more descriptors open at any instant than it has now
/// (soft RLIMIT_NOFILE lowered so that exactly `k` descriptor numbers are free below it): every
/// open / opendir / pipe beyond that fails with EMFILE, as it would in a dumper that is itself short
/// of descriptors.  Nothing else in the lane opens files while a dump runs.
pub fn with_fd_budget<R>(k: u8, f: impl FnOnce() -> R) -> R {
    let open: Vec<u64> = (0..4096u64).filter(|fd| unsafe { libc::fcntl(*fd as i32, libc::F_GETFD) } != -1).collect();
    let mut limit = 0u64;
    let mut free = 0u64;
    let mut it = open.iter().peekable();
    while free < k as u64 + 1 {
        if it.peek() == Some(&&limit) {
            it.next();
        } else {
            free += 1;
        }
        limit += 1;
    }
    // `limit` is now one past the (k+1)-th free number: step back so that exactly k are usable
    limit -= 1;
    let mut old = libc::rlimit { rlim_cur: 0, rlim_max: 0 };
    unsafe { libc::getrlimit(libc::RLIMIT_NOFILE, &mut old) };
    let new = libc::rlimit { rlim_cur: limit.min(old.rlim_cur), rlim_max: old.rlim_max };
    unsafe { libc::setrlimit(libc::RLIMIT_NOFILE, &new) };
    let r = f();
    unsafe { libc::setrlimit(libc::RLIMIT_NOFILE, &old) };
    r
}

thread_local! {
    static REFUSED_REGSETS: std::cell::Cell<u8> = const { std::cell::Cell::new(0) };
}

/// Runs `f` with every dump taken by this thread executed on a thread for which the kernel refuses
/// PTRACE_GETREGSET for the general-purpose set (bit 0) and/or the floating-point set (bit 1), as an
/// old kernel, a ptrace emulation or a sandbox policy on the dumping process would: the writer then has
/// to use its second interface (PTRACE_GETREGS / PTRACE_GETFPREGS) for that set.  Bits 2..4 refuse the
/// second interfaces and PTRACE_PEEKUSER too (then the thread's registers cannot be read at all).
pub fn with_refused_regsets<R>(mask: u8, f: impl FnOnce() -> R) -> R {
    let old = REFUSED_REGSETS.with(|m| m.replace(mask & 63));
    let r = f();
    REFUSED_REGSETS.with(|m| m.set(old));
    r
}

/// seccomp filter for the calling thread: the selected requests fail (ptrace ones with EIO).
/// bit 0: PTRACE_GETREGSET for NT_PRSTATUS, bit 1: PTRACE_GETREGSET for NT_PRFPREG,
/// bit 2: PTRACE_GETREGS, bit 3: PTRACE_GETFPREGS, bit 4: PTRACE_PEEKUSER (debug registers),
/// bit 5: process_vm_readv (EPERM: a kernel without cross-memory attach, or a sandbox policy)
fn install_regset_filter(mask: u8) -> bool {
    const ALLOW: u32 = 0x7fff_0000;
    const EIO: u32 = 0x0005_0000 | 5;
    const EPERM: u32 = 0x0005_0000 | 1;
    let ins = |code: u16, jt: u8, jf: u8, k: u32| libc::sock_filter { code, jt, jf, k };
    let ret = |refuse: bool, e: u32| ins(0x06, 0, 0, if refuse { e } else { ALLOW });
    let prog = [
        ins(0x20, 0, 0, 0), // A = nr
        ins(0x15, 15, 0, libc::SYS_process_vm_readv as u32), // -> 17
        ins(0x15, 0, 8, libc::SYS_ptrace as u32), // not ptrace -> 11 (allow)
        ins(0x20, 0, 0, 16), // A = low half of the request
        ins(0x15, 7, 0, 12), // PTRACE_GETREGS   -> 12
        ins(0x15, 7, 0, 14), // PTRACE_GETFPREGS -> 13
        ins(0x15, 7, 0, 3),  // PTRACE_PEEKUSER  -> 14
        ins(0x15, 0, 3, 0x4204), // not PTRACE_GETREGSET -> 11 (allow)
        ins(0x20, 0, 0, 32), // A = low half of the note type
        ins(0x15, 5, 0, 1), // NT_PRSTATUS -> 15
        ins(0x15, 5, 0, 2), // NT_PRFPREG  -> 16
        ret(false, EIO),          // 11
        ret(mask & 4 != 0, EIO),  // 12
        ret(mask & 8 != 0, EIO),  // 13
        ret(mask & 16 != 0, EIO), // 14
        ret(mask & 1 != 0, EIO),  // 15
        ret(mask & 2 != 0, EIO),  // 16
        ret(mask & 32 != 0, EPERM), // 17
    ];
    let fprog = libc::sock_fprog { len: prog.len() as u16, filter: prog.as_ptr() as *mut _ };
    unsafe { libc::prctl(libc::PR_SET_NO_NEW_PRIVS, 1, 0, 0, 0) == 0 && libc::prctl(libc::PR_SET_SECCOMP, 2 /* SECCOMP_MODE_FILTER */, &fprog as *const _) == 0 }
}

/// Runs `f` on a fresh thread for which the kernel refuses the selected ptrace register requests (see
/// `install_regset_filter`) and returns its result; None if the filter could not be installed.  The
/// thread - the tracer of whatever `f` leaves attached - lives until `f` returns, so `f` can observe
/// the target as a long-lived dumping thread would leave it (a tracer that exits releases its tracees).
pub fn on_filtered_thread<R>(mask: u8, f: impl FnOnce() -> R) -> Option<R> {
    struct P<T>(T);
    unsafe impl<T> Send for P<T> {}
    let pf = P(f);
    std::thread::scope(|s| {
        s.spawn(move || {
            let pf = pf;
            if !install_regset_filter(mask & 63) {
                return None;
            }
            Some(P((pf.0)()))
        })
        .join()
        .ok()
        .flatten()
        .map(|p| p.0)
    })
}

pub fn run_dump(w: &mut MinidumpWriter, dest: &mut Dest) -> DumpOutcome {
    let mask = REFUSED_REGSETS.with(|m| m.get());
    if mask != 0 {
        struct P<T>(*mut T);
        unsafe impl<T> Send for P<T> {}
        let (pw, pd) = (P(w as *mut MinidumpWriter), P(dest as *mut Dest));
        return std::thread::scope(|s| {
            s.spawn(move || {
                let (pw, pd) = (pw, pd);
                if !install_regset_filter(mask) {
                    return DumpOutcome::Panic("harness:seccomp".into(), "the seccomp filter could not be installed".into());
                }
                // the filter dies with this thread
                unsafe { run_dump_here(&mut *pw.0, &mut *pd.0) }
            })
            .join()
            .unwrap_or_else(|_| DumpOutcome::Panic("harness:dump-thread".into(), "the dump thread died".into()))
        });
    }
    run_dump_here(w, dest)
}

fn run_dump_here(w: &mut MinidumpWriter, dest: &mut Dest) -> DumpOutcome {
    match crate::fw::catch(|| w.dump(dest)) {
        Ok(Ok(v)) => DumpOutcome::Ok(v),
        Ok(Err(e)) => DumpOutcome::Err(format!("{e:?}")),
        Err((loc, msg)) => DumpOutcome::Panic(loc, msg),
    }
}

/// Ensures the scratch root exists and is clean of leftovers of dead lanes.
pub fn init_scratch() {
    let _ = std::fs::create_dir_all(Target::scratch_root());
}

// ---------------------------------------------------------------------------
// Fail points and hook schedules
// ---------------------------------------------------------------------------

pub const FS_STOP: u8 = 1;
pub const FS_AUXV: u8 = 2;
pub const FS_THREAD_NAME: u8 = 4;
pub const FS_SUSPEND: u8 = 8;
pub const FS_CPUINFO: u8 = 16;

/// Runs `f` with the given subset of the five fail points enabled.
pub fn with_failspots<R>(mask: u8, f: impl FnOnce() -> R) -> R {
    use minidump_writer::FailSpotName as F;
    let mut client = F::testing_client();
    for (bit, name) in [(FS_STOP, F::StopProcess), (FS_AUXV, F::FillMissingAuxvInfo), (FS_THREAD_NAME, F::ThreadName), (FS_SUSPEND, F::SuspendThreads), (FS_CPUINFO, F::CpuInfoFileOpen)] {
        client.set_enabled(name, mask & bit != 0);
    }
    let r = f();
    drop(client);
    r
}

/// Installs a hook callback for the duration of `f`.
pub fn with_hook<R>(cb: Box<dyn Fn(minidump_writer::verif_hooks::Point) + Send + Sync>, f: impl FnOnce() -> R) -> R {
    minidump_writer::verif_hooks::set(Some(cb));
    struct Reset;
    impl Drop for Reset {
        fn drop(&mut self) {
            minidump_writer::verif_hooks::set(None);
        }
    }
    let _r = Reset;
    f()
}

/// Cue an exiter thread (by pipe fd number in the target) and wait until its
/// task directory is gone.  Callable from a hook (no Target borrow needed).
pub fn cue_and_wait(pid: i32, tid: i32, wfd: i32) -> bool {
    use std::io::Write;
    if let Ok(mut f) = std::fs::OpenOptions::new().write(true).open(format!("/proc/{pid}/task/{tid}/fd/{wfd}")) {
        let _ = f.write_all(&[1]);
    }
    let deadline = std::time::Instant::now() + std::time::Duration::from_millis(1000);
    let p = format!("/proc/{pid}/task/{tid}");
    while std::path::Path::new(&p).exists() {
        if std::time::Instant::now() > deadline {
            return false;
        }
        std::thread::sleep(std::time::Duration::from_micros(200));
    }
    true
}

/// The kernel's comm for a thread, trailing newline removed.
pub fn comm_of(pid: i32, tid: i32) -> Option<Vec<u8>> {
    let mut b = std::fs::read(format!("/proc/{pid}/task/{tid}/comm")).ok()?;
    if b.last() == Some(&b'\n') {
        b.pop();
    }
    Some(b)
}

/// The name the writer is expected to record for a comm (None = unnamed).
pub fn expected_name(comm: &[u8]) -> Option<String> {
    String::from_utf8(comm.to_vec()).ok().map(|s| s.trim_end().to_string())
}
