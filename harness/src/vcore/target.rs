//! Driver for the specification-driven C target program (`target_prog/tgt.c`).

use serde::{Deserialize, Serialize};
use std::collections::BTreeMap;
use std::io::{BufRead, BufReader, Read, Write};
use std::os::unix::ffi::OsStrExt;
use std::os::unix::fs::FileExt;
use std::path::{Path, PathBuf};
use std::process::{Child, ChildStdin, ChildStdout, Command, Stdio};
use std::sync::atomic::{AtomicU64, Ordering};
use std::time::{Duration, Instant};

pub fn tgt_bin() -> PathBuf {
    crate::fw::verif_root().join("out/tgt")
}
pub const MAX_THREADS: usize = 80;
pub const NSIG_SLOTS: usize = 8;
pub const SHARED_SIZE: usize = 8 * MAX_THREADS + 2 * 8 * MAX_THREADS * NSIG_SLOTS + 8;

pub const K_PARKED: u8 = 0;
pub const K_SPINNER: u8 = 1;
pub const K_SLEEPER: u8 = 2;
pub const K_NULLSP: u8 = 3;
pub const K_EXITER: u8 = 4;
/// a thread that opens and closes descriptors in a loop
pub const K_FDCHURN: u8 = 5;
/// spins in user space with an arbitrary (spec-given) value in rsp
pub const K_ODDSP: u8 = 6;
/// keeps mapping, touching and unmapping small regions
pub const K_MAPCHURN: u8 = 7;

pub fn pat(a: u64, seed: u64) -> u8 {
    let mut x = (a ^ seed).wrapping_mul(0x9E37_79B9_7F4A_7C15);
    x ^= x >> 29;
    (x >> 56) as u8
}

#[derive(Debug, Clone, PartialEq, Eq, Hash, Serialize, Deserialize)]
pub enum MapKind {
    /// anonymous; filled with `pat(addr, seed)` (seed 0 = left zero) or with `content`
    Anon { seed: u64, content: Option<Vec<u8>> },
    /// file-backed mapping of `path` at `off_pages`
    File { path: Vec<u8>, off_pages: u64, shared: bool },
}

#[derive(Debug, Clone, PartialEq, Eq, Hash, Serialize, Deserialize)]
pub struct TMap {
    pub id: u32,
    pub addr: u64,
    pub pages: u64,
    /// final protection: 1 r, 2 w, 4 x
    pub prot: u8,
    pub kind: MapKind,
}

#[derive(Debug, Clone, PartialEq, Eq, Hash, Serialize, Deserialize)]
pub struct TThread {
    pub id: u32,
    pub kind: u8,
    /// None: PR_SET_NAME not called (inherits the program's comm)
    pub name: Option<Vec<u8>>,
    pub sp: u64,
    pub aux: u64,
    pub code: u64,
    /// rax rcx rdx rbx rsp(ignored) rbp rsi rdi r8..r15
    pub regs: Vec<u64>,
    pub fx: Option<Vec<u8>>,
}

#[derive(Debug, Clone, PartialEq, Eq, Hash, Serialize, Deserialize)]
pub enum TFd {
    File(Vec<u8>),
    Deleted(Vec<u8>),
    Pipe,
    Socket,
    EventFd,
    Dir(Vec<u8>),
    DevNull,
}

#[derive(Debug, Clone, Default, PartialEq, Eq, Hash, Serialize, Deserialize)]
pub struct TSpec {
    /// files the harness writes before the target starts: (path, bytes)
    pub files: Vec<(Vec<u8>, Vec<u8>)>,
    pub maps: Vec<TMap>,
    pub pokes: Vec<(u64, u64)>,
    pub pokebytes: Vec<(u64, Vec<u8>)>,
    pub copycode: Vec<u64>,
    pub unlinks: Vec<Vec<u8>>,
    pub threads: Vec<TThread>,
    pub fds: Vec<TFd>,
    pub rlimits: Vec<(i32, u64, u64)>,
    pub main_name: Option<Vec<u8>>,
    pub argv: Vec<Vec<u8>>,
    pub env: Vec<(Vec<u8>, Vec<u8>)>,
    /// private tmpfs root: (files to create inside: (path, size, seed, prefix bytes))
    pub pivot: Option<Vec<(Vec<u8>, u64, u64, Vec<u8>)>>,
    /// the main thread exits after setup (zombie thread-group leader); no commands afterwards
    #[serde(default)]
    pub leader_exit: bool,
    /// soft stack limit (MiB) in force when the target is executed: the kernel allows a quarter of it
    /// (at most 6 MiB) for argv + environment
    #[serde(default)]
    pub exec_stack_mb: Option<u32>,
    /// (address, count): 2*count pages of which every other one is read-only, i.e. 2*count lines in
    /// the memory map
    #[serde(default)]
    pub stripes: Option<(u64, u32)>,
}

fn hex(b: &[u8]) -> String {
    if b.is_empty() {
        return "-".into();
    }
    b.iter().map(|x| format!("{x:02x}")).collect()
}

static COUNTER: AtomicU64 = AtomicU64::new(0);

pub struct Target {
    pub pid: i32,
    child: Child,
    stdin: Option<ChildStdin>,
    stdout: BufReader<ChildStdout>,
    pub tids: BTreeMap<u32, i32>,
    pub pipes: BTreeMap<u32, (i32, i32)>,
    pub maps: BTreeMap<u32, (u64, u64)>,
    pub syms: BTreeMap<String, u64>,
    pub fds: Vec<i32>,
    /// the target's own walk of its linker list: (l_addr, l_ld, name)
    pub dsos: Vec<(u64, u64, Vec<u8>)>,
    /// r_version, r_brk, r_ldbase, &_DYNAMIC
    pub rdebug: Option<(u32, u64, u64, u64)>,
    pub scratch: PathBuf,
    shared: *mut u8,
    mem: Option<std::fs::File>,
}

impl Target {
    pub fn scratch_root() -> PathBuf {
        crate::fw::verif_root().join("out/scratch")
    }

    /// Creates a fresh scratch directory for one target.
    pub fn new_scratch() -> PathBuf {
        let n = COUNTER.fetch_add(1, Ordering::SeqCst);
        let d = Self::scratch_root().join(format!("{}-{}", std::process::id(), n));
        let _ = std::fs::create_dir_all(&d);
        d
    }

    pub fn spawn(spec: &TSpec, scratch: PathBuf) -> Result<Target, String> {
        let e = |w: &str, e: std::io::Error| format!("{w}: {e}");
        for (p, b) in &spec.files {
            let path = Path::new(std::ffi::OsStr::from_bytes(p));
            if let Some(parent) = path.parent() {
                let _ = std::fs::create_dir_all(parent);
            }
            std::fs::write(path, b).map_err(|x| e("write file", x))?;
        }
        let shared_path = scratch.join("shared");
        std::fs::write(&shared_path, vec![0u8; SHARED_SIZE]).map_err(|x| e("shared", x))?;
        let mut s = String::new();
        s.push_str(&format!("shared {}\n", shared_path.display()));
        if let Some(files) = &spec.pivot {
            let root = scratch.join("root");
            let _ = std::fs::create_dir_all(&root);
            s.push_str(&format!("pivot {}\n", root.display()));
            // inside the tmpfs (cwd): create directories and files with relative paths
            for (p, size, seed, prefix) in files {
                let rel: Vec<u8> = p.iter().skip_while(|c| **c == b'/').cloned().collect();
                let mut dir = vec![];
                for (i, c) in rel.iter().enumerate() {
                    if *c == b'/' {
                        dir = rel[..i].to_vec();
                        s.push_str(&format!("mkdir {}\n", String::from_utf8_lossy(&dir)));
                    }
                }
                let _ = dir;
                s.push_str(&format!("writefile {} {} {} {}\n", hex(&rel), size, seed, hex(prefix)));
            }
            s.push_str("pivot2\n");
        }
        for m in &spec.maps {
            match &m.kind {
                MapKind::Anon { seed, content } => {
                    let cpath = if let Some(c) = content {
                        let p = scratch.join(format!("content-{}", m.id));
                        std::fs::write(&p, c).map_err(|x| e("content", x))?;
                        hex(p.as_os_str().as_bytes())
                    } else {
                        "-".into()
                    };
                    s.push_str(&format!("map {} {:x} {} {} anon - 0 0 {} {}\n", m.id, m.addr, m.pages, m.prot, seed, cpath));
                }
                MapKind::File { path, off_pages, shared } => {
                    s.push_str(&format!("map {} {:x} {} {} file {} {} {} 0 -\n", m.id, m.addr, m.pages, m.prot, hex(path), off_pages, *shared as u8));
                }
            }
        }
        if let Some((a, n)) = spec.stripes {
            s.push_str(&format!("stripes {a:x} {n}\n"));
        }
        for a in &spec.copycode {
            s.push_str(&format!("copycode {a:x}\n"));
        }
        for (a, v) in &spec.pokes {
            s.push_str(&format!("poke {a:x} {v:x}\n"));
        }
        for (a, b) in &spec.pokebytes {
            for (i, chunk) in b.chunks(16000).enumerate() {
                s.push_str(&format!("pokebytes {:x} {}\n", a + (i * 16000) as u64, hex(chunk)));
            }
        }
        for m in &spec.maps {
            if let MapKind::Anon { .. } = m.kind {
                if m.prot != 3 && m.addr != 0 {
                    s.push_str(&format!("protect {:x} {} {}\n", m.addr, m.pages, m.prot));
                }
            }
        }
        for u in &spec.unlinks {
            s.push_str(&format!("unlink {}\n", hex(u)));
        }
        for f in &spec.fds {
            match f {
                TFd::File(p) => s.push_str(&format!("fd file {}\n", hex(p))),
                TFd::Deleted(p) => s.push_str(&format!("fd deleted {}\n", hex(p))),
                TFd::Pipe => s.push_str("fd pipe -\n"),
                TFd::Socket => s.push_str("fd socket -\n"),
                TFd::EventFd => s.push_str("fd eventfd -\n"),
                TFd::Dir(p) => s.push_str(&format!("fd dir {}\n", hex(p))),
                TFd::DevNull => s.push_str("fd devnull -\n"),
            }
        }
        for (r, so, ha) in &spec.rlimits {
            s.push_str(&format!("rlimit {r} {so} {ha}\n"));
        }
        if let Some(n) = &spec.main_name {
            s.push_str(&format!("mainname {}\n", hex(n)));
        }
        for t in &spec.threads {
            let name = match &t.name {
                None => "-".to_string(),
                Some(n) if n.is_empty() => "=".to_string(),
                Some(n) => hex(n),
            };
            let regs: Vec<String> = (0..16).map(|i| format!("{:x}", t.regs.get(i).copied().unwrap_or(0))).collect();
            let fx = t.fx.as_ref().map(|f| hex(f)).unwrap_or_else(|| "-".into());
            s.push_str(&format!("thread {} {} {} {:x} {:x} {:x} {} {}\n", t.id, t.kind, name, t.sp, t.aux, t.code, regs.join(" "), fx));
        }
        if spec.leader_exit {
            s.push_str("leaderexit\n");
        }
        s.push_str("end\n");
        let spec_path = scratch.join("spec");
        std::fs::write(&spec_path, &s).map_err(|x| e("spec", x))?;
        let mut cmd = Command::new(tgt_bin());
        cmd.arg(&spec_path);
        for a in &spec.argv {
            cmd.arg(std::ffi::OsStr::from_bytes(a));
        }
        cmd.env_clear();
        for (k, v) in &spec.env {
            cmd.env(std::ffi::OsStr::from_bytes(k), std::ffi::OsStr::from_bytes(v));
        }
        cmd.stdin(Stdio::piped()).stdout(Stdio::piped()).stderr(Stdio::null());
        if let Some(mb) = spec.exec_stack_mb {
            use std::os::unix::process::CommandExt;
            let cur = (mb as u64) << 20;
            unsafe {
                cmd.pre_exec(move || {
                    let mut rl = libc::rlimit { rlim_cur: 0, rlim_max: 0 };
                    libc::getrlimit(libc::RLIMIT_STACK, &mut rl);
                    rl.rlim_cur = cur.min(rl.rlim_max);
                    libc::setrlimit(libc::RLIMIT_STACK, &rl);
                    Ok(())
                });
            }
        }
        let mut child = cmd.spawn().map_err(|x| e("spawn tgt", x))?;
        let pid = child.id() as i32;
        super::helpers::register_child(pid);
        let stdin = child.stdin.take();
        let stdout = BufReader::new(child.stdout.take().unwrap());
        let mut t = Target {
            pid,
            child,
            stdin,
            stdout,
            tids: BTreeMap::new(),
            pipes: BTreeMap::new(),
            maps: BTreeMap::new(),
            syms: BTreeMap::new(),
            fds: vec![],
            dsos: vec![],
            rdebug: None,
            scratch,
            shared: std::ptr::null_mut(),
            mem: None,
        };
        // parse the report
        loop {
            let mut line = String::new();
            let n = t.stdout.read_line(&mut line).map_err(|x| e("report", x))?;
            if n == 0 {
                return Err("target exited before ready".into());
            }
            let w: Vec<&str> = line.split_whitespace().collect();
            match w.first().copied() {
                Some("ready") => break,
                Some("fail") => return Err(format!("target setup failed: {}", line.trim())),
                Some("thread") => {
                    let id: u32 = w[1].parse().unwrap();
                    t.tids.insert(id, w[2].parse().unwrap());
                    t.pipes.insert(id, (w[3].parse().unwrap(), w[4].parse().unwrap()));
                }
                Some("map") => {
                    t.maps.insert(w[1].parse().unwrap(), (u64::from_str_radix(w[2], 16).unwrap(), u64::from_str_radix(w[3], 16).unwrap()));
                }
                Some("sym") => {
                    t.syms.insert(w[1].to_string(), u64::from_str_radix(w[2], 16).unwrap());
                }
                Some("fd") => t.fds.push(w[1].parse().unwrap()),
                Some("rdebug") => {
                    t.rdebug = Some((w[1].parse::<i32>().unwrap_or(0) as u32, u64::from_str_radix(w[2], 16).unwrap(), u64::from_str_radix(w[3], 16).unwrap(), u64::from_str_radix(w[4], 16).unwrap()));
                }
                Some("dso") => {
                    let name: Vec<u8> = if w[3] == "-" { vec![] } else { (0..w[3].len() / 2).map(|i| u8::from_str_radix(&w[3][2 * i..2 * i + 2], 16).unwrap_or(b'?')).collect() };
                    t.dsos.push((u64::from_str_radix(w[1], 16).unwrap(), u64::from_str_radix(w[2], 16).unwrap(), name));
                }
                _ => {}
            }
        }
        // shared page
        unsafe {
            let f = std::fs::OpenOptions::new().read(true).write(true).open(&shared_path).map_err(|x| e("open shared", x))?;
            use std::os::fd::AsRawFd;
            let p = libc::mmap(std::ptr::null_mut(), SHARED_SIZE, libc::PROT_READ | libc::PROT_WRITE, libc::MAP_SHARED, f.as_raw_fd(), 0);
            if p == libc::MAP_FAILED {
                return Err("mmap shared".into());
            }
            t.shared = p as *mut u8;
        }
        t.mem = std::fs::File::open(format!("/proc/{pid}/mem")).ok();
        Ok(t)
    }

    pub fn tid(&self, id: u32) -> i32 {
        self.tids.get(&id).copied().unwrap_or(-1)
    }

    fn shared_u64(&self, off: usize) -> u64 {
        unsafe { std::ptr::read_volatile(self.shared.add(off) as *const u64) }
    }
    pub fn heartbeat(&self, id: u32) -> u64 {
        self.shared_u64(8 * id as usize)
    }
    pub fn sigcount(&self, id: u32, slot: usize) -> u64 {
        self.shared_u64(8 * MAX_THREADS + 8 * (id as usize * NSIG_SLOTS + slot))
    }
    pub fn sigpayload(&self, id: u32, slot: usize) -> u64 {
        self.shared_u64(8 * MAX_THREADS + 8 * MAX_THREADS * NSIG_SLOTS + 8 * (id as usize * NSIG_SLOTS + slot))
    }
    pub fn wrong_thread(&self) -> u64 {
        self.shared_u64(8 * MAX_THREADS + 2 * 8 * MAX_THREADS * NSIG_SLOTS)
    }

    /// Reads target memory through /proc/pid/mem (checker side ground truth).
    pub fn read_mem(&self, addr: u64, len: usize) -> Option<Vec<u8>> {
        fn read_from(f: &std::fs::File, addr: u64, len: usize) -> Option<Vec<u8>> {
            let mut v = vec![0u8; len];
            let mut got = 0;
            while got < len {
                match f.read_at(&mut v[got..], addr + got as u64) {
                    Ok(0) => return None,
                    Ok(n) => got += n,
                    Err(_) => return None,
                }
            }
            Some(v)
        }
        if let Some(v) = self.mem.as_ref().and_then(|f| read_from(f, addr, len)) {
            return Some(v);
        }
        // a zombie thread-group leader has no address space any more: go through a live thread
        for tid in self.tids.values() {
            if let Ok(f) = std::fs::File::open(format!("/proc/{tid}/mem")) {
                if let Some(v) = read_from(&f, addr, len) {
                    return Some(v);
                }
            }
        }
        None
    }

    pub fn read_u64(&self, addr: u64) -> Option<u64> {
        self.read_mem(addr, 8).map(|b| u64::from_le_bytes(b.try_into().unwrap()))
    }

    /// Sends a command to the target's main thread and waits for "ok".
    pub fn cmd(&mut self, c: &str) -> bool {
        let Some(si) = self.stdin.as_mut() else { return false };
        if si.write_all(format!("{c}\n").as_bytes()).is_err() || si.flush().is_err() {
            return false;
        }
        let mut line = String::new();
        matches!(self.stdout.read_line(&mut line), Ok(n) if n > 0 && line.trim() == "ok")
    }

    /// Wakes an exiter thread by writing to its pipe through /proc/pid/fd (works
    /// while the main thread is stopped).
    pub fn cue_direct(&self, id: u32) -> bool {
        let Some((_, w)) = self.pipes.get(&id) else { return false };
        match std::fs::OpenOptions::new().write(true).open(format!("/proc/{}/fd/{}", self.pid, w)) {
            Ok(mut f) => f.write_all(&[1]).is_ok(),
            Err(_) => false,
        }
    }

    pub fn thread_alive(&self, tid: i32) -> bool {
        Path::new(&format!("/proc/{}/task/{}", self.pid, tid)).exists()
    }

    /// (State letter, TracerPid) of a thread.
    pub fn thread_status(&self, tid: i32) -> Option<(char, i32)> {
        let s = std::fs::read(format!("/proc/{}/task/{}/status", self.pid, tid)).ok()?;
        let s = String::from_utf8_lossy(&s);
        let mut state = '?';
        let mut tracer = -1;
        for l in s.lines() {
            if let Some(r) = l.strip_prefix("State:") {
                state = r.trim().chars().next().unwrap_or('?');
            } else if let Some(r) = l.strip_prefix("TracerPid:") {
                tracer = r.trim().parse().unwrap_or(-1);
            }
        }
        Some((state, tracer))
    }

    /// Waits until parked threads block in `pause`, spinners spin and nullsp
    /// threads run.  Returns false on timeout.
    pub fn wait_settled(&self, spec: &TSpec) -> bool {
        let deadline = Instant::now() + Duration::from_millis(2000);
        // the main thread must have reached its command loop (blocked in read)
        // "blocked in syscall nr" = sleeping state AND /proc/<tid>/syscall names it (the syscall
        // file alone also shows the number while a restarted call has not been re-entered yet)
        let blocked_in = |tid: i32, nr: &str| -> bool {
            self.thread_status(tid).map(|(st, _)| st == 'S').unwrap_or(false)
                && std::fs::read_to_string(format!("/proc/{}/task/{}/syscall", self.pid, tid)).map(|s| s.starts_with(nr)).unwrap_or(false)
        };
        loop {
            if blocked_in(self.pid, "0 ") {
                break;
            }
            if spec.leader_exit && self.thread_status(self.pid).map(|(st, _)| st == 'Z').unwrap_or(false) {
                break;
            }
            if Instant::now() > deadline {
                return false;
            }
            std::thread::sleep(Duration::from_micros(300));
        }
        for t in &spec.threads {
            let tid = self.tid(t.id);
            loop {
                let ok = match t.kind {
                    K_PARKED => blocked_in(tid, "34 "),
                    K_SPINNER => self.read_u64(t.aux).map(|v| v > t.regs[12]).unwrap_or(false),
                    K_EXITER => blocked_in(tid, "0 "),
                    K_NULLSP | K_ODDSP => std::fs::read_to_string(format!("/proc/{}/task/{}/syscall", self.pid, tid)).map(|s| s.starts_with("running")).unwrap_or(false),
                    _ => true,
                };
                if ok {
                    break;
                }
                if Instant::now() > deadline {
                    return false;
                }
                std::thread::sleep(Duration::from_micros(300));
            }
        }
        true
    }

    pub fn maps_text(&self) -> Option<Vec<u8>> {
        std::fs::read(format!("/proc/{}/maps", self.pid)).ok()
    }
}

impl Drop for Target {
    fn drop(&mut self) {
        unsafe {
            libc::kill(self.pid, libc::SIGKILL);
        }
        // If a (broken) dumper left threads ptrace-attached to us, their zombies must be
        // reaped by the tracer one by one before the group leader can be reaped.
        let deadline = Instant::now() + Duration::from_millis(3000);
        loop {
            let mut st = 0;
            if let Ok(rd) = std::fs::read_dir(format!("/proc/{}/task", self.pid)) {
                for e in rd.filter_map(|e| e.ok()) {
                    if let Some(tid) = e.file_name().to_str().and_then(|s| s.parse::<i32>().ok()) {
                        if tid != self.pid {
                            unsafe { libc::waitpid(tid, &mut st, libc::__WALL | libc::WNOHANG) };
                        }
                    }
                }
            }
            let r = unsafe { libc::waitpid(self.pid, &mut st, libc::__WALL | libc::WNOHANG) };
            if r == self.pid || r < 0 || Instant::now() > deadline {
                break;
            }
            std::thread::sleep(Duration::from_micros(200));
        }
        let _ = self.child.try_wait();
        super::helpers::unregister_child(self.pid);
        if !self.shared.is_null() {
            unsafe {
                libc::munmap(self.shared as *mut libc::c_void, SHARED_SIZE);
            }
        }
        let _ = std::fs::remove_dir_all(&self.scratch);
    }
}

/// Reads remaining bytes of a reader with a cap (helper for tests).
#[allow(dead_code)]
pub fn read_all_capped(mut r: impl Read, cap: usize) -> Vec<u8> {
    let mut v = vec![];
    let mut buf = [0u8; 4096];
    while v.len() < cap {
        match r.read(&mut buf) {
            Ok(0) | Err(_) => break,
            Ok(n) => v.extend_from_slice(&buf[..n]),
        }
    }
    v
}
