//! Normal form of a decoded minidump for equivalence comparison (C19, C11):
//! everything the dump records about the target, excluding the time stamp,
//! file offsets and the volatile raw /proc texts.

use super::md::{self, Decoded};
use std::collections::BTreeMap;

#[derive(Debug, Clone, PartialEq, Eq, Default)]
pub struct Normal {
    pub threads: BTreeMap<u32, (u64, Vec<u8>, Vec<u8>)>, // tid -> (stack start, stack bytes, context bytes)
    pub memory: Vec<(u64, Vec<u8>)>,
    pub modules: Vec<(u64, u32, Option<String>, Option<Vec<u8>>, [u32; 13])>,
    pub exception: Option<(u32, u32, u32, u64, Vec<u8>, bool)>,
    pub thread_names: Vec<(u32, Option<String>)>,
    pub meminfo: Vec<(u64, u64, u32, u32)>,
    pub handles: Vec<(u64, Option<String>, u32)>,
    pub sysinfo: Option<(u16, u16, u16, u8, u32, Option<String>, [u8; 24])>,
    pub dso: Option<(u32, u32, u64, u64, u64, Vec<(u64, Option<String>, u64)>, Vec<u8>)>,
    pub raw: BTreeMap<u32, Vec<u8>>,
    pub soft_errors: String,
    pub unused_entries: usize,
}

fn bytes(img: &[u8], l: md::Loc) -> Vec<u8> {
    let s = l.rva as usize;
    let e = s + l.size as usize;
    if e <= img.len() {
        img[s..e].to_vec()
    } else {
        vec![]
    }
}

pub fn normal_form(img: &[u8], d: &Decoded) -> Normal {
    let mut n = Normal::default();
    for t in d.threads.clone().unwrap_or_default() {
        n.threads.insert(t.tid, (t.stack_start, bytes(img, t.stack), bytes(img, t.ctx)));
    }
    let mut mem: Vec<(u64, Vec<u8>)> = d.memory.clone().unwrap_or_default().iter().map(|m| (m.start, bytes(img, m.loc))).collect();
    mem.sort();
    n.memory = mem;
    n.modules = d.modules.clone().unwrap_or_default().iter().map(|m| (m.base, m.size, m.name.clone(), m.cv_bytes.clone(), m.version)).collect();
    if let Some(e) = &d.exception {
        // whether the exception context is the blamed thread's context (same location)
        let shared = d.threads.as_ref().map(|t| t.iter().any(|t| t.tid == e.tid && t.ctx == e.ctx)).unwrap_or(false);
        n.exception = Some((e.tid, e.code, e.flags, e.address, bytes(img, e.ctx), shared));
    }
    let mut names: Vec<(u32, Option<String>)> = d.thread_names.clone().unwrap_or_default().iter().map(|(t, _, s)| (*t, s.clone())).collect();
    names.sort();
    n.thread_names = names;
    n.meminfo = d.meminfo.clone().unwrap_or_default().iter().map(|m| (m.base, m.region_size, m.protection, m.ty)).collect();
    let mut hs: Vec<(u64, Option<String>, u32)> = d.handles.clone().unwrap_or_default().iter().map(|h| (h.handle, h.object_name.clone(), h.attributes)).collect();
    hs.sort();
    n.handles = hs;
    n.sysinfo = d.sysinfo.as_ref().map(|s| (s.arch, s.level, s.revision, s.nproc, s.platform_id, s.csd.clone(), s.cpu));
    n.dso = d.dso.as_ref().map(|s| (s.version, s.count, s.brk, s.ldbase, s.dynamic, s.links.clone(), s.dynamic_bytes.clone()));
    for (ty, l) in &d.raw {
        // /proc/<tid>/status (context-switch counters) and /proc/cpuinfo (MHz) change by themselves
        if *ty == md::ST_LINUX_PROC_STATUS || *ty == md::ST_LINUX_CPU_INFO {
            continue;
        }
        if *ty == md::ST_MOZ_SOFT_ERRORS {
            n.soft_errors = String::from_utf8_lossy(&bytes(img, *l)).into_owned();
            continue;
        }
        n.raw.insert(*ty, bytes(img, *l));
    }
    n.unused_entries = d.dirs.iter().filter(|e| e.stream_type == 0).count();
    n
}

/// First difference between two normal forms, as (component, detail).
pub fn first_difference(a: &Normal, b: &Normal) -> Option<(String, String)> {
    if a.threads.keys().collect::<Vec<_>>() != b.threads.keys().collect::<Vec<_>>() {
        return Some(("thread-ids".into(), format!("{:?} vs {:?}", a.threads.keys().collect::<Vec<_>>(), b.threads.keys().collect::<Vec<_>>())));
    }
    for (tid, (s, st, cx)) in &a.threads {
        let (s2, st2, cx2) = &b.threads[tid];
        if s != s2 || st.len() != st2.len() {
            return Some(("thread-stack-extent".into(), format!("thread {tid}: ({s:#x},+{:#x}) vs ({s2:#x},+{:#x})", st.len(), st2.len())));
        }
        if cx != cx2 {
            let field = match (md::parse_ctx(cx), md::parse_ctx(cx2)) {
                (Some(a), Some(b)) => {
                    if let Some(i) = (0..16).find(|i| a.gpr[*i] != b.gpr[*i]) {
                        format!("{} {:#x} vs {:#x}", md::GPR_NAMES[i], a.gpr[i], b.gpr[i])
                    } else if a.rip != b.rip {
                        format!("rip {:#x} vs {:#x}", a.rip, b.rip)
                    } else if a.eflags != b.eflags {
                        format!("eflags {:#x} vs {:#x}", a.eflags, b.eflags)
                    } else if a.float_save != b.float_save {
                        let i = (0..512).find(|i| a.float_save[*i] != b.float_save[*i]).unwrap();
                        format!("float_save byte {i}")
                    } else {
                        "other field".to_string()
                    }
                }
                _ => "undecodable".to_string(),
            };
            return Some(("thread-context".into(), format!("thread {tid}: {field}")));
        }
        if st != st2 {
            return Some(("thread-stack-bytes".into(), format!("thread {tid}")));
        }
    }
    let ext = |m: &Vec<(u64, Vec<u8>)>| m.iter().map(|(a, b)| (*a, b.len())).collect::<Vec<_>>();
    if ext(&a.memory) != ext(&b.memory) {
        return Some(("memory-list-regions".into(), format!("{:x?} vs {:x?}", ext(&a.memory), ext(&b.memory))));
    }
    if a.memory != b.memory {
        return Some(("memory-list-bytes".into(), String::new()));
    }
    if a.modules != b.modules {
        return Some(("module-list".into(), format!("{} vs {} modules", a.modules.len(), b.modules.len())));
    }
    if a.exception != b.exception {
        let f = |e: &Option<(u32, u32, u32, u64, Vec<u8>, bool)>| e.as_ref().map(|e| (e.0, e.1, e.2, e.3, e.4.len(), e.5));
        return Some(("exception".into(), format!("{:x?} vs {:x?}", f(&a.exception), f(&b.exception))));
    }
    if a.thread_names != b.thread_names {
        return Some(("thread-names".into(), format!("{:?} vs {:?}", a.thread_names, b.thread_names)));
    }
    if a.meminfo != b.meminfo {
        return Some(("memory-info".into(), String::new()));
    }
    if a.handles != b.handles {
        return Some(("handles".into(), String::new()));
    }
    if a.sysinfo != b.sysinfo {
        return Some(("system-info".into(), String::new()));
    }
    if a.dso != b.dso {
        return Some(("dso-debug".into(), String::new()));
    }
    if a.raw != b.raw {
        let k = a.raw.keys().chain(b.raw.keys()).find(|k| a.raw.get(k) != b.raw.get(k)).unwrap();
        return Some((format!("raw-stream-{k:#x}"), String::new()));
    }
    if a.soft_errors != b.soft_errors {
        return Some(("soft-errors".into(), format!("{} vs {}", a.soft_errors, b.soft_errors)));
    }
    if a.unused_entries != b.unused_entries {
        return Some(("unused-entries".into(), String::new()));
    }
    None
}
