//! Independent register -> minidump context tables (x86_64), written from the
//! kernel/glibc ABI and the minidump CONTEXT_AMD64 definition.

use super::md::{Ctx, FloatSave};

// glibc <sys/ucontext.h> greg indices on x86_64
pub const REG_R8: usize = 0;
pub const REG_R9: usize = 1;
pub const REG_R10: usize = 2;
pub const REG_R11: usize = 3;
pub const REG_R12: usize = 4;
pub const REG_R13: usize = 5;
pub const REG_R14: usize = 6;
pub const REG_R15: usize = 7;
pub const REG_RDI: usize = 8;
pub const REG_RSI: usize = 9;
pub const REG_RBP: usize = 10;
pub const REG_RBX: usize = 11;
pub const REG_RDX: usize = 12;
pub const REG_RAX: usize = 13;
pub const REG_RCX: usize = 14;
pub const REG_RSP: usize = 15;
pub const REG_RIP: usize = 16;
pub const REG_EFL: usize = 17;
pub const REG_CSGSFS: usize = 18;

pub const CONTEXT_AMD64: u32 = 0x0010_0000;
pub const CTX_CONTROL: u32 = CONTEXT_AMD64 | 1;
pub const CTX_INTEGER: u32 = CONTEXT_AMD64 | 2;
pub const CTX_SEGMENTS: u32 = CONTEXT_AMD64 | 4;
pub const CTX_FLOAT: u32 = CONTEXT_AMD64 | 8;

/// Plain mirror of the FXSAVE-style float state both sources provide.
#[derive(Debug, Clone, Default, PartialEq, Eq, serde::Serialize, serde::Deserialize, Hash)]
pub struct FpState {
    pub cwd: u16,
    pub swd: u16,
    pub ftw: u16,
    pub fop: u16,
    pub rip: u64,
    pub rdp: u64,
    pub mxcsr: u32,
    pub mxcr_mask: u32,
    pub st_space: Vec<u32>,  // 32
    pub xmm_space: Vec<u32>, // 64
}

/// gpr order of md::Ctx: rax rcx rdx rbx rsp rbp rsi rdi r8..r15
#[derive(Debug, Clone, Default, PartialEq, Eq, serde::Serialize, serde::Deserialize, Hash)]
pub struct Gprs {
    pub rax: u64,
    pub rcx: u64,
    pub rdx: u64,
    pub rbx: u64,
    pub rsp: u64,
    pub rbp: u64,
    pub rsi: u64,
    pub rdi: u64,
    pub r8: u64,
    pub r9: u64,
    pub r10: u64,
    pub r11: u64,
    pub r12: u64,
    pub r13: u64,
    pub r14: u64,
    pub r15: u64,
    pub rip: u64,
    pub eflags: u64,
}

impl Gprs {
    pub fn as_array(&self) -> [u64; 16] {
        [
            self.rax, self.rcx, self.rdx, self.rbx, self.rsp, self.rbp, self.rsi, self.rdi, self.r8, self.r9, self.r10,
            self.r11, self.r12, self.r13, self.r14, self.r15,
        ]
    }
}

/// Compares the float area of a decoded context with the source state.
/// Returns the name of the first differing field.
pub fn float_mismatch(ctx: &Ctx, fp: &FpState) -> Option<String> {
    let f = FloatSave(&ctx.float_save);
    if f.control_word() != fp.cwd {
        return Some("control_word".into());
    }
    if f.status_word() != fp.swd {
        return Some("status_word".into());
    }
    if f.tag_word() != fp.ftw as u8 {
        return Some("tag_word".into());
    }
    if f.error_opcode() != fp.fop {
        return Some("error_opcode".into());
    }
    if f.error_offset() != fp.rip as u32 {
        return Some("error_offset".into());
    }
    if f.data_offset() != fp.rdp as u32 {
        return Some("data_offset".into());
    }
    if f.mx_csr() != fp.mxcsr {
        return Some("mx_csr".into());
    }
    if f.mx_csr_mask() != fp.mxcr_mask {
        return Some("mx_csr_mask".into());
    }
    let st: Vec<u8> = fp.st_space.iter().flat_map(|w| w.to_le_bytes()).collect();
    if let Some(i) = (0..128).find(|i| f.float_registers()[*i] != st[*i]) {
        return Some(format!("st{}", i / 16));
    }
    let xmm: Vec<u8> = fp.xmm_space.iter().flat_map(|w| w.to_le_bytes()).collect();
    if let Some(i) = (0..256).find(|i| f.xmm_registers()[*i] != xmm[*i]) {
        return Some(format!("xmm{}", i / 16));
    }
    None
}

/// Compares GPRs/rip/eflags; returns the first differing register name.
pub fn gpr_mismatch(ctx: &Ctx, g: &Gprs) -> Option<String> {
    let want = g.as_array();
    for i in 0..16 {
        if ctx.gpr[i] != want[i] {
            return Some(super::md::GPR_NAMES[i].to_string());
        }
    }
    if ctx.rip != g.rip {
        return Some("rip".into());
    }
    if ctx.eflags != g.eflags as u32 {
        return Some("eflags".into());
    }
    None
}
