//! Helper processes owned by a lane: an idle child (a live pid for
//! `PtraceDumper::new`) and cleanup at lane end.

use std::sync::Mutex;

static CHILDREN: Mutex<Vec<i32>> = Mutex::new(Vec::new());

pub fn register_child(pid: i32) {
    CHILDREN.lock().unwrap().push(pid);
}

pub fn unregister_child(pid: i32) {
    CHILDREN.lock().unwrap().retain(|p| *p != pid);
}

/// Kills every helper/target process this lane still owns.
pub fn shutdown() {
    super::dumper::drop_dumper();
    super::arena::drop_arena();
    let v: Vec<i32> = std::mem::take(&mut *CHILDREN.lock().unwrap());
    for pid in v {
        unsafe {
            libc::kill(pid, libc::SIGKILL);
            let mut st = 0;
            libc::waitpid(pid, &mut st, 0);
        }
    }
}

pub fn helper_main(args: &[String]) {
    match args.first().map(|s| s.as_str()) {
        Some("idle") => loop {
            // die with the parent
            unsafe {
                libc::prctl(libc::PR_SET_PDEATHSIG, libc::SIGKILL);
            }
            std::thread::sleep(std::time::Duration::from_secs(3600));
        },
        _ => {
            eprintln!("unknown helper");
            std::process::exit(3)
        }
    }
}

/// Spawns an idle child process (exec of ourselves, so it is single-threaded
/// and has a sane address space) and returns its pid.
pub fn spawn_idle() -> i32 {
    let exe = std::env::current_exe().unwrap();
    let child = std::process::Command::new(exe)
        .args(["helper", "idle"])
        .stdin(std::process::Stdio::null())
        .stdout(std::process::Stdio::null())
        .spawn()
        .expect("spawn idle helper");
    let pid = child.id() as i32;
    std::mem::forget(child);
    register_child(pid);
    // wait until it has exec'ed and set pdeathsig (cheap: poll comm)
    for _ in 0..200 {
        if let Ok(s) = std::fs::read_to_string(format!("/proc/{pid}/cmdline")) {
            if s.contains("helper") {
                break;
            }
        }
        std::thread::sleep(std::time::Duration::from_millis(2));
    }
    pid
}
