//! Helper processes owned by a lane: an idle child (a live pid for
//! `PtraceDumper::new`) and cleanup at lane end.

use std::sync::Mutex;

static CHILDREN: Mutex<Vec<i32>> = Mutex::new(Vec::new());

pub fn register_child(pid: i32) {
    CHILDREN.lock().unwrap().push(pid);
}

pub fn unregister_child(pid: i32) {
    CHILDREN.lock().unwrap().retain(|p| *p != pid);
}

/// Kills every helper/target process this lane still owns.
pub fn shutdown() {
    super::dumper::drop_dumper();
    super::arena::drop_arena();
    let v: Vec<i32> = std::mem::take(&mut *CHILDREN.lock().unwrap());
    for pid in v {
        unsafe {
            libc::kill(pid, libc::SIGKILL);
            let mut st = 0;
            libc::waitpid(pid, &mut st, 0);
        }
    }
}

pub fn helper_main(args: &[String]) {
    match args.first().map(|s| s.as_str()) {
        Some("idle") => loop {
            // die with the parent
            unsafe {
                libc::prctl(libc::PR_SET_PDEATHSIG, libc::SIGKILL);
            }
            std::thread::sleep(std::time::Duration::from_secs(3600));
        },
        Some("selfdump") => {
            // helper selfdump <bits>: the process asks for a dump of ITSELF (a sacrificial child of the
            // checker: if the writer stops the process it is asked to dump, this process freezes).
            // bit 0: request made from a second thread; bit 1: blame the calling thread instead of the
            // main thread; bit 2: size limit; bit 3: sanitize; bit 4: stop timeout 0
            unsafe {
                libc::prctl(libc::PR_SET_PDEATHSIG, libc::SIGKILL);
            }
            let bits: u32 = args.get(1).and_then(|s| s.parse().ok()).unwrap_or(0);
            let work = move || {
                let pid = std::process::id() as i32;
                let tid = unsafe { libc::syscall(libc::SYS_gettid) } as i32;
                let mut w = minidump_writer::minidump_writer::MinidumpWriter::new(pid, if bits & 2 != 0 { tid } else { pid });
                if bits & 4 != 0 {
                    w.set_minidump_size_limit(1);
                }
                if bits & 8 != 0 {
                    w.sanitize_stack();
                }
                if bits & 16 != 0 {
                    w.stop_timeout(std::time::Duration::from_millis(0));
                }
                let mut out = std::io::Cursor::new(Vec::new());
                match std::panic::catch_unwind(std::panic::AssertUnwindSafe(|| w.dump(&mut out))) {
                    Ok(Ok(_)) => println!("selfdump: ok"),
                    Ok(Err(e)) => println!("selfdump: err {}", format!("{e:?}").split('(').take(2).collect::<Vec<_>>().join("(")),
                    Err(_) => println!("selfdump: panic"),
                }
            };
            if bits & 1 != 0 {
                let _ = std::thread::spawn(work).join();
            } else {
                work();
            }
        }
        Some("vanishdump") => {
            // helper vanishdump <bits>: this (sacrificial) process dumps a child of its own that is a zombie
            // when the request starts and is reaped - vanishes from /proc - while the request is waiting
            // for it to stop.  bit 0: reap after 30 ms instead of 150 ms; bit 1: stop timeout 2 s instead
            // of 400 ms; bit 2: size limit
            unsafe {
                libc::prctl(libc::PR_SET_PDEATHSIG, libc::SIGKILL);
            }
            let bits: u32 = args.get(1).and_then(|s| s.parse().ok()).unwrap_or(0);
            let mut child = std::process::Command::new("/bin/true").spawn().expect("spawn");
            let pid = child.id() as i32;
            // wait until it is a zombie
            for _ in 0..2000 {
                let st = std::fs::read_to_string(format!("/proc/{pid}/stat")).unwrap_or_default();
                if st.rsplit(')').next().map(|r| r.trim_start().starts_with('Z')).unwrap_or(false) {
                    break;
                }
                std::thread::sleep(std::time::Duration::from_millis(1));
            }
            let done = std::sync::Arc::new(std::sync::atomic::AtomicU8::new(0));
            let d2 = done.clone();
            std::thread::spawn(move || {
                let mut w = minidump_writer::minidump_writer::MinidumpWriter::new(pid, pid);
                w.stop_timeout(std::time::Duration::from_millis(if bits & 2 != 0 { 2000 } else { 400 }));
                if bits & 4 != 0 {
                    w.set_minidump_size_limit(1);
                }
                let mut out = std::io::Cursor::new(Vec::new());
                let r = std::panic::catch_unwind(std::panic::AssertUnwindSafe(|| w.dump(&mut out)));
                d2.store(match r { Ok(Ok(_)) => 1, Ok(Err(_)) => 2, Err(_) => 3 }, std::sync::atomic::Ordering::SeqCst);
            });
            std::thread::sleep(std::time::Duration::from_millis(if bits & 1 != 0 { 30 } else { 150 }));
            let _ = child.wait();
            let t0 = std::time::Instant::now();
            while done.load(std::sync::atomic::Ordering::SeqCst) == 0 && t0.elapsed().as_secs() < 8 {
                std::thread::sleep(std::time::Duration::from_millis(5));
            }
            match done.load(std::sync::atomic::Ordering::SeqCst) {
                0 => println!("vanish: stuck"),
                1 => println!("vanish: returned ok"),
                2 => println!("vanish: returned err"),
                _ => println!("vanish: panic"),
            }
            // do not wait for a stuck thread
            unsafe { libc::_exit(0) };
        }
        Some("fuzz-seeds") => {
            // helper fuzz-seeds <target> <dir>: deterministic seed corpus from the proptest generators
            use proptest::strategy::{Strategy, ValueTree};
            use proptest::test_runner::{Config, RngAlgorithm, TestRng, TestRunner};
            let target = args.get(1).map(|s| s.as_str()).unwrap_or("");
            let dir = std::path::PathBuf::from(args.get(2).map(|s| s.as_str()).unwrap_or("."));
            let _ = std::fs::create_dir_all(&dir);
            let mut runner = TestRunner::new_with_rng(Config::default(), TestRng::from_seed(RngAlgorithm::ChaCha, &[7u8; 32]));
            for i in 0..48 {
                let bytes: Vec<u8> = match target {
                    "elf_ident" => {
                        let spec = crate::props::c14::spec_strategy().new_tree(&mut runner).unwrap().current();
                        crate::vcore::elf::build(&spec).bytes
                    }
                    "maps_text" => {
                        let c = crate::props::c13::case_strategy().new_tree(&mut runner).unwrap().current();
                        crate::props::c13::render(&crate::props::c13::resolve(&c)).into_bytes()
                    }
                    _ => {
                        let c = crate::props::c02::name_case_strategy().new_tree(&mut runner).unwrap().current();
                        let mut v = vec![i as u8];
                        v.extend_from_slice(&c.dir);
                        v.push(b'/');
                        v.extend_from_slice(&c.stem);
                        v.extend_from_slice(b".so");
                        for comp in &c.comps {
                            v.push(b'.');
                            v.extend_from_slice(comp);
                        }
                        v
                    }
                };
                let _ = std::fs::write(dir.join(format!("seed-{i:02}")), bytes);
            }
        }
        _ => {
            eprintln!("unknown helper");
            std::process::exit(3)
        }
    }
}

/// Spawns an idle child process (exec of ourselves, so it is single-threaded
/// and has a sane address space) and returns its pid.
/// The vcheck binary (helper modes live there): ourselves, unless we are a fuzz target binary.
pub fn helper_exe() -> std::path::PathBuf {
    let me = std::env::current_exe().unwrap();
    if me.file_name().and_then(|n| n.to_str()) == Some("vcheck") {
        return me;
    }
    crate::fw::verif_root().join("harness/target/verif/vcheck")
}

pub fn spawn_idle() -> i32 {
    let exe = helper_exe();
    let child = std::process::Command::new(exe)
        .args(["helper", "idle"])
        .stdin(std::process::Stdio::null())
        .stdout(std::process::Stdio::null())
        .spawn()
        .expect("spawn idle helper");
    let pid = child.id() as i32;
    std::mem::forget(child);
    register_child(pid);
    // wait until it has exec'ed and set pdeathsig (cheap: poll comm)
    for _ in 0..200 {
        if let Ok(s) = std::fs::read_to_string(format!("/proc/{pid}/cmdline")) {
            if s.contains("helper") {
                break;
            }
        }
        std::thread::sleep(std::time::Duration::from_millis(2));
    }
    pid
}
