//! ELF kit: a small ELF image builder (64/32 bit, LE/BE), a field map for
//! structure-aware corruption, and an independent straight-line reader for the
//! GNU build id / text hash / DT_SONAME (no goblin).

use serde::{Deserialize, Serialize};

pub const PT_LOAD: u32 = 1;
pub const PT_DYNAMIC: u32 = 2;
pub const PT_NOTE: u32 = 4;
pub const SHT_PROGBITS: u32 = 1;
pub const SHT_STRTAB: u32 = 3;
pub const SHT_DYNAMIC: u32 = 6;
pub const SHT_NOTE: u32 = 7;
pub const SHF_ALLOC: u64 = 2;
pub const SHF_EXECINSTR: u64 = 4;
pub const DT_NULL: u64 = 0;
pub const DT_NEEDED: u64 = 1;
pub const DT_STRTAB: u64 = 5;
pub const DT_STRSZ: u64 = 10;
pub const DT_SONAME: u64 = 14;
pub const NT_GNU_BUILD_ID: u32 = 3;

#[derive(Debug, Clone, PartialEq, Eq, Hash, Serialize, Deserialize)]
pub struct ElfSpec {
    pub class64: bool,
    pub little: bool,
    pub text_len: u16,
    pub text_seed: u64,
    pub build_id: Option<Vec<u8>>,
    /// the build-id note is reachable through a PT_NOTE program header
    pub note_phdr: bool,
    /// ... and/or through a `.note.gnu.build-id` section
    pub note_section: bool,
    /// 4 or 8
    pub note_align: u8,
    /// other notes placed before the build-id note in the same segment
    pub other_notes: u8,
    pub soname: Option<String>,
    pub dyn_phdr: bool,
    pub dyn_section: bool,
    /// order of the three interesting dynamic entries (0..5 = permutation index)
    pub dyn_order: u8,
    /// section header table present
    pub sections: bool,
    pub extra_phdrs: u8,
    /// pad the file to this many pages (>= what is needed)
    pub pages: u8,
    /// 0: one PT_LOAD with vaddr == offset.  k > 0: notes, dynamic section and
    /// string tables live in a second PT_LOAD whose virtual address is its file
    /// offset + k pages (as produced by patchelf / non-trivial linker scripts)
    #[serde(default)]
    pub seg2_delta_pages: u8,
    /// an empty PT_NOTE program header (p_filesz == p_memsz == 0) ahead of the one holding the build id
    #[serde(default)]
    pub empty_note_first: bool,
    /// rotation of the section-name order inside .shstrtab (which name comes last matters)
    #[serde(default)]
    pub shstr_rotation: u8,
    /// decoy section placed BEFORE .text in the section table: 0 none, 1 PROGBITS+ALLOC (like .rodata/.interp),
    /// 2 NOBITS+ALLOC+EXECINSTR, 3 PROGBITS+EXECINSTR without ALLOC, 4 PROGBITS+ALLOC+WRITE
    #[serde(default)]
    pub decoy_before: u8,
    /// a second PROGBITS+ALLOC+EXECINSTR section AFTER .text (the first one must be used)
    #[serde(default)]
    pub decoy_after: bool,
    /// how the .dynamic section designates its string table: 0 sh_link -> .dynstr (normal), 1 sh_link = 0
    /// (found by name only), 2 sh_link -> .shstrtab (a string table, but the wrong one), 3 sh_link correct
    /// but the table is not named ".dynstr" (found through the link only)
    #[serde(default)]
    pub dyn_link: u8,
}

#[derive(Debug, Clone)]
pub struct Field {
    pub name: String,
    pub off: usize,
    pub width: usize,
}

#[derive(Debug, Clone)]
pub struct Built {
    pub bytes: Vec<u8>,
    pub fields: Vec<Field>,
    pub text_off: usize,
    pub text_len: usize,
    /// file offset where the second segment starts (== len when there is none) and its vaddr delta
    pub seg2_off: usize,
    pub delta: usize,
}

impl Built {
    /// The image as the loader would place it in memory (relative to the load base).
    pub fn memory_image(&self) -> Vec<u8> {
        if self.delta == 0 {
            return self.bytes.clone();
        }
        let mut m = vec![0u8; self.bytes.len() + self.delta];
        m[..self.seg2_off].copy_from_slice(&self.bytes[..self.seg2_off]);
        m[self.seg2_off + self.delta..].copy_from_slice(&self.bytes[self.seg2_off..]);
        m
    }
}

struct W<'a> {
    b: &'a mut Vec<u8>,
    little: bool,
    fields: &'a mut Vec<Field>,
}

impl W<'_> {
    fn put(&mut self, name: &str, v: u64, width: usize) {
        let off = self.b.len();
        let bytes = if self.little { v.to_le_bytes()[..width].to_vec() } else { v.to_be_bytes()[8 - width..].to_vec() };
        self.b.extend_from_slice(&bytes);
        self.fields.push(Field { name: name.to_string(), off, width });
    }
    fn pad_to(&mut self, align: usize) {
        while self.b.len() % align != 0 {
            self.b.push(0);
        }
    }
}

fn patch(b: &mut [u8], off: usize, v: u64, width: usize, little: bool) {
    let bytes = if little { v.to_le_bytes()[..width].to_vec() } else { v.to_be_bytes()[8 - width..].to_vec() };
    b[off..off + width].copy_from_slice(&bytes);
}

pub fn text_bytes(seed: u64, len: usize) -> Vec<u8> {
    let mut s = seed;
    (0..len)
        .map(|_| {
            s = s.wrapping_mul(6364136223846793005).wrapping_add(1442695040888963407);
            (s >> 33) as u8
        })
        .collect()
}

pub fn build(spec: &ElfSpec) -> Built {
    let c64 = spec.class64;
    let little = spec.little;
    let aw = if c64 { 8 } else { 4 }; // address width
    let ehsize = if c64 { 64 } else { 52 };
    let phentsize = if c64 { 56 } else { 32 };
    let shentsize = if c64 { 64 } else { 40 };
    let mut fields = vec![];
    let mut b: Vec<u8> = vec![];

    // which program headers
    let has_note = spec.build_id.is_some();
    let mut ph_kinds: Vec<&str> = vec!["load"];
    for _ in 0..spec.extra_phdrs % 4 {
        ph_kinds.push("other");
    }
    if spec.seg2_delta_pages % 8 > 0 {
        ph_kinds.push("load2");
    }
    if has_note && spec.note_phdr {
        if spec.empty_note_first {
            ph_kinds.push("emptynote");
        }
        ph_kinds.push("note");
    }
    if spec.soname.is_some() && spec.dyn_phdr {
        ph_kinds.push("dynamic");
    }
    let phnum = ph_kinds.len();

    // layout
    let phoff = ehsize;
    let text_off = phoff + phnum * phentsize;
    let text_len = (spec.text_len as usize % 6000).max(1);
    let align_up = |x: usize, a: usize| (x + a - 1) / a * a;
    let note_align = if spec.note_align == 8 { 8 } else { 4 };
    let delta = (spec.seg2_delta_pages as usize % 8) * 4096;
    let note_off = if delta > 0 { align_up(text_off + text_len, 4096) } else { align_up(text_off + text_len, 8) };
    let seg2_off = note_off;
    let va = |off: usize| if delta > 0 && off >= seg2_off { off + delta } else { off };
    // notes
    let mut notes: Vec<u8> = vec![];
    let mut put_note = |notes: &mut Vec<u8>, name: &[u8], ty: u32, desc: &[u8]| {
        let p = |v: u32| if little { v.to_le_bytes() } else { v.to_be_bytes() };
        notes.extend_from_slice(&p(name.len() as u32));
        notes.extend_from_slice(&p(desc.len() as u32));
        notes.extend_from_slice(&p(ty));
        notes.extend_from_slice(name);
        while notes.len() % note_align != 0 {
            notes.push(0);
        }
        notes.extend_from_slice(desc);
        while notes.len() % note_align != 0 {
            notes.push(0);
        }
    };
    let mut buildid_note_field_off = 0usize;
    if let Some(id) = &spec.build_id {
        for k in 0..spec.other_notes % 3 {
            if k == 0 {
                put_note(&mut notes, b"GNU\0", 1, &[0, 0, 0, 0, 3, 0, 0, 0, 2, 0, 0, 0, 0, 0, 0, 0]);
            } else {
                put_note(&mut notes, b"XYZ\0", 3, &[0xaa; 20]);
            }
        }
        buildid_note_field_off = note_off + notes.len();
        put_note(&mut notes, b"GNU\0", NT_GNU_BUILD_ID, id);
    }
    let dyn_off = align_up(note_off + notes.len(), 8);
    let dyn_ent = 2 * aw;
    let n_dyn = if spec.soname.is_some() { 5 } else { 0 }; // NEEDED, 3 interesting, NULL
    let dynstr_off = dyn_off + n_dyn * dyn_ent;
    // dynstr: "\0libneeded.so\0<soname>\0"
    let mut dynstr: Vec<u8> = vec![0];
    dynstr.extend_from_slice(b"libneeded.so\0");
    let soname_off = dynstr.len();
    if let Some(s) = &spec.soname {
        dynstr.extend_from_slice(s.as_bytes());
        dynstr.push(0);
    }
    let shstr_off = dynstr_off + if spec.soname.is_some() { dynstr.len() } else { 0 };
    // shstrtab
    let mut shstr: Vec<u8> = vec![0];
    let mut names = std::collections::BTreeMap::new();
    for n in [".rodata", ".text2", ".dynst2"] {
        names.insert(n, shstr.len());
        shstr.extend_from_slice(n.as_bytes());
        shstr.push(0);
    }
    let mut name_order = [".text", ".note.gnu.build-id", ".shstrtab", ".dynamic", ".dynstr"];
    name_order.rotate_left(spec.shstr_rotation as usize % 5);
    for n in name_order {
        names.insert(n, shstr.len());
        shstr.extend_from_slice(n.as_bytes());
        shstr.push(0);
    }
    let shoff = align_up(shstr_off + shstr.len(), 8);
    // sections: null, .text, [.note], .shstrtab, [.dynamic, .dynstr]
    let mut sect: Vec<&str> = vec!["null"];
    if spec.decoy_before % 5 != 0 {
        sect.push(".rodata");
    }
    sect.push(".text");
    if spec.decoy_after {
        sect.push(".text2");
    }
    if has_note && spec.note_section {
        sect.push(".note.gnu.build-id");
    }
    sect.push(".shstrtab");
    if spec.soname.is_some() && spec.dyn_section {
        sect.push(".dynamic");
        sect.push(".dynstr");
    }
    let shnum = if spec.sections { sect.len() } else { 0 };
    let shstrndx = sect.iter().position(|s| *s == ".shstrtab").unwrap();
    let dynstr_idx = sect.iter().position(|s| *s == ".dynstr").unwrap_or(0);
    let end = if spec.sections { shoff + shnum * shentsize } else { shstr_off + shstr.len() };
    let total = align_up(end, 4096).max(spec.pages as usize % 5 * 4096).max(4096);

    {
        let mut w = W { b: &mut b, little, fields: &mut fields };
        // e_ident
        w.b.extend_from_slice(&[0x7f, b'E', b'L', b'F', if c64 { 2 } else { 1 }, if little { 1 } else { 2 }, 1, 0, 0, 0, 0, 0, 0, 0, 0, 0]);
        w.fields.push(Field { name: "e_ident.class".into(), off: 4, width: 1 });
        w.fields.push(Field { name: "e_ident.data".into(), off: 5, width: 1 });
        w.fields.push(Field { name: "e_ident.version".into(), off: 6, width: 1 });
        w.put("e_type", 3, 2);
        w.put("e_machine", if c64 { 62 } else { 3 }, 2);
        w.put("e_version", 1, 4);
        w.put("e_entry", text_off as u64, aw);
        w.put("e_phoff", phoff as u64, aw);
        w.put("e_shoff", if spec.sections { shoff as u64 } else { 0 }, aw);
        w.put("e_flags", 0, 4);
        w.put("e_ehsize", ehsize as u64, 2);
        w.put("e_phentsize", phentsize as u64, 2);
        w.put("e_phnum", phnum as u64, 2);
        w.put("e_shentsize", shentsize as u64, 2);
        w.put("e_shnum", shnum as u64, 2);
        w.put("e_shstrndx", if spec.sections { shstrndx as u64 } else { 0 }, 2);
        // program headers
        for (i, k) in ph_kinds.iter().enumerate() {
            let (ty, off, filesz, align) = match *k {
                "load" => (PT_LOAD, 0usize, if delta > 0 { seg2_off } else { total }, 4096usize),
                "load2" => (PT_LOAD, seg2_off, total - seg2_off, 4096usize),
                "note" => (PT_NOTE, note_off, notes.len(), note_align),
                "emptynote" => (PT_NOTE, note_off, 0, note_align),
                "dynamic" => (PT_DYNAMIC, dyn_off, n_dyn * dyn_ent, 8),
                _ => (0x6474e551, 0, 0, 16), // GNU_STACK
            };
            let flags = if *k == "load" { 5 } else { 4 };
            let vaddr = va(off);
            let n = |f: &str| format!("ph{i}({k}).{f}");
            if c64 {
                w.put(&n("p_type"), ty as u64, 4);
                w.put(&n("p_flags"), flags, 4);
                w.put(&n("p_offset"), off as u64, 8);
                w.put(&n("p_vaddr"), vaddr as u64, 8);
                w.put(&n("p_paddr"), vaddr as u64, 8);
                w.put(&n("p_filesz"), filesz as u64, 8);
                w.put(&n("p_memsz"), filesz as u64, 8);
                w.put(&n("p_align"), align as u64, 8);
            } else {
                w.put(&n("p_type"), ty as u64, 4);
                w.put(&n("p_offset"), off as u64, 4);
                w.put(&n("p_vaddr"), vaddr as u64, 4);
                w.put(&n("p_paddr"), vaddr as u64, 4);
                w.put(&n("p_filesz"), filesz as u64, 4);
                w.put(&n("p_memsz"), filesz as u64, 4);
                w.put(&n("p_flags"), flags, 4);
                w.put(&n("p_align"), align as u64, 4);
            }
        }
        assert_eq!(w.b.len(), text_off);
        w.b.extend_from_slice(&text_bytes(spec.text_seed, text_len));
        w.pad_to(if delta > 0 { 4096 } else { 8 });
        assert_eq!(w.b.len(), note_off);
        w.b.extend_from_slice(&notes);
        if has_note {
            w.fields.push(Field { name: "note.namesz".into(), off: buildid_note_field_off, width: 4 });
            w.fields.push(Field { name: "note.descsz".into(), off: buildid_note_field_off + 4, width: 4 });
            w.fields.push(Field { name: "note.type".into(), off: buildid_note_field_off + 8, width: 4 });
        }
        w.pad_to(8);
        assert_eq!(w.b.len(), dyn_off);
        if spec.soname.is_some() {
            let perms: [[u64; 3]; 6] = [
                [DT_SONAME, DT_STRTAB, DT_STRSZ],
                [DT_SONAME, DT_STRSZ, DT_STRTAB],
                [DT_STRTAB, DT_SONAME, DT_STRSZ],
                [DT_STRTAB, DT_STRSZ, DT_SONAME],
                [DT_STRSZ, DT_SONAME, DT_STRTAB],
                [DT_STRSZ, DT_STRTAB, DT_SONAME],
            ];
            w.put("dyn0.d_tag", DT_NEEDED, aw);
            w.put("dyn0.d_val", 1, aw);
            for (i, tag) in perms[spec.dyn_order as usize % 6].iter().enumerate() {
                let val = match *tag {
                    DT_SONAME => soname_off as u64,
                    DT_STRTAB => va(dynstr_off) as u64,
                    _ => dynstr.len() as u64,
                };
                let tn = match *tag {
                    DT_SONAME => "SONAME",
                    DT_STRTAB => "STRTAB",
                    _ => "STRSZ",
                };
                w.put(&format!("dyn{}({tn}).d_tag", i + 1), *tag, aw);
                w.put(&format!("dyn{}({tn}).d_val", i + 1), val, aw);
            }
            w.put("dyn4.d_tag", DT_NULL, aw);
            w.put("dyn4.d_val", 0, aw);
            assert_eq!(w.b.len(), dynstr_off);
            w.b.extend_from_slice(&dynstr);
        }
        assert_eq!(w.b.len(), shstr_off);
        w.b.extend_from_slice(&shstr);
        w.pad_to(8);
        if spec.sections {
            assert_eq!(w.b.len(), shoff);
            for (i, sname) in sect.iter().enumerate() {
                let (name, ty, flags, off, size, link, addralign, entsize) = match *sname {
                    "null" => (0usize, 0u32, 0u64, 0usize, 0usize, 0usize, 0usize, 0usize),
                    ".text" => (names[".text"], SHT_PROGBITS, SHF_ALLOC | SHF_EXECINSTR, text_off, text_len, 0, 16, 0),
                    // decoys cover the section-name table (always present, never empty, different bytes than .text)
                    ".rodata" => match spec.decoy_before % 5 {
                        1 => (names[".rodata"], SHT_PROGBITS, SHF_ALLOC, shstr_off, shstr.len(), 0, 1, 0),
                        2 => (names[".rodata"], 8u32 /* SHT_NOBITS */, SHF_ALLOC | SHF_EXECINSTR, shstr_off, shstr.len(), 0, 1, 0),
                        3 => (names[".rodata"], SHT_PROGBITS, SHF_EXECINSTR, shstr_off, shstr.len(), 0, 1, 0),
                        _ => (names[".rodata"], SHT_PROGBITS, SHF_ALLOC | 1, shstr_off, shstr.len(), 0, 1, 0),
                    },
                    ".text2" => (names[".text2"], SHT_PROGBITS, SHF_ALLOC | SHF_EXECINSTR, shstr_off, shstr.len(), 0, 1, 0),
                    ".note.gnu.build-id" => (names[".note.gnu.build-id"], SHT_NOTE, SHF_ALLOC, note_off, notes.len(), 0, note_align, 0),
                    ".shstrtab" => (names[".shstrtab"], SHT_STRTAB, 0, shstr_off, shstr.len(), 0, 1, 0),
                    ".dynamic" => (
                        names[".dynamic"],
                        SHT_DYNAMIC,
                        SHF_ALLOC | 1,
                        dyn_off,
                        n_dyn * dyn_ent,
                        match spec.dyn_link % 4 {
                            1 => 0,
                            2 => shstrndx,
                            _ => dynstr_idx,
                        },
                        8,
                        dyn_ent,
                    ),
                    _ => (names[if spec.dyn_link % 4 == 3 { ".dynst2" } else { ".dynstr" }], SHT_STRTAB, SHF_ALLOC, dynstr_off, dynstr.len(), 0, 1, 0),
                };
                let n = |f: &str| format!("sh{i}({sname}).{f}");
                w.put(&n("sh_name"), name as u64, 4);
                w.put(&n("sh_type"), ty as u64, 4);
                w.put(&n("sh_flags"), flags, aw);
                w.put(&n("sh_addr"), va(off) as u64, aw);
                w.put(&n("sh_offset"), off as u64, aw);
                w.put(&n("sh_size"), size as u64, aw);
                w.put(&n("sh_link"), link as u64, 4);
                w.put(&n("sh_info"), 0, 4);
                w.put(&n("sh_addralign"), addralign as u64, aw);
                w.put(&n("sh_entsize"), entsize as u64, aw);
            }
        }
    }
    b.resize(total, 0);
    Built { bytes: b, fields, text_off, text_len, seg2_off: if delta > 0 { seg2_off } else { total }, delta }
}

pub const BOUNDARY: [u64; 12] = [0, 1, 2, 0xfff, 0x1000, 0x7fff_ffff, 0x8000_0000, 0xffff_ffff, 1 << 63, u64::MAX - 7, u64::MAX - 1, u64::MAX];

/// Applies a corruption: field `sel` (monotone index) := value.
pub fn corrupt(bt: &mut Built, little: bool, sel: u16, value: CorruptVal) -> String {
    if bt.fields.is_empty() {
        return String::new();
    }
    let read = |b: &[u8], f: &Field| -> u64 {
        let mut v = 0u64;
        for i in 0..f.width {
            let byte = b[f.off + if little { i } else { f.width - 1 - i }] as u64;
            v |= byte << (8 * i);
        }
        v
    };
    if let CorruptVal::NameEdge(delta) = value {
        // a name offset (DT_SONAME value, a section's sh_name) placed at the very end of its string
        // table: table size + delta, delta in -2..=2
        let cands: Vec<Field> = bt.fields.iter().filter(|f| f.name.ends_with(".sh_name") || f.name.contains("(SONAME).d_val")).cloned().collect();
        if cands.is_empty() {
            return String::new();
        }
        let f = cands[((sel as usize) * cands.len()) >> 16].clone();
        let size_field = if f.name.contains("(SONAME)") {
            bt.fields.iter().find(|x| x.name.contains("(STRSZ).d_val")).or_else(|| bt.fields.iter().find(|x| x.name.contains("(.dynstr).sh_size")))
        } else {
            bt.fields.iter().find(|x| x.name.contains("(.shstrtab).sh_size"))
        };
        let Some(sf) = size_field.cloned() else { return String::new() };
        let v = read(&bt.bytes, &sf).wrapping_add(delta as i64 as u64);
        let mask = if f.width == 8 { u64::MAX } else { (1u64 << (8 * f.width)) - 1 };
        patch(&mut bt.bytes, f.off, v & mask, f.width, little);
        return format!("{}:={:#x} (table size {:+})", f.name, v & mask, delta);
    }
    let f = bt.fields[((sel as usize) * bt.fields.len()) >> 16].clone();
    let len = bt.bytes.len() as u64;
    let v = match value {
        CorruptVal::NameEdge(_) => unreachable!(),
        CorruptVal::Boundary(i) => BOUNDARY[i as usize % BOUNDARY.len()],
        CorruptVal::LenMinus(k) => len.wrapping_sub(k as u64),
        CorruptVal::LenPlus(k) => len + k as u64,
        CorruptVal::Raw(v) => v,
    };
    let mask = if f.width == 8 { u64::MAX } else { (1u64 << (8 * f.width)) - 1 };
    patch(&mut bt.bytes, f.off, v & mask, f.width, little);
    format!("{}:={:#x}", f.name, v & mask)
}

#[derive(Debug, Clone, Copy, PartialEq, Eq, Hash, Serialize, Deserialize)]
pub enum CorruptVal {
    Boundary(u8),
    LenMinus(u8),
    LenPlus(u8),
    Raw(u64),
    /// a name offset at (string table size + delta)
    NameEdge(i8),
}

// ---------------------------------------------------------------------------
// Independent reader
// ---------------------------------------------------------------------------

struct R<'a> {
    b: &'a [u8],
    little: bool,
}
impl R<'_> {
    fn get(&self, off: u64, w: usize) -> Option<u64> {
        let end = off.checked_add(w as u64)?;
        if end > self.b.len() as u64 {
            return None;
        }
        let s = &self.b[off as usize..end as usize];
        let mut v = 0u64;
        if self.little {
            for (i, x) in s.iter().enumerate() {
                v |= (*x as u64) << (8 * i);
            }
        } else {
            for x in s {
                v = (v << 8) | *x as u64;
            }
        }
        Some(v)
    }
    fn slice(&self, off: u64, len: u64) -> Option<&[u8]> {
        let end = off.checked_add(len)?;
        if end > self.b.len() as u64 {
            return None;
        }
        Some(&self.b[off as usize..end as usize])
    }
}

#[derive(Debug, Clone, PartialEq, Eq, Default)]
pub struct Ident {
    /// GNU build id note contents (first one in the documented search order)
    pub note_id: Option<Vec<u8>>,
    /// where it was found: "phdr" | "section"
    pub note_via: Option<&'static str>,
    /// XOR-fold of the first <= 4096 bytes of the first executable PROGBITS section
    pub text_hash: Option<Vec<u8>>,
    pub soname: Option<String>,
    pub soname_via: Option<&'static str>,
    /// reader declined: structure it does not want to judge (e.g. overlapping tables)
    pub unsure: bool,
}

impl Ident {
    /// the identifier the writer is specified to produce
    pub fn build_id(&self) -> Option<Vec<u8>> {
        self.note_id.clone().or_else(|| self.text_hash.clone())
    }
}

fn find_note(r: &R, off: u64, size: u64, align: u64) -> Option<Vec<u8>> {
    let data = r.slice(off, size)?;
    let a = if align == 8 { 8usize } else { 4usize };
    let rr = R { b: data, little: r.little };
    let mut p = 0usize;
    while p + 12 <= data.len() {
        let namesz = rr.get(p as u64, 4)? as usize;
        let descsz = rr.get(p as u64 + 4, 4)? as usize;
        let ty = rr.get(p as u64 + 8, 4)? as u32;
        let name_start = p + 12;
        let name_end = name_start.checked_add(namesz)?;
        let desc_start = (name_end + a - 1) / a * a;
        let desc_end = desc_start.checked_add(descsz)?;
        if desc_end > data.len() {
            return None;
        }
        let name = &data[name_start..name_end];
        if ty == NT_GNU_BUILD_ID && name == b"GNU\0" {
            return Some(data[desc_start..desc_end].to_vec());
        }
        p = (desc_end + a - 1) / a * a;
    }
    None
}

/// Straight-line identification of a well-formed ELF image.
pub fn identify(b: &[u8]) -> Option<Ident> {
    if b.len() < 52 || &b[0..4] != b"\x7fELF" {
        return None;
    }
    let c64 = match b[4] {
        1 => false,
        2 => true,
        _ => return None,
    };
    let little = match b[5] {
        1 => true,
        2 => false,
        _ => return None,
    };
    let r = R { b, little };
    let aw = if c64 { 8 } else { 4 };
    let (phoff, shoff, phentsize, phnum, shentsize, shnum, shstrndx) = if c64 {
        (r.get(32, 8)?, r.get(40, 8)?, r.get(54, 2)?, r.get(56, 2)?, r.get(58, 2)?, r.get(60, 2)?, r.get(62, 2)?)
    } else {
        (r.get(28, 4)?, r.get(32, 4)?, r.get(42, 2)?, r.get(44, 2)?, r.get(46, 2)?, r.get(48, 2)?, r.get(50, 2)?)
    };
    let mut out = Ident::default();
    // program headers
    struct Ph {
        ty: u32,
        off: u64,
        vaddr: u64,
        filesz: u64,
        align: u64,
    }
    let mut phs = vec![];
    if phoff != 0 {
        for i in 0..phnum {
            let o = phoff + i * phentsize;
            let ph = if c64 {
                Ph { ty: r.get(o, 4)? as u32, off: r.get(o + 8, 8)?, vaddr: r.get(o + 16, 8)?, filesz: r.get(o + 32, 8)?, align: r.get(o + 48, 8)? }
            } else {
                Ph { ty: r.get(o, 4)? as u32, off: r.get(o + 4, 4)?, vaddr: r.get(o + 8, 4)?, filesz: r.get(o + 16, 4)?, align: r.get(o + 28, 4)? }
            };
            phs.push(ph);
        }
    }
    // sections
    struct Sh {
        name: u64,
        ty: u32,
        flags: u64,
        off: u64,
        size: u64,
        link: u64,
        align: u64,
    }
    let mut shs = vec![];
    if shoff != 0 {
        for i in 0..shnum {
            let o = shoff + i * shentsize;
            let sh = if c64 {
                Sh { name: r.get(o, 4)?, ty: r.get(o + 4, 4)? as u32, flags: r.get(o + 8, 8)?, off: r.get(o + 24, 8)?, size: r.get(o + 32, 8)?, link: r.get(o + 40, 4)?, align: r.get(o + 48, 8)? }
            } else {
                Sh { name: r.get(o, 4)?, ty: r.get(o + 4, 4)? as u32, flags: r.get(o + 8, 4)?, off: r.get(o + 16, 4)?, size: r.get(o + 20, 4)?, link: r.get(o + 24, 4)?, align: r.get(o + 32, 4)? }
            };
            shs.push(sh);
        }
    }
    let sec_name = |sh: &Sh| -> Option<Vec<u8>> {
        let st = shs.get(shstrndx as usize)?;
        if st.ty != SHT_STRTAB || sh.name >= st.size {
            return None;
        }
        let tab = r.slice(st.off, st.size)?;
        let s = &tab[sh.name as usize..];
        let e = s.iter().position(|c| *c == 0)?;
        Some(s[..e].to_vec())
    };
    // build id: PT_NOTE in program-header order
    for ph in phs.iter().filter(|p| p.ty == PT_NOTE) {
        if let Some(id) = find_note(&r, ph.off, ph.filesz, ph.align) {
            out.note_id = Some(id);
            out.note_via = Some("phdr");
            break;
        }
    }
    if out.note_id.is_none() {
        if let Some(sh) = shs.iter().find(|s| sec_name(s).as_deref() == Some(b".note.gnu.build-id")) {
            if let Some(id) = find_note(&r, sh.off, sh.size, sh.align) {
                out.note_id = Some(id);
                out.note_via = Some("section");
            }
        }
    }
    if let Some(sh) = shs.iter().find(|s| s.ty == SHT_PROGBITS && s.flags & SHF_ALLOC != 0 && s.flags & SHF_EXECINSTR != 0) {
        if let Some(data) = r.slice(sh.off, sh.size.min(4096)) {
            let mut h = vec![0u8; 16];
            for ch in data.chunks(16) {
                for (i, c) in ch.iter().enumerate() {
                    h[i] ^= c;
                }
            }
            out.text_hash = Some(h);
        }
    }
    // soname: PT_DYNAMIC first
    let read_dyn = |off: u64, size: u64| -> Option<Vec<(u64, u64)>> {
        let mut v = vec![];
        let n = size / (2 * aw as u64);
        for i in 0..n {
            let t = r.get(off + i * 2 * aw as u64, aw)?;
            let val = r.get(off + i * 2 * aw as u64 + aw as u64, aw)?;
            if t == DT_NULL {
                break;
            }
            v.push((t, val));
        }
        Some(v)
    };
    let cstr = |off: u64, max: u64| -> Option<String> {
        let s = r.slice(off, max)?;
        let e = s.iter().position(|c| *c == 0)?;
        Some(String::from_utf8_lossy(&s[..e]).into_owned())
    };
    if let Some(ph) = phs.iter().find(|p| p.ty == PT_DYNAMIC) {
        if let Some(d) = read_dyn(ph.off, ph.filesz) {
            let get = |t: u64| d.iter().rev().find(|(k, _)| *k == t).map(|(_, v)| *v);
            if let (Some(so), Some(tab), Some(sz)) = (get(DT_SONAME), get(DT_STRTAB), get(DT_STRSZ)) {
                // DT_STRTAB is a virtual address: translate through the PT_LOAD that holds it
                let tab = phs
                    .iter()
                    .find(|p| p.ty == PT_LOAD && p.vaddr <= tab && tab < p.vaddr.saturating_add(p.filesz))
                    .map(|p| tab - p.vaddr + p.off)
                    .unwrap_or(tab);
                if so < sz {
                    if let Some(s) = cstr(tab.checked_add(so)?, sz - so) {
                        out.soname = Some(s);
                        out.soname_via = Some("phdr");
                    }
                }
            }
        }
    }
    if out.soname.is_none() {
        if let Some(sh) = shs.iter().find(|s| s.ty == SHT_DYNAMIC) {
            let strtab = shs.get(sh.link as usize).filter(|s| s.ty == SHT_STRTAB).or_else(|| shs.iter().find(|s| sec_name(s).as_deref() == Some(b".dynstr")));
            if let (Some(st), Some(d)) = (strtab, read_dyn(sh.off, sh.size)) {
                for (t, v) in d {
                    if t == DT_SONAME && v < st.size {
                        if let Some(s) = cstr(st.off.checked_add(v)?, st.size - v) {
                            out.soname = Some(s);
                            out.soname_via = Some("section");
                            break;
                        }
                    }
                }
            }
        }
    }
    Some(out)
}
