//! E1 – arena engine: one persistent helper target per lane whose memory the
//! harness scribbles through a shared file mapping, so a case costs
//! microseconds instead of a process spawn.
//!
//! Layout in the target:  [ARENA, ARENA+SIZE) shared rw mapping of the arena
//! file, then one PROT_NONE page, then unmapped; [ARENA_RO, ARENA_RO+SIZE) a
//! read-only view of the same file, followed by unmapped memory.

use super::target::*;
use super::world::Builder;
use std::cell::RefCell;

pub const ARENA: u64 = 0x4000_0000_0000;
pub const ARENA_RO: u64 = 0x4100_0000_0000;
pub const ARENA_PAGES: u64 = 16;
pub const ARENA_SIZE: u64 = ARENA_PAGES * 4096;
/// a larger read-only-content view (pattern `pat(offset, BIG_SEED)`), for reads that span many pages
pub const ARENA_BIG: u64 = 0x4200_0000_0000;
pub const ARENA_BIG_PAGES: u64 = 40;
pub const ARENA_BIG_SIZE: u64 = ARENA_BIG_PAGES * 4096;
pub const BIG_SEED: u64 = 0xB16B16;

pub struct Arena {
    pub target: Target,
    view: *mut u8,
    traced: bool,
}

thread_local! {
    static ARENA_INST: RefCell<Option<Arena>> = const { RefCell::new(None) };
}

impl Arena {
    fn create() -> Result<Arena, String> {
        super::world::init_scratch();
        let scratch = Target::new_scratch();
        let path = scratch.join("arena");
        std::fs::write(&path, vec![0u8; ARENA_SIZE as usize]).map_err(|e| e.to_string())?;
        let pb = path.to_string_lossy().into_owned().into_bytes();
        let mut b = Builder::new();
        b.add_file_map_at(ARENA, ARENA_PAGES, 3, &pb, 0, true);
        b.add_anon_at(ARENA + ARENA_SIZE, 1, 0, 0);
        b.add_file_map_at(ARENA_RO, ARENA_PAGES, 1, &pb, 0, true);
        let big = scratch.join("arena_big");
        let content: Vec<u8> = (0..ARENA_BIG_SIZE).map(|o| pat(o, BIG_SEED)).collect();
        std::fs::write(&big, content).map_err(|e| e.to_string())?;
        b.add_file_map_at(ARENA_BIG, ARENA_BIG_PAGES, 3, &big.to_string_lossy().into_owned().into_bytes(), 0, true);
        let target = Target::spawn(&b.spec, scratch)?;
        let view = unsafe {
            use std::os::fd::AsRawFd;
            let f = std::fs::OpenOptions::new().read(true).write(true).open(&path).map_err(|e| e.to_string())?;
            let p = libc::mmap(std::ptr::null_mut(), ARENA_SIZE as usize, libc::PROT_READ | libc::PROT_WRITE, libc::MAP_SHARED, f.as_raw_fd(), 0);
            if p == libc::MAP_FAILED {
                return Err("mmap arena".into());
            }
            p as *mut u8
        };
        Ok(Arena { target, view, traced: false })
    }

    pub fn pid(&self) -> i32 {
        self.target.pid
    }

    /// PTRACE_ATTACH the helper's main thread and leave it in ptrace-stop
    /// (PTRACE_PEEKDATA needs a stopped tracee).  Idempotent.
    pub fn ensure_traced(&mut self) -> bool {
        if self.traced {
            return true;
        }
        let pid = nix::unistd::Pid::from_raw(self.target.pid);
        if nix::sys::ptrace::attach(pid).is_err() {
            return false;
        }
        match nix::sys::wait::waitpid(pid, Some(nix::sys::wait::WaitPidFlag::__WALL)) {
            Ok(nix::sys::wait::WaitStatus::Stopped(_, _)) => {
                self.traced = true;
                true
            }
            _ => false,
        }
    }

    pub fn bytes(&mut self) -> &mut [u8] {
        unsafe { std::slice::from_raw_parts_mut(self.view, ARENA_SIZE as usize) }
    }

    pub fn write(&mut self, off: u64, data: &[u8]) {
        let off = off as usize;
        let end = (off + data.len()).min(ARENA_SIZE as usize);
        if off < end {
            self.bytes()[off..end].copy_from_slice(&data[..end - off]);
        }
    }
}

pub fn with_arena<R>(f: impl FnOnce(&mut Arena) -> R) -> Result<R, String> {
    ARENA_INST.with(|a| {
        let mut a = a.borrow_mut();
        if a.is_none() {
            *a = Some(Arena::create()?);
        }
        Ok(f(a.as_mut().unwrap()))
    })
}

pub fn drop_arena() {
    ARENA_INST.with(|a| {
        a.borrow_mut().take();
    });
}
