//! Instrumented in-memory `Write + Seek` destination with file semantics
//! (sparse extension with zeros), an operation log, optional fault injection
//! and per-write snapshots.

use std::cell::RefCell;
use std::io::{Error, ErrorKind, Seek, SeekFrom, Write};
use std::rc::Rc;

#[derive(Debug, Clone, PartialEq, Eq)]
pub enum DestOp {
    Write { at: u64, len: u64 },
    Seek { to: u64 },
    Flush,
}

#[derive(Debug, Clone, Copy, PartialEq, Eq)]
pub enum Fault {
    None,
    /// the k-th call (0-based, writes and seeks counted together) returns an error
    ErrAt(u64),
    /// the k-th call panics
    PanicAt(u64),
}

pub struct Callback(pub Box<dyn Fn()>);
impl std::fmt::Debug for Callback {
    fn fmt(&self, f: &mut std::fmt::Formatter<'_>) -> std::fmt::Result {
        f.write_str("Callback")
    }
}

#[derive(Debug)]
pub struct Inner {
    /// the destination's own origin: positions the writer sees are `bias` + the index into `data`
    /// (a file that already holds `bias` bytes, kept sparse); accesses below it are recorded
    pub bias: u64,
    /// absolute position when it lies below `bias`
    pub below: Option<u64>,
    /// writes that landed below `bias`: (absolute position, length)
    pub low_writes: Vec<(u64, u64)>,
    /// `write` accepts at most this many bytes per call (a destination that takes data in pieces)
    pub max_write: Option<usize>,
    /// called (once) at the beginning of the k-th call
    pub on_call: Option<(u64, Callback)>,
    pub data: Vec<u8>,
    pub pos: u64,
    pub log: Vec<DestOp>,
    pub calls: u64,
    pub fault: Fault,
    /// snapshot of the content length + a copy of data after every completed write
    pub snapshots: Option<Vec<Vec<u8>>>,
    /// judged after every completed write instead of storing a snapshot: (write index, problem)
    pub checker: Option<fn(&[u8]) -> Option<(String, String)>>,
    pub first_problem: Option<(u64, DestOp, String, String)>,
    pub writes: u64,
}

#[derive(Clone)]
pub struct Dest(pub Rc<RefCell<Inner>>);

impl Dest {
    pub fn new(prefill: Vec<u8>, pos: u64) -> Self {
        Dest(Rc::new(RefCell::new(Inner {
            on_call: None,
            bias: 0,
            below: None,
            low_writes: vec![],
            max_write: None,
            data: prefill,
            pos,
            log: vec![],
            calls: 0,
            fault: Fault::None,
            snapshots: None,
            checker: None,
            first_problem: None,
            writes: 0,
        })))
    }
    pub fn on_call(&mut self, k: u64, f: Box<dyn Fn()>) {
        self.0.borrow_mut().on_call = Some((k, Callback(f)));
    }
    pub fn with_bias(self, bias: u64) -> Self {
        self.0.borrow_mut().bias = bias;
        self
    }
    pub fn low_writes(&self) -> Vec<(u64, u64)> {
        self.0.borrow().low_writes.clone()
    }
    pub fn with_max_write(self, n: Option<usize>) -> Self {
        self.0.borrow_mut().max_write = n.map(|n| n.max(1));
        self
    }
    pub fn with_fault(self, f: Fault) -> Self {
        self.0.borrow_mut().fault = f;
        self
    }
    pub fn with_checker(self, f: fn(&[u8]) -> Option<(String, String)>) -> Self {
        self.0.borrow_mut().checker = Some(f);
        self
    }
    pub fn with_snapshots(self) -> Self {
        self.0.borrow_mut().snapshots = Some(vec![]);
        self
    }
    pub fn data(&self) -> Vec<u8> {
        self.0.borrow().data.clone()
    }
    pub fn pos(&self) -> u64 {
        self.0.borrow().pos
    }
    pub fn calls(&self) -> u64 {
        self.0.borrow().calls
    }
}

impl Inner {
    fn tick(&mut self) -> std::io::Result<()> {
        let k = self.calls;
        self.calls += 1;
        if matches!(&self.on_call, Some((n, _)) if *n == k) {
            let (_, cb) = self.on_call.take().unwrap();
            (cb.0)();
        }
        match self.fault {
            Fault::ErrAt(n) if n == k => Err(Error::new(ErrorKind::Other, "injected destination failure")),
            Fault::PanicAt(n) if n == k => panic!("injected destination panic"),
            _ => Ok(()),
        }
    }
}

impl Write for Dest {
    fn write(&mut self, buf: &[u8]) -> std::io::Result<usize> {
        let mut s = self.0.borrow_mut();
        s.tick()?;
        let buf = match s.max_write {
            Some(n) if buf.len() > n => &buf[..n],
            _ => buf,
        };
        if let Some(a) = s.below {
            // below the destination's origin: nothing of the image may ever land here
            s.low_writes.push((a, buf.len() as u64));
            s.below = Some(a + buf.len() as u64);
            s.writes += 1;
            return Ok(buf.len());
        }
        let at = s.pos as usize;
        if s.data.len() < at + buf.len() {
            s.data.resize(at + buf.len(), 0);
        }
        s.data[at..at + buf.len()].copy_from_slice(buf);
        s.pos += buf.len() as u64;
        s.log.push(DestOp::Write { at: at as u64, len: buf.len() as u64 });
        s.writes += 1;
        if let Some(f) = s.checker {
            if s.first_problem.is_none() {
                if let Some((sig, detail)) = f(&s.data) {
                    let k = s.writes - 1;
                    s.first_problem = Some((k, DestOp::Write { at: at as u64, len: buf.len() as u64 }, sig, detail));
                }
            }
        }
        if s.snapshots.is_some() {
            let snap = s.data.clone();
            s.snapshots.as_mut().unwrap().push(snap);
        }
        Ok(buf.len())
    }
    fn flush(&mut self) -> std::io::Result<()> {
        self.0.borrow_mut().log.push(DestOp::Flush);
        Ok(())
    }
}

impl Seek for Dest {
    fn seek(&mut self, to: SeekFrom) -> std::io::Result<u64> {
        let mut s = self.0.borrow_mut();
        // `stream_position()` is seek(Current(0)): a pure query, not a fault point
        if to != SeekFrom::Current(0) {
            s.tick()?;
        }
        let bias = s.bias as i128;
        let cur_abs: i128 = match s.below {
            Some(a) => a as i128,
            None => bias + s.pos as i128,
        };
        let np: i128 = match to {
            SeekFrom::Start(p) => p as i128,
            SeekFrom::Current(d) => cur_abs + d as i128,
            SeekFrom::End(d) => bias + s.data.len() as i128 + d as i128,
        };
        if np < 0 {
            return Err(Error::new(ErrorKind::InvalidInput, "seek before start"));
        }
        if np < bias {
            s.below = Some(np as u64);
        } else {
            s.below = None;
            s.pos = (np - bias) as u64;
        }
        if to != SeekFrom::Current(0) {
            let p = s.pos;
            s.log.push(DestOp::Seek { to: p });
        }
        Ok(np as u64)
    }
}
