//! Path-selective open() fault injection for the dumping code.
//!
//! The harness binary defines `open64` and `open` itself; the Rust standard library (statically linked
//! into the binary) and `nix` then resolve their references to these definitions instead of the C
//! library's, so every `File::open` / `fs::read` / `fs::read_to_string` of the code under test passes
//! through here.  With the deny mask 0 (always, except around a dump that asks for it) the call is
//! forwarded unchanged.  Not compiled into the libFuzzer targets (AddressSanitizer interposes the same
//! symbols).

use std::sync::atomic::{AtomicU32, Ordering};

/// bit i set = opening file i fails with EACCES
pub static DENY: AtomicU32 = AtomicU32::new(0);
static CPUINFO_OPENS: AtomicU32 = AtomicU32::new(0);
/// number of /proc/cpuinfo opens after which the copy of the status file is next (2, or 1 when the CPU
/// information step is made to fail before it opens the file)
static ARM_AT: AtomicU32 = AtomicU32::new(2);
pub static DENIED: AtomicU32 = AtomicU32::new(0);

pub const F_CPUINFO: u32 = 1;
/// the copy of /proc/<blamed>/status only: the same file is read earlier for every thread's ppid/tgid
/// (not a best-effort step), so the denial is armed by the second open of /proc/cpuinfo, which directly
/// precedes the copy
pub const F_STATUS: u32 = 2;
pub const F_OS_RELEASE: u32 = 4;
pub const F_CMDLINE: u32 = 8;
pub const F_ENVIRON: u32 = 16;
pub const F_AUXV: u32 = 32;
pub const F_LIMITS: u32 = 64;
pub const F_COMM: u32 = 128;
/// /proc/<id>/maps (mapping enumeration, memory-info list, raw copy)
pub const F_MAPS: u32 = 256;
/// /proc/<id>/mem (the second memory-reading strategy)
pub const F_MEM: u32 = 512;

/// one more path (matched by suffix) that fails with a chosen errno; null = none
static ONE_PATH: std::sync::atomic::AtomicPtr<(Vec<u8>, i32, Option<std::ffi::CString>)> = std::sync::atomic::AtomicPtr::new(std::ptr::null_mut());

/// Runs `f` while opening any path that ends in `suffix` fails with `errno`.
pub fn with_failing_path<R>(suffix: &[u8], errno: i32, f: impl FnOnce() -> R) -> (R, u32) {
    with_path_rule(suffix, errno, None, f)
}

/// Runs `f` while opening any path that ends in `suffix` opens `instead` (a file the harness wrote):
/// the way to hand the code under test a /proc file with chosen content.
pub fn with_redirected_path<R>(suffix: &[u8], instead: &std::path::Path, f: impl FnOnce() -> R) -> (R, u32) {
    use std::os::unix::ffi::OsStrExt;
    with_path_rule(suffix, 0, std::ffi::CString::new(instead.as_os_str().as_bytes()).ok(), f)
}

fn with_path_rule<R>(suffix: &[u8], errno: i32, instead: Option<std::ffi::CString>, f: impl FnOnce() -> R) -> (R, u32) {
    let b = Box::into_raw(Box::new((suffix.to_vec(), errno, instead)));
    DENIED.store(0, Ordering::SeqCst);
    ONE_PATH.store(b, Ordering::SeqCst);
    let r = f();
    ONE_PATH.store(std::ptr::null_mut(), Ordering::SeqCst);
    drop(unsafe { Box::from_raw(b) });
    (r, DENIED.load(Ordering::SeqCst))
}

#[cfg(not(fuzzing))]
fn denied(p: &[u8], mask: u32) -> bool {
    let ends = |s: &[u8]| p.ends_with(s) && p.starts_with(b"/proc/");
    if p == b"/proc/cpuinfo" {
        CPUINFO_OPENS.fetch_add(1, Ordering::SeqCst);
        return mask & F_CPUINFO != 0;
    }
    (mask & F_STATUS != 0 && ends(b"/status") && CPUINFO_OPENS.load(Ordering::SeqCst) >= ARM_AT.load(Ordering::SeqCst))
        || (mask & F_OS_RELEASE != 0 && (p == b"/etc/lsb-release" || p == b"/etc/os-release"))
        || (mask & F_CMDLINE != 0 && ends(b"/cmdline"))
        || (mask & F_ENVIRON != 0 && ends(b"/environ"))
        || (mask & F_AUXV != 0 && ends(b"/auxv"))
        || (mask & F_LIMITS != 0 && ends(b"/limits"))
        || (mask & F_COMM != 0 && ends(b"/comm"))
        || (mask & F_MAPS != 0 && ends(b"/maps"))
        || (mask & F_MEM != 0 && ends(b"/mem"))
}

#[cfg(not(fuzzing))]
unsafe fn shim(path: *const libc::c_char, flags: libc::c_int, mode: libc::c_uint) -> libc::c_int {
    let one = ONE_PATH.load(Ordering::SeqCst);
    if !one.is_null() && !path.is_null() && std::ffi::CStr::from_ptr(path).to_bytes().ends_with(&(*one).0) {
        DENIED.fetch_add(1, Ordering::SeqCst);
        if let Some(instead) = &(*one).2 {
            return libc::syscall(libc::SYS_openat, libc::AT_FDCWD, instead.as_ptr(), flags, mode) as libc::c_int;
        }
        *libc::__errno_location() = (*one).1;
        return -1;
    }
    let mask = DENY.load(Ordering::SeqCst);
    if mask != 0 && !path.is_null() && denied(std::ffi::CStr::from_ptr(path).to_bytes(), mask) {
        DENIED.fetch_add(1, Ordering::SeqCst);
        *libc::__errno_location() = libc::EACCES;
        return -1;
    }
    libc::syscall(libc::SYS_openat, libc::AT_FDCWD, path, flags, mode) as libc::c_int
}

/// # Safety
/// C ABI of open(2); the third argument is only meaningful with O_CREAT / O_TMPFILE.
#[cfg(not(fuzzing))]
#[no_mangle]
pub unsafe extern "C" fn open64(path: *const libc::c_char, flags: libc::c_int, mode: libc::c_uint) -> libc::c_int {
    shim(path, flags, mode)
}

/// # Safety
/// C ABI of open(2).
#[cfg(not(fuzzing))]
#[no_mangle]
pub unsafe extern "C" fn open(path: *const libc::c_char, flags: libc::c_int, mode: libc::c_uint) -> libc::c_int {
    shim(path, flags, mode)
}

/// Runs `f` with the given files unopenable; returns how many opens were refused.
pub fn with_denied_files<R>(mask: u32, cpuinfo_opens_before_status_copy: u32, f: impl FnOnce() -> R) -> (R, u32) {
    ARM_AT.store(cpuinfo_opens_before_status_copy, Ordering::SeqCst);
    CPUINFO_OPENS.store(0, Ordering::SeqCst);
    DENIED.store(0, Ordering::SeqCst);
    DENY.store(mask, Ordering::SeqCst);
    let r = f();
    DENY.store(0, Ordering::SeqCst);
    (r, DENIED.load(Ordering::SeqCst))
}
