//! Framework: lanes, statistics, evidence, known findings, replay files.
//!
//! Every property check is a list of *sub-checks*.  A sub-check is a proptest
//! strategy plus a closure that runs one generated case against the code under
//! test and returns a [`Verdict`].  A check run spawns `lanes` child processes
//! (`vcheck lane ...`), each of which drives its own proptest `TestRunner`
//! seeded from (VERIF_SEED, lane, sub-check name) over its share of the cases.

use proptest::strategy::{BoxedStrategy, Strategy};
use proptest::test_runner::{Config, RngAlgorithm, TestCaseError, TestError, TestRng, TestRunner};
use serde::{de::DeserializeOwned, Deserialize, Serialize};
use serde_json::{json, Value};
use std::cell::RefCell;
use std::collections::{BTreeMap, BTreeSet};
use std::hash::{Hash, Hasher};
use std::panic::{catch_unwind, AssertUnwindSafe};
use std::path::{Path, PathBuf};
use std::sync::Mutex;

/// Root of the verification tree (the directory of the `check` script): `VERIF_ROOT` env, default /verif.
pub fn verif_root() -> PathBuf {
    PathBuf::from(std::env::var("VERIF_ROOT").unwrap_or_else(|_| "/verif".to_string()))
}

// ---------------------------------------------------------------------------
// Verdicts
// ---------------------------------------------------------------------------

#[derive(Debug, Clone)]
pub enum Verdict {
    /// The property held on this case.  `nontrivial` is a fingerprint of the
    /// case if it is non-trivial by the sub-check's rule.
    Pass {
        nontrivial: Option<u64>,
        classes: Vec<String>,
    },
    /// The statement is silent about this case.
    DontCare(String),
    /// Environment got in the way (not a violation).
    Inconclusive(String),
    /// The property is violated.  `signature` is the stable key of the root
    /// cause; `detail` is free text.
    Violation { signature: String, detail: String },
}

impl Verdict {
    pub fn pass() -> Self {
        Verdict::Pass {
            nontrivial: None,
            classes: vec![],
        }
    }
    pub fn pass_nt(fp: u64, classes: Vec<String>) -> Self {
        Verdict::Pass {
            nontrivial: Some(fp),
            classes,
        }
    }
    pub fn pass_c(nontrivial: Option<u64>, classes: Vec<String>) -> Self {
        Verdict::Pass {
            nontrivial,
            classes,
        }
    }
    pub fn viol(signature: impl Into<String>, detail: impl Into<String>) -> Self {
        Verdict::Violation {
            signature: signature.into(),
            detail: detail.into(),
        }
    }
}

thread_local! {
    static COUNTERS: RefCell<BTreeMap<String, u64>> = const { RefCell::new(BTreeMap::new()) };
}

/// Adds to a named measurement of this lane (reported under coverage.counters).
pub fn count(key: &str, n: u64) {
    COUNTERS.with(|c| *c.borrow_mut().entry(key.to_string()).or_default() += n);
}

pub fn take_counters() -> BTreeMap<String, u64> {
    COUNTERS.with(|c| std::mem::take(&mut *c.borrow_mut()))
}

pub fn fingerprint<T: Hash>(t: &T) -> u64 {
    #[allow(deprecated)]
    let mut h = std::hash::SipHasher::new_with_keys(0x7665_7269_6621, 0x6d64_7772);
    t.hash(&mut h);
    h.finish()
}

pub fn fp_json<T: Serialize>(t: &T) -> u64 {
    fingerprint(&serde_json::to_string(t).unwrap_or_default())
}

// ---------------------------------------------------------------------------
// Known findings
// ---------------------------------------------------------------------------

#[derive(Debug, Clone, Serialize, Deserialize)]
pub struct Finding {
    pub property: String,
    /// exact signature, or a prefix when it ends with `*`
    pub signature: String,
    /// "known" or "fixed"
    pub status: String,
    #[serde(default)]
    pub commit: Option<String>,
    pub what: String,
}

#[derive(Debug, Clone, Default, Serialize, Deserialize)]
pub struct KnownFindings {
    #[serde(default)]
    pub findings: Vec<Finding>,
    #[serde(default)]
    pub log: Vec<String>,
}

impl KnownFindings {
    pub fn load() -> Self {
        let p = verif_root().join("known_findings.json");
        match std::fs::read_to_string(&p) {
            Ok(s) => serde_json::from_str(&s).unwrap_or_else(|e| {
                eprintln!("known_findings.json unreadable: {e}");
                std::process::exit(3)
            }),
            Err(_) => Self::default(),
        }
    }
    /// A `known` entry matches when the signature matches; the entry's property
    /// may be the running property or `C02` (panics/aborts/hangs are C02's
    /// subject and a known C02 finding must not be re-reported by every other
    /// check whose generator happens to reach it).
    pub fn matches(&self, prop: &str, sig: &str) -> Option<&Finding> {
        self.findings.iter().find(|f| {
            f.status == "known"
                && (f.property == prop || (f.property == "C02" && sig.starts_with("panic:")))
                && (f.signature == sig
                    || (f.signature.ends_with('*')
                        && sig.starts_with(&f.signature[..f.signature.len() - 1])))
        })
    }
}

// ---------------------------------------------------------------------------
// Statistics
// ---------------------------------------------------------------------------

#[derive(Debug, Clone, Default, Serialize, Deserialize)]
pub struct SubStats {
    pub evaluations: u64,
    pub nontrivial: BTreeSet<u64>,
    pub classes: BTreeMap<String, u64>,
    pub dont_care: BTreeMap<String, u64>,
    pub inconclusive: BTreeMap<String, u64>,
    pub excluded_known: BTreeMap<String, u64>,
    pub samples: Vec<Value>,
    pub class_samples: BTreeMap<String, Value>,
    pub exhaustive: Option<bool>,
    pub notes: Vec<String>,
}

#[derive(Debug, Clone, Serialize, Deserialize)]
pub struct Failure {
    pub sub: String,
    pub signature: String,
    pub detail: String,
    pub replay: String,
}

#[derive(Debug, Clone, Default, Serialize, Deserialize)]
pub struct LaneResult {
    #[serde(default)]
    pub counters: BTreeMap<String, u64>,
    pub subs: BTreeMap<String, SubStats>,
    pub failures: Vec<Failure>,
    pub known_hits: BTreeMap<String, String>, // signature -> what
    pub wall_s: f64,
    pub rule: BTreeMap<String, String>,
    pub assumptions: Vec<String>,
}

pub struct LaneCtx {
    pub prop: String,
    pub tier: Tier,
    pub seed: u64,
    pub lane: u32,
    pub lanes: u32,
    pub scale: f64,
    pub known: KnownFindings,
    pub result: LaneResult,
    pub strict: bool,
    pub only_sub: Option<String>,
    /// E4 generic mode: decode ONE case of sub-check `only_sub` from the given byte string
    /// (vcore::bytede) and judge it; the result is left in `fuzz_out`.
    pub fuzz_bytes: Option<Vec<u8>>,
    pub fuzz_out: Option<(Value, Verdict)>,
}

#[derive(Debug, Clone, Copy, PartialEq, Eq)]
pub enum Tier {
    Quick,
    Thorough,
}
impl Tier {
    pub fn name(self) -> &'static str {
        match self {
            Tier::Quick => "quick",
            Tier::Thorough => "thorough",
        }
    }
}

// Panic capture: a global hook stores location+message of the last panic of
// this thread so a caught panic gets a stable signature.
thread_local! {
    static LAST_PANIC: RefCell<Option<(String, String)>> = const { RefCell::new(None) };
}
static HOOK_INSTALLED: Mutex<bool> = Mutex::new(false);

pub fn install_panic_hook() {
    let mut g = HOOK_INSTALLED.lock().unwrap();
    if *g {
        return;
    }
    *g = true;
    std::panic::set_hook(Box::new(|info| {
        let loc = info
            .location()
            .map(|l| format!("{}:{}", l.file(), l.line()))
            .unwrap_or_else(|| "?".into());
        let msg = if let Some(s) = info.payload().downcast_ref::<&str>() {
            s.to_string()
        } else if let Some(s) = info.payload().downcast_ref::<String>() {
            s.clone()
        } else {
            "<non-string panic>".into()
        };
        LAST_PANIC.with(|p| *p.borrow_mut() = Some((loc, msg)));
    }));
}

/// Normalises a panic location: strips the registry prefix and, for files in
/// the code under test, keeps the path relative to the repository root.
fn norm_loc(loc: &str) -> String {
    if let Some(r) = loc.strip_prefix("/repo/") {
        return r.to_string();
    }
    // the code under test may be built from another checkout (VERIF_REPO: snapshot sweeps, mutation runs)
    if let Ok(root) = std::env::var("VERIF_REPO") {
        if !root.is_empty() {
            if let Some(r) = loc.strip_prefix(&format!("{}/", root.trim_end_matches('/'))) {
                return r.to_string();
            }
        }
    }
    if let Some(i) = loc.find("/registry/src/") {
        if let Some(j) = loc[i + 14..].find('/') {
            return format!("dep:{}", &loc[i + 14 + j + 1..]);
        }
    }
    if loc.starts_with("/rustc/") || loc.starts_with("/root/.rustup/") {
        return format!("std:{}", loc.rsplit('/').next().unwrap_or(loc));
    }
    // anything else is the harness itself
    format!("harness:{loc}")
}

/// Runs `f`, converting a panic into `Err((location, message))`.
pub fn catch<R>(f: impl FnOnce() -> R) -> Result<R, (String, String)> {
    install_panic_hook();
    LAST_PANIC.with(|p| *p.borrow_mut() = None);
    match catch_unwind(AssertUnwindSafe(f)) {
        Ok(r) => Ok(r),
        Err(_) => {
            let (loc, msg) = LAST_PANIC
                .with(|p| p.borrow_mut().take())
                .unwrap_or_else(|| ("?".into(), "?".into()));
            Err((norm_loc(&loc), msg))
        }
    }
}

/// Signature for a panic: location without the line for harness-internal
/// robustness?  No: file:line of the code under test is the root cause key.
pub fn panic_sig(loc: &str) -> String {
    format!("panic:{loc}")
}

/// A panic that escaped a check closure: in the code under test (or one of its
/// dependencies) it is a violation; in the harness itself it is a harness bug,
/// reported loudly as inconclusive, never as a violation.
pub fn panic_verdict(loc: &str, msg: &str) -> Verdict {
    if loc.starts_with("harness:") {
        eprintln!("HARNESS PANIC at {loc}: {msg}");
        Verdict::Inconclusive(format!("harness panic at {loc}"))
    } else {
        Verdict::viol(panic_sig(loc), format!("panic: {msg}"))
    }
}

fn truncate_value(v: &Value, depth: usize) -> Value {
    match v {
        Value::Array(a) => {
            if a.len() > 48 {
                let mut out: Vec<Value> = a.iter().take(24).map(|x| truncate_value(x, depth + 1)).collect();
                out.push(Value::String(format!("...({} elements total)", a.len())));
                Value::Array(out)
            } else {
                Value::Array(a.iter().map(|x| truncate_value(x, depth + 1)).collect())
            }
        }
        Value::Object(o) => Value::Object(
            o.iter()
                .map(|(k, x)| (k.clone(), truncate_value(x, depth + 1)))
                .collect(),
        ),
        Value::String(s) if s.len() > 400 => {
            let mut e = 200;
            while !s.is_char_boundary(e) {
                e -= 1;
            }
            Value::String(format!("{}...({} bytes)", &s[..e], s.len()))
        }
        _ => v.clone(),
    }
}

pub struct SubSpec<C> {
    pub name: &'static str,
    /// total number of cases over all lanes for (quick, thorough)
    pub cases: (u64, u64),
    pub rule: &'static str,
    pub strategy: BoxedStrategy<C>,
    pub max_shrink_iters: u32,
    /// write the case to disk before running it (so that an abort/hang of the
    /// lane process is attributable)
    pub log_current: bool,
}

impl LaneCtx {
    pub fn for_fuzz(prop: &str, sub: &str, bytes: &[u8], known: KnownFindings) -> Self {
        LaneCtx {
            prop: prop.to_string(),
            tier: Tier::Quick,
            seed: 0,
            lane: 0,
            lanes: 1,
            scale: 1.0,
            known,
            result: LaneResult::default(),
            strict: true,
            only_sub: Some(sub.to_string()),
            fuzz_bytes: Some(bytes.to_vec()),
            fuzz_out: None,
        }
    }

    pub fn cases_for(&self, cases: (u64, u64)) -> u64 {
        let total = match self.tier {
            Tier::Quick => cases.0,
            Tier::Thorough => ((cases.1 as f64) * self.scale) as u64,
        };
        let base = total / self.lanes as u64;
        let rem = total % self.lanes as u64;
        base + if (self.lane as u64) < rem { 1 } else { 0 }
    }

    pub fn rng_for(&self, name: &str) -> TestRng {
        let mut seed = [0u8; 32];
        seed[0..8].copy_from_slice(&self.seed.to_le_bytes());
        seed[8..12].copy_from_slice(&self.lane.to_le_bytes());
        seed[12..20].copy_from_slice(&fingerprint(&name).to_le_bytes());
        seed[20..28].copy_from_slice(&fingerprint(&self.prop).to_le_bytes());
        TestRng::from_seed(RngAlgorithm::ChaCha, &seed)
    }

    pub fn out_dir(&self) -> PathBuf {
        let p = verif_root().join("out").join(&self.prop);
        let _ = std::fs::create_dir_all(&p);
        p
    }

    pub fn wants(&self, name: &str) -> bool {
        self.only_sub.as_deref().map(|s| s == name).unwrap_or(true)
    }

    pub fn assume(&mut self, s: &str) {
        if !self.result.assumptions.iter().any(|a| a == s) {
            self.result.assumptions.push(s.to_string());
        }
    }

    /// Accounts one verdict (used by both generated and enumerated runs).
    /// Returns Err(signature, detail) for an unlisted violation.
    pub fn account(
        &mut self,
        sub: &str,
        case_json: &dyn Fn() -> Value,
        verdict: Verdict,
    ) -> Result<(), (String, String)> {
        let st = self.result.subs.entry(sub.to_string()).or_default();
        st.evaluations += 1;
        match verdict {
            Verdict::Pass {
                nontrivial,
                classes,
            } => {
                if let Some(fp) = nontrivial {
                    st.nontrivial.insert(fp);
                }
                let want_sample = st.samples.len() < 3
                    || classes.iter().any(|c| !st.class_samples.contains_key(c) && st.class_samples.len() < 12);
                let cj = if want_sample {
                    Some(truncate_value(&case_json(), 0))
                } else {
                    None
                };
                if let Some(cj) = &cj {
                    if st.samples.len() < 3 {
                        st.samples.push(cj.clone());
                    }
                }
                for c in classes {
                    *st.classes.entry(c.clone()).or_default() += 1;
                    if let Some(cj) = &cj {
                        if st.class_samples.len() < 12 {
                            st.class_samples.entry(c).or_insert_with(|| cj.clone());
                        }
                    }
                }
                Ok(())
            }
            Verdict::DontCare(why) => {
                *st.dont_care.entry(why).or_default() += 1;
                Ok(())
            }
            Verdict::Inconclusive(why) => {
                *st.inconclusive.entry(why).or_default() += 1;
                Ok(())
            }
            Verdict::Violation { signature, detail } => {
                if !self.strict {
                    if let Some(f) = self.known.matches(&self.prop, &signature) {
                        *st.excluded_known.entry(signature.clone()).or_default() += 1;
                        self.result
                            .known_hits
                            .entry(signature)
                            .or_insert_with(|| f.what.clone());
                        return Ok(());
                    }
                }
                Err((signature, detail))
            }
        }
    }

    /// Drives one generated sub-check on this lane.
    pub fn run_sub<C>(&mut self, spec: SubSpec<C>, mut f: impl FnMut(&C) -> Verdict)
    where
        C: std::fmt::Debug + Clone + Serialize + DeserializeOwned + 'static,
    {
        if !self.wants(spec.name) {
            return;
        }
        self.result
            .rule
            .insert(spec.name.to_string(), spec.rule.to_string());
        if let Some(bytes) = self.fuzz_bytes.clone() {
            // E4 generic mode: the case is decoded structure-aware from the fuzz bytes (vcore::bytede)
            if let Ok(case) = crate::vcore::bytede::from_bytes::<C>(&bytes) {
                let verdict = match catch(|| f(&case)) {
                    Ok(v) => v,
                    Err((loc, msg)) => panic_verdict(&loc, &msg),
                };
                self.fuzz_out = Some((serde_json::to_value(&case).unwrap_or(Value::Null), verdict));
            }
            return;
        }
        let n = self.cases_for(spec.cases);
        if n == 0 {
            return;
        }
        let cfg = Config {
            cases: n as u32,
            failure_persistence: None,
            max_shrink_iters: spec.max_shrink_iters,
            max_local_rejects: 1 << 20,
            max_global_rejects: 1 << 20,
            verbose: 0,
            ..Config::default()
        };
        let mut runner = TestRunner::new_with_rng(cfg, self.rng_for(spec.name));
        let cur_path = self.out_dir().join(format!("current_lane{}.json", self.lane));
        let failed = RefCell::new(false);
        let last_fail: RefCell<Option<(String, String)>> = RefCell::new(None);
        let sub = spec.name;
        let prop = self.prop.clone();
        let this = RefCell::new(&mut *self);
        let f = RefCell::new(&mut f);
        let res = runner.run(&spec.strategy, |case| {
            if spec.log_current {
                let _ = std::fs::write(
                    &cur_path,
                    serde_json::to_vec(&json!({"property": prop, "sub": sub, "case": &case})).unwrap(),
                );
            }
            let verdict = match catch(|| (f.borrow_mut())(&case)) {
                Ok(v) => v,
                Err((loc, msg)) => panic_verdict(&loc, &msg),
            };
            let mut me = this.borrow_mut();
            if *failed.borrow() {
                // shrinking phase: do not count, only classify
                return match verdict {
                    Verdict::Violation { signature, detail } => {
                        if !me.strict && me.known.matches(&me.prop, &signature).is_some() {
                            Ok(())
                        } else {
                            *last_fail.borrow_mut() = Some((signature.clone(), detail));
                            Err(TestCaseError::fail(signature))
                        }
                    }
                    _ => Ok(()),
                };
            }
            let cj = || serde_json::to_value(&case).unwrap_or(Value::Null);
            match me.account(sub, &cj, verdict) {
                Ok(()) => Ok(()),
                Err((sig, detail)) => {
                    *failed.borrow_mut() = true;
                    *last_fail.borrow_mut() = Some((sig.clone(), detail));
                    Err(TestCaseError::fail(sig))
                }
            }
        });
        drop(this);
        if spec.log_current {
            let _ = std::fs::remove_file(&cur_path);
        }
        match res {
            Ok(()) => {}
            Err(TestError::Fail(_reason, case)) => {
                let (sig, detail) = last_fail
                    .borrow_mut()
                    .take()
                    .unwrap_or_else(|| ("unknown".into(), String::new()));
                let replay = self.write_replay(sub, &serde_json::to_value(&case).unwrap(), &sig, &detail);
                self.result.failures.push(Failure {
                    sub: sub.to_string(),
                    signature: sig,
                    detail,
                    replay,
                });
            }
            Err(TestError::Abort(reason)) => {
                let st = self.result.subs.entry(sub.to_string()).or_default();
                *st.inconclusive
                    .entry(format!("proptest abort: {reason}"))
                    .or_default() += 1;
            }
        }
    }

    /// Drives an enumerated (exhaustive) sub-check; the iterator is sharded
    /// over the lanes by index.
    pub fn run_enum<C>(
        &mut self,
        name: &'static str,
        rule: &'static str,
        cases: impl Iterator<Item = C>,
        mut f: impl FnMut(&C) -> Verdict,
    ) where
        C: std::fmt::Debug + Clone + Serialize + DeserializeOwned + 'static,
    {
        if !self.wants(name) || self.fuzz_bytes.is_some() {
            return;
        }
        self.result.rule.insert(name.to_string(), rule.to_string());
        let mut complete = true;
        for (i, case) in cases.enumerate() {
            if (i as u32) % self.lanes != self.lane {
                continue;
            }
            let verdict = match catch(|| f(&case)) {
                Ok(v) => v,
                Err((loc, msg)) => panic_verdict(&loc, &msg),
            };
            let cj = || serde_json::to_value(&case).unwrap_or(Value::Null);
            if let Err((sig, detail)) = self.account(name, &cj, verdict) {
                let replay = self.write_replay(name, &serde_json::to_value(&case).unwrap(), &sig, &detail);
                self.result.failures.push(Failure {
                    sub: name.to_string(),
                    signature: sig,
                    detail,
                    replay,
                });
                complete = false;
                break;
            }
        }
        let st = self.result.subs.entry(name.to_string()).or_default();
        st.exhaustive = Some(complete);
    }

    pub fn write_replay(&self, sub: &str, case: &Value, sig: &str, detail: &str) -> String {
        let dir = verif_root().join("out").join("violations");
        let _ = std::fs::create_dir_all(&dir);
        let h = fingerprint(&(sub, case.to_string(), sig));
        let p = dir.join(format!("{}-{}-{:016x}.json", self.prop, sub, h));
        let body = json!({
            "property": self.prop,
            "sub": sub,
            "seed": self.seed,
            "tier": self.tier.name(),
            "signature": sig,
            "detail": detail,
            "case": case,
        });
        let _ = std::fs::write(&p, serde_json::to_vec_pretty(&body).unwrap());
        p.to_string_lossy().into_owned()
    }
}

/// Replay helper used by property modules: deserialise `case` and run `f`
/// strictly (known findings are not tolerated).
pub fn replay_case<C: DeserializeOwned>(case: &Value, f: impl FnOnce(&C) -> Verdict) -> Verdict {
    let c: C = match serde_json::from_value(case.clone()) {
        Ok(c) => c,
        Err(e) => return Verdict::Inconclusive(format!("replay file does not deserialise: {e}")),
    };
    match catch(|| f(&c)) {
        Ok(v) => v,
        Err((loc, msg)) => panic_verdict(&loc, &msg),
    }
}

pub fn boxed<S: Strategy + 'static>(s: S) -> BoxedStrategy<S::Value> {
    s.boxed()
}

// ---------------------------------------------------------------------------
// Evidence (parent side)
// ---------------------------------------------------------------------------

pub struct Merged {
    pub counters: BTreeMap<String, u64>,
    pub subs: BTreeMap<String, SubStats>,
    pub failures: Vec<Failure>,
    pub known_hits: BTreeMap<String, String>,
    pub rule: BTreeMap<String, String>,
    pub assumptions: Vec<String>,
}

pub fn merge(results: Vec<LaneResult>) -> Merged {
    let mut m = Merged {
        counters: BTreeMap::new(),
        subs: BTreeMap::new(),
        failures: vec![],
        known_hits: BTreeMap::new(),
        rule: BTreeMap::new(),
        assumptions: vec![],
    };
    for r in results {
        for (k, n) in r.counters {
            *m.counters.entry(k).or_default() += n;
        }
        for (k, s) in r.subs {
            let d = m.subs.entry(k).or_default();
            d.evaluations += s.evaluations;
            d.nontrivial.extend(s.nontrivial);
            for (c, n) in s.classes {
                *d.classes.entry(c).or_default() += n;
            }
            for (c, n) in s.dont_care {
                *d.dont_care.entry(c).or_default() += n;
            }
            for (c, n) in s.inconclusive {
                *d.inconclusive.entry(c).or_default() += n;
            }
            for (c, n) in s.excluded_known {
                *d.excluded_known.entry(c).or_default() += n;
            }
            for v in s.samples {
                if d.samples.len() < 3 {
                    d.samples.push(v);
                }
            }
            for (c, v) in s.class_samples {
                if d.class_samples.len() < 10 {
                    d.class_samples.entry(c).or_insert(v);
                }
            }
            d.exhaustive = match (d.exhaustive, s.exhaustive) {
                (None, x) => x,
                (x, None) => x,
                (Some(a), Some(b)) => Some(a && b),
            };
            d.notes.extend(s.notes);
        }
        m.failures.extend(r.failures);
        m.known_hits.extend(r.known_hits);
        m.rule.extend(r.rule);
        for a in r.assumptions {
            if !m.assumptions.contains(&a) {
                m.assumptions.push(a);
            }
        }
    }
    m
}

pub fn write_evidence(
    prop: &str,
    tier: Tier,
    seed: u64,
    level: &str,
    m: &Merged,
    wall_s: f64,
    extra_violations: usize,
    extra_assumptions: &[String],
) {
    let evaluations: u64 = m.subs.values().map(|s| s.evaluations).sum();
    let distinct: usize = m.subs.values().map(|s| s.nontrivial.len()).sum();
    let mut samples: Vec<Value> = vec![];
    for (k, s) in &m.subs {
        for v in s.samples.iter().take(2) {
            samples.push(json!({"sub": k, "case": v}));
        }
        for (c, v) in s.class_samples.iter().take(4) {
            samples.push(json!({"sub": k, "class": c, "case": v}));
        }
    }
    let rule: String = m
        .rule
        .iter()
        .map(|(k, v)| format!("[{k}] {v}"))
        .collect::<Vec<_>>()
        .join(" ;; ");
    let per_sub: BTreeMap<&String, Value> = m
        .subs
        .iter()
        .map(|(k, s)| {
            (
                k,
                json!({
                    "evaluations": s.evaluations,
                    "distinct_nontrivial": s.nontrivial.len(),
                    "classes": s.classes,
                    "dont_care": s.dont_care,
                    "inconclusive": s.inconclusive,
                    "excluded_known": s.excluded_known,
                    "exhaustive": s.exhaustive,
                    "notes": s.notes.iter().take(8).collect::<Vec<_>>(),
                }),
            )
        })
        .collect();
    let all_exh = !m.subs.is_empty() && m.subs.values().all(|s| s.exhaustive == Some(true));
    let mut assumptions = m.assumptions.clone();
    assumptions.extend(extra_assumptions.iter().cloned());
    let ev = json!({
        "property_id": prop,
        "tier": tier.name(),
        "seed": seed,
        "level": level,
        "coverage": {
            "evaluations": evaluations,
            "distinct_nontrivial": distinct,
            "rule": rule,
            "samples": samples,
            "exhaustive": all_exh,
            "per_sub": per_sub,
            "counters": m.counters,
            "known_findings_hit": m.known_hits,
        },
        "assumptions": assumptions,
        "wall_s": wall_s,
        "violations": m.failures.len() + extra_violations,
    });
    let dir = verif_root().join("evidence");
    let _ = std::fs::create_dir_all(&dir);
    let p = dir.join(format!("{prop}.json"));
    std::fs::write(&p, serde_json::to_vec_pretty(&ev).unwrap()).expect("write evidence");
}

// ---------------------------------------------------------------------------
// Watchdog for calls that may loop without bound
// ---------------------------------------------------------------------------

fn cpu_seconds() -> f64 {
    unsafe {
        let mut ru: libc::rusage = std::mem::zeroed();
        libc::getrusage(libc::RUSAGE_SELF, &mut ru);
        ru.ru_utime.tv_sec as f64 + ru.ru_utime.tv_usec as f64 / 1e6 + ru.ru_stime.tv_sec as f64 + ru.ru_stime.tv_usec as f64 / 1e6
    }
}

pub const EXIT_HANG: i32 = 42;
pub const EXIT_BLOCKED: i32 = 43;

/// Runs `f` under a watchdog.  If `f` has not returned after `secs` seconds of
/// wall time the process exits: with code 42 when it burned CPU for most of
/// that time (a loop without bound), with 43 when it was merely blocked.  The
/// parent attributes the exit to the case logged in `current_lane*.json`.
pub fn with_watchdog<R>(secs: f64, f: impl FnOnce() -> R) -> R {
    use std::sync::atomic::{AtomicBool, Ordering};
    use std::sync::Arc;
    let done = Arc::new(AtomicBool::new(false));
    let d2 = done.clone();
    let cpu0 = cpu_seconds();
    let h = std::thread::spawn(move || {
        let t0 = std::time::Instant::now();
        while !d2.load(Ordering::SeqCst) {
            std::thread::sleep(std::time::Duration::from_millis(20));
            let el = t0.elapsed().as_secs_f64();
            if el > secs {
                let cpu = cpu_seconds() - cpu0;
                let code = if cpu > 0.7 * el { EXIT_HANG } else { EXIT_BLOCKED };
                eprintln!("watchdog: call exceeded {secs}s (cpu {cpu:.1}s) -> exit {code}");
                unsafe { libc::_exit(code) };
            }
        }
    });
    let r = f();
    done.store(true, Ordering::SeqCst);
    let _ = h.join();
    r
}
