//! vcheck: property-based / fuzz verification driver for minidump-writer.
//!
//!   vcheck run <ID> <quick|thorough>          parent: lanes + evidence + verdict
//!   vcheck lane <ID> <tier> <lane> <lanes> <seed> <out.json> [sub]
//!   vcheck replay <file.json>                 strict replay of one saved case
//!   vcheck replay-saved <ID> <out.json>       replay /verif/replays/<ID>/*.json
//!   vcheck helper <kind> ...                  helper processes (idle child, arena)

use vcheck::fw::*;
use vcheck::{props, vcore};
use serde_json::Value;
use std::path::{Path, PathBuf};
use std::process::{Command, Stdio};
use std::time::{Duration, Instant};

fn env_u64(k: &str, d: u64) -> u64 {
    std::env::var(k).ok().and_then(|s| s.parse().ok()).unwrap_or(d)
}

fn tier_of(s: &str) -> Tier {
    match s {
        "quick" => Tier::Quick,
        "thorough" => Tier::Thorough,
        _ => {
            eprintln!("tier must be quick|thorough");
            std::process::exit(3)
        }
    }
}

fn main() {
    let args: Vec<String> = std::env::args().collect();
    if args.len() < 2 {
        eprintln!("usage: vcheck run|lane|replay|replay-saved|helper ...");
        std::process::exit(3);
    }
    match args[1].as_str() {
        "run" => std::process::exit(parent(&args[2], tier_of(&args[3]))),
        "lane" => lane_main(&args[2..]),
        "replay" => std::process::exit(replay_one(Path::new(&args[2]), true)),
        "replay-saved" => replay_saved(&args[2], Path::new(&args[3])),
        "helper" => vcore::helpers::helper_main(&args[2..]),
        // vcheck bytede-audit <ID> <sub> <n> <seed>: random byte strings through the generic fuzz entry (domain audit)
        "bytede-audit" => {
            install_panic_hook();
            let (prop, sub) = (&args[2], &args[3]);
            let n: u64 = args[4].parse().unwrap();
            let mut x: u64 = args[5].parse::<u64>().unwrap() | 1;
            let mut tally: std::collections::BTreeMap<String, u64> = Default::default();
            let mut shown = 0;
            for _ in 0..n {
                let mut next = || {
                    x ^= x << 13;
                    x ^= x >> 7;
                    x ^= x << 17;
                    x.wrapping_mul(0x2545_f491_4f6c_dd1d)
                };
                let len = (next() % 1500) as usize;
                let style = next() % 4;
                let bytes: Vec<u8> = (0..len).map(|_| { let v = next(); match style { 0 => v as u8, 1 => (v as u8) & 0x0f, 2 => if v & 3 == 0 { v as u8 } else { 0 }, _ => if v & 1 == 0 { 0xff } else { (v >> 8) as u8 } } }).collect();
                let key = match props::fuzz_entry::generic_verdict(prop, sub, &bytes) {
                    None => "undecodable".to_string(),
                    Some((_, Verdict::Pass { nontrivial, .. })) => format!("pass(nontrivial={})", nontrivial.is_some()),
                    Some((_, Verdict::DontCare(w))) => format!("dontcare:{w}"),
                    Some((case, Verdict::Inconclusive(w))) => {
                        if shown < 5 { shown += 1; eprintln!("INCONCLUSIVE {w}\n  case {}", case.to_string().chars().take(600).collect::<String>()); }
                        format!("inconclusive:{}", w.chars().take(60).collect::<String>())
                    }
                    Some((case, Verdict::Violation { signature, detail })) => {
                        if shown < 5 { shown += 1; eprintln!("VIOLATION {signature}: {}\n  case {}", detail.chars().take(400).collect::<String>(), case.to_string().chars().take(600).collect::<String>()); }
                        format!("violation:{signature}")
                    }
                };
                *tally.entry(key).or_default() += 1;
            }
            vcore::helpers::shutdown();
            for (k, v) in tally { println!("{v:>8}  {k}"); }
        }
        _ => {
            eprintln!("unknown subcommand");
            std::process::exit(3)
        }
    }
}

fn lane_main(a: &[String]) {
    let prop = a[0].clone();
    let tier = tier_of(&a[1]);
    let lane: u32 = a[2].parse().unwrap();
    let lanes: u32 = a[3].parse().unwrap();
    let seed: u64 = a[4].parse().unwrap();
    let out = PathBuf::from(&a[5]);
    let only_sub = a.get(6).cloned();
    let scale = std::env::var("VERIF_SCALE")
        .ok()
        .and_then(|s| s.parse::<f64>().ok())
        .unwrap_or(1.0);
    install_panic_hook();
    let mut ctx = LaneCtx {
        prop: prop.clone(),
        tier,
        seed,
        lane,
        lanes,
        scale,
        known: KnownFindings::load(),
        result: LaneResult::default(),
        strict: false,
        only_sub,
        fuzz_bytes: None,
        fuzz_out: None,
    };
    let t0 = Instant::now();
    props::run(&prop, &mut ctx);
    ctx.result.wall_s = t0.elapsed().as_secs_f64();
    ctx.result.counters = take_counters();
    std::fs::write(&out, serde_json::to_vec(&ctx.result).unwrap()).expect("write lane result");
    vcore::helpers::shutdown();
}

/// Replays one saved case.  `strict`: known findings are not tolerated and the
/// verdict is printed verbosely.
fn replay_one(path: &Path, strict: bool) -> i32 {
    install_panic_hook();
    let body: Value = match std::fs::read(path).ok().and_then(|b| serde_json::from_slice(&b).ok()) {
        Some(v) => v,
        None => {
            eprintln!("cannot read replay file {}", path.display());
            return 3;
        }
    };
    let prop = body["property"].as_str().unwrap_or("").to_string();
    let sub = body["sub"].as_str().unwrap_or("").to_string();
    let v = props::replay(&prop, &sub, &body["case"]);
    vcore::helpers::shutdown();
    match v {
        Verdict::Violation { signature, detail } => {
            if strict {
                println!("replay: VIOLATED signature={signature}\n  detail: {detail}");
                println!("VIOLATION property={} replay={}", prop, path.display());
            }
            1
        }
        Verdict::Inconclusive(w) => {
            if strict {
                println!("replay: inconclusive: {w}");
            }
            2
        }
        other => {
            if strict {
                println!("replay: holds ({other:?})");
            }
            0
        }
    }
}

#[derive(serde::Serialize, serde::Deserialize, Default)]
struct SavedReport {
    replayed: u64,
    failures: Vec<Failure>,
    known_hits: std::collections::BTreeMap<String, String>,
    inconclusive: u64,
}

fn replay_saved(prop: &str, out: &Path) {
    install_panic_hook();
    let known = KnownFindings::load();
    let dir = verif_root().join("replays").join(prop);
    let mut rep = SavedReport::default();
    let mut files: Vec<PathBuf> = std::fs::read_dir(&dir)
        .map(|d| d.filter_map(|e| e.ok()).map(|e| e.path()).collect())
        .unwrap_or_default();
    files.sort();
    for f in files {
        if f.extension().map(|e| e != "json").unwrap_or(true) {
            continue;
        }
        let body: Value = match std::fs::read(&f).ok().and_then(|b| serde_json::from_slice(&b).ok()) {
            Some(v) => v,
            None => continue,
        };
        let sub = body["sub"].as_str().unwrap_or("").to_string();
        rep.replayed += 1;
        // progress marker so that a crash of this process is attributable
        let _ = std::fs::write(out.with_extension("current"), f.to_string_lossy().as_bytes());
        match props::replay(prop, &sub, &body["case"]) {
            Verdict::Violation { signature, detail } => {
                if let Some(k) = known.matches(prop, &signature) {
                    rep.known_hits.insert(signature, k.what.clone());
                } else {
                    rep.failures.push(Failure {
                        sub,
                        signature,
                        detail,
                        replay: f.to_string_lossy().into_owned(),
                    });
                }
            }
            Verdict::Inconclusive(_) => rep.inconclusive += 1,
            _ => {}
        }
    }
    let _ = std::fs::remove_file(out.with_extension("current"));
    std::fs::write(out, serde_json::to_vec(&rep).unwrap()).unwrap();
    vcore::helpers::shutdown();
}

fn wait_with_deadline(child: &mut std::process::Child, deadline: Instant) -> Option<std::process::ExitStatus> {
    loop {
        match child.try_wait() {
            Ok(Some(st)) => return Some(st),
            Ok(None) => {
                if Instant::now() > deadline {
                    let _ = child.kill();
                    let _ = child.wait();
                    return None;
                }
                std::thread::sleep(Duration::from_millis(20));
            }
            Err(_) => return None,
        }
    }
}

fn parent(prop: &str, tier: Tier) -> i32 {
    let t0 = Instant::now();
    let seed = env_u64("VERIF_SEED", 0);
    let lanes = env_u64("VERIF_LANES", 16) as u32;
    let info = match props::info(prop) {
        Some(i) => i,
        None => {
            eprintln!("unknown property {prop}");
            return 3;
        }
    };
    let exe = std::env::current_exe().unwrap();
    let out_dir = verif_root().join("out").join(prop);
    let _ = std::fs::remove_dir_all(&out_dir);
    std::fs::create_dir_all(&out_dir).unwrap();
    if let Ok(rd) = std::fs::read_dir(verif_root().join("out").join("violations")) {
        for e in rd.filter_map(|e| e.ok()) {
            if e.file_name().to_string_lossy().starts_with(&format!("{prop}-")) {
                let _ = std::fs::remove_file(e.path());
            }
        }
    }
    let known = KnownFindings::load();
    let mut violations: Vec<(String, String)> = vec![]; // (signature, replay path)
    let mut known_lines: std::collections::BTreeMap<String, String> = Default::default();
    let mut inconclusive: Vec<String> = vec![];
    let mut extra_assumptions: Vec<String> = vec![];

    // 1. saved-input replay tier
    let saved_out = out_dir.join("saved.json");
    let mut saved = Command::new(&exe)
        .args(["replay-saved", prop, saved_out.to_str().unwrap()])
        .stdout(Stdio::null())
        .spawn()
        .expect("spawn replay-saved");
    let st = wait_with_deadline(&mut saved, Instant::now() + Duration::from_secs(300));
    let saved_rep: Option<SavedReport> = std::fs::read(&saved_out)
        .ok()
        .and_then(|b| serde_json::from_slice(&b).ok());
    match (st, saved_rep) {
        (Some(s), Some(rep)) if s.success() => {
            for f in rep.failures {
                violations.push((f.signature, f.replay));
            }
            known_lines.extend(rep.known_hits);
            extra_assumptions.push(format!("saved-input tier: {} regression inputs replayed", rep.replayed));
        }
        (st, _) => {
            // died or hung while replaying a saved input
            let cur = std::fs::read_to_string(saved_out.with_extension("current")).unwrap_or_default();
            if st.is_none() {
                inconclusive.push(format!("saved-input replay timed out at {cur}"));
            } else if !cur.is_empty() {
                let sig = format!("abort:replay:{}", Path::new(&cur).file_name().map(|s| s.to_string_lossy().into_owned()).unwrap_or_default());
                if let Some(k) = known.matches(prop, &sig) {
                    known_lines.insert(sig, k.what.clone());
                } else {
                    violations.push((sig, cur));
                }
            } else {
                inconclusive.push("saved-input replay process failed".into());
            }
        }
    }

    props::prepare(prop);
    // 2. generated tiers on `lanes` processes
    let budget = match tier {
        Tier::Quick => Duration::from_secs(env_u64("VERIF_QUICK_BUDGET_S", 900)),
        Tier::Thorough => Duration::from_secs(env_u64("VERIF_THOROUGH_BUDGET_S", 3 * 3600)),
    };
    let deadline = Instant::now() + budget;
    let mut children = vec![];
    for lane in 0..lanes {
        let out = out_dir.join(format!("lane_{lane}.json"));
        let mut cmd = Command::new(&exe);
        cmd.args([
            "lane",
            prop,
            tier.name(),
            &lane.to_string(),
            &lanes.to_string(),
            &seed.to_string(),
            out.to_str().unwrap(),
        ]);
        if let Ok(s) = std::env::var("VERIF_SUB") {
            cmd.arg(s);
        }
        cmd.stdout(Stdio::null());
        children.push((lane, out, cmd.spawn().expect("spawn lane")));
    }
    let mut results = vec![];
    for (lane, out, mut child) in children {
        let st = wait_with_deadline(&mut child, deadline);
        let res: Option<LaneResult> = std::fs::read(&out).ok().and_then(|b| serde_json::from_slice(&b).ok());
        match (st, res) {
            (Some(s), Some(r)) if s.success() => results.push(r),
            (st, _) => {
                let cur = out_dir.join(format!("current_lane{lane}.json"));
                if st.is_none() {
                    inconclusive.push(format!("lane {lane} exceeded the wall-clock budget"));
                    continue;
                }
                let st = st.unwrap();
                if cur.exists() {
                    // attribute the death to the logged case; confirm by replaying it alone
                    let body: Value = std::fs::read(&cur).ok().and_then(|b| serde_json::from_slice(&b).ok()).unwrap_or(Value::Null);
                    let dir = verif_root().join("out").join("violations");
                    let _ = std::fs::create_dir_all(&dir);
                    let p = dir.join(format!("{prop}-abort-lane{lane}.json"));
                    let _ = std::fs::write(&p, serde_json::to_vec_pretty(&body).unwrap());
                    let mut again = Command::new(&exe)
                        .args(["replay", p.to_str().unwrap()])
                        .stdout(Stdio::null())
                        .stderr(Stdio::null())
                        .spawn()
                        .expect("spawn replay");
                    let st2 = wait_with_deadline(&mut again, Instant::now() + Duration::from_secs(120));
                    use std::os::unix::process::ExitStatusExt;
                    match st2 {
                        Some(s2) if s2.code() == Some(EXIT_HANG) => {
                            let sig = format!("hang:{}", body["sub"].as_str().unwrap_or(""));
                            if let Some(k) = known.matches(prop, &sig) {
                                known_lines.insert(sig, k.what.clone());
                            } else {
                                violations.push((sig, p.to_string_lossy().into_owned()));
                            }
                        }
                        Some(s2) if s2.code() == Some(EXIT_BLOCKED) => {
                            inconclusive.push(format!("lane {lane}: a call blocked past its watchdog (low CPU)"));
                        }
                        Some(s2) if s2.signal().is_some() || s2.code() == Some(101) || s2.code() == Some(134) => {
                            let sig = format!("abort:{}:{:?}/{:?}", body["sub"].as_str().unwrap_or(""), s2.signal(), s2.code());
                            if let Some(k) = known.matches(prop, &sig) {
                                known_lines.insert(sig, k.what.clone());
                            } else {
                                violations.push((sig, p.to_string_lossy().into_owned()));
                            }
                        }
                        Some(s2) if s2.code() == Some(1) => {
                            violations.push(("replayed-after-lane-death".into(), p.to_string_lossy().into_owned()));
                        }
                        _ => inconclusive.push(format!("lane {lane} died ({st:?}) but its last case does not reproduce alone")),
                    }
                } else {
                    inconclusive.push(format!("lane {lane} failed ({st:?}) without a logged case"));
                }
            }
        }
    }
    let mut merged = merge(results);
    // E4: crash artifacts of a coverage-guided campaign run by the check script (thorough tier)
    let fuzz_summary = out_dir.parent().unwrap().join("fuzz").join(format!("{prop}.json"));
    if let Some(sum) = std::fs::read(&fuzz_summary).ok().and_then(|b| serde_json::from_slice::<Value>(&b).ok()) {
        for t in sum["targets"].as_array().cloned().unwrap_or_default() {
            let name = t["name"].as_str().unwrap_or("").to_string();
            let sub = t["sub"].as_str().unwrap_or("").to_string();
            *merged.counters.entry(format!("fuzz-execs:{name}")).or_default() += t["execs"].as_u64().unwrap_or(0);
            extra_assumptions.push(format!("coverage-guided campaign {name}: {} executions, {} crash artifacts (libFuzzer, -seed derived from VERIF_SEED; approximately reproducible, saved inputs are the reproducible unit)", t["execs"], t["artifacts"].as_array().map(|a| a.len()).unwrap_or(0)));
            for a in t["artifacts"].as_array().cloned().unwrap_or_default() {
                let Some(path) = a.as_str() else { continue };
                let Ok(bytes) = std::fs::read(path) else { continue };
                let case = serde_json::json!({ "bytes": bytes });
                // judged in a child process under a wall-clock limit: an artifact may be a hang
                let dir = verif_root().join("out").join("violations");
                let _ = std::fs::create_dir_all(&dir);
                let p = dir.join(format!("{prop}-{}-{:016x}.json", sub.replace(':', "-"), fingerprint(&bytes)));
                let _ = std::fs::write(&p, serde_json::to_vec_pretty(&serde_json::json!({"property": prop, "sub": sub, "signature": "", "detail": format!("libFuzzer artifact {path}"), "case": case})).unwrap());
                let mut child = match std::process::Command::new(std::env::current_exe().unwrap()).arg("replay").arg(&p).stdout(std::process::Stdio::piped()).stderr(std::process::Stdio::null()).spawn() {
                    Ok(c) => c,
                    Err(e) => {
                        inconclusive.push(format!("cannot spawn the replay of fuzz artifact {path}: {e}"));
                        continue;
                    }
                };
                let t0 = Instant::now();
                let status = loop {
                    match child.try_wait() {
                        Ok(Some(st)) => break Some(st),
                        Ok(None) if t0.elapsed().as_secs() > 120 => {
                            let _ = child.kill();
                            let _ = child.wait();
                            break None;
                        }
                        Ok(None) => std::thread::sleep(std::time::Duration::from_millis(20)),
                        Err(_) => break None,
                    }
                };
                let mut out = String::new();
                if let Some(mut so) = child.stdout.take() {
                    use std::io::Read;
                    let _ = so.read_to_string(&mut out);
                }
                match status.and_then(|s| s.code()) {
                    Some(1) => {
                        let signature = out.lines().find_map(|l| l.strip_prefix("replay: VIOLATED signature=")).unwrap_or("unknown").to_string();
                        let detail = out.lines().find_map(|l| l.trim().strip_prefix("detail: ")).unwrap_or("").to_string();
                        if let Some(k) = known.matches(prop, &signature) {
                            known_lines.insert(signature, k.what.clone());
                            let _ = std::fs::remove_file(&p);
                        } else {
                            let _ = std::fs::write(&p, serde_json::to_vec_pretty(&serde_json::json!({"property": prop, "sub": sub, "signature": signature, "detail": detail, "case": case})).unwrap());
                            eprintln!("violation [{sub}] {signature}: {detail}");
                            violations.push((signature, p.to_string_lossy().into_owned()));
                        }
                    }
                    None => {
                        let _ = std::fs::remove_file(&p);
                        inconclusive.push(format!("replay of fuzz artifact {path} exceeded 120 s (hang or slow unit; not a verdict)"));
                    }
                    _ => {
                        let _ = std::fs::remove_file(&p);
                        inconclusive.push(format!("fuzz artifact {path} does not reproduce through the oracle"));
                    }
                }
            }
        }
    }
    {
        let mut shown = std::collections::BTreeSet::new();
        for f in &merged.failures {
            violations.push((f.signature.clone(), f.replay.clone()));
            if shown.insert((f.sub.clone(), f.signature.clone())) {
                eprintln!("violation [{}] {}: {}", f.sub, f.signature, f.detail);
            }
        }
    }
    known_lines.extend(merged.known_hits.clone());
    for (sig, what) in &known_lines {
        println!("KNOWN-FINDING: property={prop} {what} [signature {sig}]");
    }
    for i in &inconclusive {
        eprintln!("inconclusive: {i}");
        extra_assumptions.push(format!("inconclusive: {i}"));
    }
    let extra_v = violations.len() - merged.failures.len();
    write_evidence(
        prop,
        tier,
        seed,
        info.level,
        &merged,
        t0.elapsed().as_secs_f64(),
        extra_v,
        &extra_assumptions,
    );
    if !violations.is_empty() {
        // one line per distinct signature
        let mut seen = std::collections::BTreeSet::new();
        for (sig, replay) in &violations {
            if seen.insert(sig.clone()) {
                println!("VIOLATION property={prop} replay={replay}");
            }
        }
        return 1;
    }
    if !inconclusive.is_empty() {
        println!("INCONCLUSIVE property={prop}");
        return 2;
    }
    let ev: u64 = merged.subs.values().map(|s| s.evaluations).sum();
    let nt: usize = merged.subs.values().map(|s| s.nontrivial.len()).sum();
    println!(
        "OK property={prop} tier={} seed={seed} evaluations={ev} distinct_nontrivial={nt} wall={:.1}s",
        tier.name(),
        t0.elapsed().as_secs_f64()
    );
    0
}
