//! C20 – unreferenced-stack filtering keeps exactly the relevant stacks.
//!
//! Pure part: `MappingInfo::stack_has_pointer_to_mapping` vs a reference scan
//! written from the statement (pointer-aligned words at or above the stack
//! pointer, address *inside* the mapping = half-open range).

use crate::fw::*;
use crate::vcore::dumper::mapping;
use proptest::prelude::*;
use serde::{Deserialize, Serialize};
use serde_json::Value;

pub const LEVEL: &str = "exploration";

#[derive(Debug, Clone, PartialEq, Eq, Hash, Serialize, Deserialize)]
pub enum Val {
    StartM1,
    Start,
    StartP1,
    Mid(u32),
    EndM8,
    EndM1,
    End,
    EndP1,
    Outside(u64),
}

#[derive(Debug, Clone, PartialEq, Eq, Hash, Serialize, Deserialize)]
pub struct PureCase {
    pub map_start_page: u32,
    pub map_pages: u16,
    pub len: u16,
    pub offset: u16,
    /// (byte position selector, value)
    pub plants: Vec<(u16, Val)>,
    pub fill: u8,
}

pub fn reference_scan(stack: &[u8], offset: usize, start: u64, end: u64, inclusive_end: bool) -> bool {
    let mut pos = (offset + 7) & !7;
    while pos + 8 <= stack.len() {
        let v = u64::from_le_bytes(stack[pos..pos + 8].try_into().unwrap());
        if start <= v && (v < end || (inclusive_end && v == end)) {
            return true;
        }
        pos += 8;
    }
    false
}

pub fn check_pure(c: &PureCase) -> Verdict {
    let start = (c.map_start_page as u64 + 16) * 4096;
    let end = start + (c.map_pages.max(1) as u64) * 4096;
    let len = c.len as usize;
    let mut stack = vec![c.fill; len];
    let mut aligned_above = false;
    let mut only_unaligned_or_below = false;
    let off_up = ((c.offset as usize) + 7) & !7;
    for (psel, v) in &c.plants {
        if len < 8 {
            break;
        }
        let pos = ((*psel as usize) * (len - 7)) >> 16;
        let val = match v {
            Val::StartM1 => start - 1,
            Val::Start => start,
            Val::StartP1 => start + 1,
            Val::Mid(o) => start + (*o as u64) % (end - start),
            Val::EndM8 => end - 8,
            Val::EndM1 => end - 1,
            Val::End => end,
            Val::EndP1 => end + 1,
            Val::Outside(o) => {
                if (start..=end).contains(o) {
                    end + 4096
                } else {
                    *o
                }
            }
        };
        stack[pos..pos + 8].copy_from_slice(&val.to_le_bytes());
        let inside = (start..end).contains(&val);
        if inside && pos % 8 == 0 && pos >= off_up {
            aligned_above = true;
        } else if inside {
            only_unaligned_or_below = true;
        }
    }
    let m = mapping(start as usize, (end - start) as usize, 5, Some("/lib/principal.so"), 0);
    let got = m.stack_has_pointer_to_mapping(&stack, c.offset as usize);
    let want = reference_scan(&stack, c.offset as usize, start, end, false);
    if got != want {
        let incl = reference_scan(&stack, c.offset as usize, start, end, true);
        let sig = if got == incl { "C20:end-address-counted-inside" } else { "C20:scan-mismatch" };
        return Verdict::viol(
            sig,
            format!("mapping [{start:#x},{end:#x}) len {len} offset {}: got {got}, reference {want}", c.offset),
        );
    }
    let mut classes = vec![format!("result-{got}")];
    if len < 8 {
        classes.push("len<8".into());
    }
    if c.offset as usize > len {
        classes.push("offset>len".into());
    }
    let nt = if (got && aligned_above) || (!got && only_unaligned_or_below) {
        Some(fp_json(c))
    } else {
        None
    };
    if !got && only_unaligned_or_below {
        classes.push("pointer-only-below-sp-or-unaligned".into());
    }
    Verdict::pass_c(nt, classes)
}

fn val_strategy() -> impl Strategy<Value = Val> {
    prop_oneof![
        Just(Val::StartM1),
        Just(Val::Start),
        Just(Val::StartP1),
        any::<u32>().prop_map(Val::Mid),
        Just(Val::EndM8),
        Just(Val::EndM1),
        Just(Val::End),
        Just(Val::EndP1),
        any::<u64>().prop_map(Val::Outside),
    ]
}

pub fn pure_strategy() -> impl Strategy<Value = PureCase> {
    (
        0u32..0x4000_0000,
        prop_oneof![3 => 1u16..4, 1 => 1u16..2000],
        prop_oneof![1 => 0u16..9, 5 => 0u16..513],
        any::<u16>(),
        proptest::collection::vec((any::<u16>(), val_strategy()), 0..5),
        prop_oneof![Just(0u8), Just(0xffu8), any::<u8>()],
    )
        .prop_map(|(map_start_page, map_pages, len, osel, plants, fill)| {
            let offset = ((osel as u32 * (len as u32 + 17)) >> 16) as u16;
            PureCase { map_start_page, map_pages, len, offset, plants, fill }
        })
}

/// Live judge: which stacks are present vs which threads reference the principal mapping.
pub fn judge_live(c: &crate::props::planted::PCase) -> Verdict {
    use crate::props::planted::*;
    let o = match run_case(c) {
        Ok(o) => o,
        Err(Verdict::Violation { signature, detail }) if signature == "dump-failed" => return Verdict::viol("C20:dump-failed", detail),
        Err(v) => return v,
    };
    macro_rules! bad {
        ($sig:expr, $($arg:tt)*) => { return Verdict::viol(format!("C20:{}", $sig), format!($($arg)*)) };
    }
    let Some(threads) = o.d.threads.as_ref() else { bad!("no-thread-list", "thread list missing") };
    let (ps, pe) = o.principal.unwrap_or((0, 0));
    let mut included = 0;
    let mut excluded = 0;
    let mut dont_care_threads = 0u64;
    for (i, tid) in o.tids.iter().enumerate() {
        let Some(t) = threads.iter().find(|t| t.tid as i32 == *tid) else { bad!("thread-record-missing", "thread {tid} has no record") };
        if t.ctx.size == 0 {
            bad!("context-missing", "thread {tid} (stack excluded or not) has no context");
        }
        let is_crash = o.crash.as_ref().map(|c| c.tid == *tid).unwrap_or(false);
        if is_crash && o.crash_sp_unmapped {
            // the supplied stack pointer lies in no mapping: there is no stack to keep or drop (C06's
            // subject); only the soft error below is judged for this thread
            continue;
        }
        let sp = o.sps[i];
        let st = o.stacks[i];
        // the thread's instruction pointer
        let rip_inside = if is_crash {
            let rip = o.crash.as_ref().unwrap().gregs[crate::vcore::regs::REG_RIP] as u64;
            o.principal.is_some() && rip >= ps && rip < pe
        } else {
            o.spinner_in_principal[i]
        };
        // aligned words at/above sp in the region that would be captured: [page(sp), end of stack)
        let start = sp & !4095;
        let Some(mem) = o.target.read_mem(start, (st.end - start) as usize) else { return Verdict::Inconclusive("cannot read target stack".into()) };
        let mut holds = false;
        // with a triggered size limit the stacks of threads at list position >= 20 (main thread = 0) are cut
        // to the 2 KiB chunk containing sp; a reference that lies beyond that chunk is then outside what the
        // statement clearly covers (don't-care for this thread)
        let shortened = c.limit && i + 1 >= 20 && !is_crash;
        let scan_end = if shortened { ((((sp - start) / 2048) * 2048 + 2048) as usize).min(mem.len()) } else { mem.len() };
        let mut holds_beyond = false;
        if o.principal.is_some() {
            let mut pos = (((sp - start) + 7) & !7) as usize;
            while pos + 8 <= mem.len() {
                let v = u64::from_le_bytes(mem[pos..pos + 8].try_into().unwrap());
                // the spinner keeps rewriting its slot with a counter; counters are far from any mapping
                if v >= ps && v < pe {
                    if pos + 8 <= scan_end {
                        holds = true;
                        break;
                    }
                    holds_beyond = true;
                }
                pos += 8;
            }
        }
        if shortened && !holds && holds_beyond && !rip_inside {
            dont_care_threads += 1;
            continue;
        }
        let want = rip_inside || holds;
        let got = t.stack.size != 0;
        if want != got {
            bad!(
                if want { "referencing-stack-dropped" } else { "unreferenced-stack-kept" },
                "thread {tid} (crash thread {is_crash}): instruction pointer inside principal mapping: {rip_inside}, aligned word at/above sp {sp:#x} pointing into [{ps:#x},{pe:#x}): {holds}; stack present: {got}"
            );
        }
        if got {
            included += 1;
        } else {
            excluded += 1;
        }
    }
    // soft error
    let mut flat = std::collections::BTreeMap::new();
    crate::props::c11::flatten(&o.soft, "", &mut flat);
    let reported = flat.contains_key("PrincipalMappingNotReferenced");
    let mut classes = vec![];
    if let Some(cr) = &o.crash {
        let i = o.tids.iter().position(|t| *t == cr.tid).unwrap();
        let t = threads.iter().find(|t| t.tid as i32 == cr.tid).unwrap();
        // judged above to be exactly the reference predicate; a crash context whose stack cannot be
        // located references the mapping only through its instruction pointer
        let references = if o.crash_sp_unmapped {
            let rip = cr.gregs[crate::vcore::regs::REG_RIP] as u64;
            o.principal.map(|(s, e)| rip >= s && rip < e).unwrap_or(false)
        } else {
            t.stack.size != 0
        };
        if o.crash_sp_unmapped {
            classes.push("crash-stack-pointer-unmapped".to_string());
        }
        let _ = i;
        if o.principal.is_none() {
            if !reported {
                bad!("soft-error-missing", "the principal address matches no mapping but PrincipalMappingNotReferenced is not reported");
            }
            classes.push("address-in-no-mapping".to_string());
        } else if references && reported {
            bad!("soft-error-spurious", "the crashing thread references the principal mapping but PrincipalMappingNotReferenced is reported");
        } else if !references && !reported {
            bad!("soft-error-missing", "the crashing thread does not reference the principal mapping but no soft error is reported");
        }
    } else if o.principal.is_none() && !reported {
        bad!("soft-error-missing", "the principal address matches no mapping but PrincipalMappingNotReferenced is not reported");
    }
    if included > 0 && excluded > 0 {
        classes.push("mixed-included-excluded".into());
    }
    crate::fw::count("shortened-threads-with-reference-beyond-kept-chunk", dont_care_threads);
    if c.limit && o.tids.len() >= 20 {
        classes.push("size-limit-shortens-stacks".into());
    }
    crate::fw::count("stacks-included", included);
    crate::fw::count("stacks-excluded", excluded);
    Verdict::pass_c(if included > 0 && excluded > 0 { Some(fp_json(c)) } else { None }, classes)
}

pub fn run(ctx: &mut LaneCtx) {
    ctx.assume("live part: stack skipping enabled and a principal address given (inside a mapping or in a hole); no size limit; without a crash context the statement does not define 'the crashing thread' and the soft error is not judged in that case (except for an address that matches no mapping)");
    ctx.run_sub(
        SubSpec {
            name: "live-filter",
            cases: (960, 20_000),
            rule: "1..43 threads on custom stacks of 1..8 pages - three threads in a hundred on a deep stack of 1..2 MiB whose only reference may lie more than a megabyte above the stack pointer - (with or without a size limit that shortens the stacks of threads at position >= 20 to the 2 KiB chunk holding sp) with planted words (pointer into the principal mapping / another mapping / one past its end / own stack / small ints, at aligned slots above sp, below sp, or unaligned), spinners running inside an executable mapping, principal address inside a mapping or in a hole (in some cases the mapping is unmapped by the target between two requests of the same writer and the second request is judged), crash context on a chosen thread with rip inside/outside (one in seven with a stack pointer in no mapping: it can then reference the mapping only through rip); oracle = stack present iff rip inside or aligned word at/above sp points into the mapping, records+contexts always present, soft error as stated; non-trivial = at least one included and one excluded stack in the same dump; distinct = hash of case",
            strategy: crate::props::planted::case_strategy(None, Some(true), None)
                .prop_map(|mut c| {
                    if c.principal.is_none() {
                        c.principal = Some(0);
                    }
                    c
                })
                .boxed(),
            max_shrink_iters: 150,
            log_current: true,
        },
        judge_live,
    );
    ctx.assume("'inside the mapping' is the half-open range [start, end) of the kernel's mapping line");
    ctx.run_sub(
        SubSpec {
            name: "pure-scan",
            cases: (120_000, 6_000_000),
            rule: "stack buffers of length 0..512 (incl. <8), sp offsets 0..len+16, up to 4 planted words from {start-1,start,start+1,mid,end-8,end-1,end,end+1,outside} at arbitrary (also unaligned) byte positions; non-trivial = a pointer into the mapping is present and decides the answer (aligned slot at/above sp -> true; only below sp or unaligned -> false); distinct = hash of case",
            strategy: pure_strategy().boxed(),
            max_shrink_iters: 4096,
            log_current: false,
        },
        check_pure,
    );
}

pub fn replay(sub: &str, case: &Value) -> Verdict {
    match sub {
        "pure-scan" => replay_case::<PureCase>(case, check_pure),
        "live-filter" => replay_case::<crate::props::planted::PCase>(case, judge_live),
        _ => Verdict::Inconclusive(format!("unknown sub {sub}")),
    }
}
