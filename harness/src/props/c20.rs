//! C20 – unreferenced-stack filtering keeps exactly the relevant stacks.
//!
//! Pure part: `MappingInfo::stack_has_pointer_to_mapping` vs a reference scan
//! written from the statement (pointer-aligned words at or above the stack
//! pointer, address *inside* the mapping = half-open range).

use crate::fw::*;
use crate::vcore::dumper::mapping;
use proptest::prelude::*;
use serde::{Deserialize, Serialize};
use serde_json::Value;

pub const LEVEL: &str = "exploration";

#[derive(Debug, Clone, PartialEq, Eq, Hash, Serialize, Deserialize)]
pub enum Val {
    StartM1,
    Start,
    StartP1,
    Mid(u32),
    EndM8,
    EndM1,
    End,
    EndP1,
    Outside(u64),
}

#[derive(Debug, Clone, PartialEq, Eq, Hash, Serialize, Deserialize)]
pub struct PureCase {
    pub map_start_page: u32,
    pub map_pages: u16,
    pub len: u16,
    pub offset: u16,
    /// (byte position selector, value)
    pub plants: Vec<(u16, Val)>,
    pub fill: u8,
}

pub fn reference_scan(stack: &[u8], offset: usize, start: u64, end: u64, inclusive_end: bool) -> bool {
    let mut pos = (offset + 7) & !7;
    while pos + 8 <= stack.len() {
        let v = u64::from_le_bytes(stack[pos..pos + 8].try_into().unwrap());
        if start <= v && (v < end || (inclusive_end && v == end)) {
            return true;
        }
        pos += 8;
    }
    false
}

pub fn check_pure(c: &PureCase) -> Verdict {
    let start = (c.map_start_page as u64 + 16) * 4096;
    let end = start + (c.map_pages.max(1) as u64) * 4096;
    let len = c.len as usize;
    let mut stack = vec![c.fill; len];
    let mut aligned_above = false;
    let mut only_unaligned_or_below = false;
    let off_up = ((c.offset as usize) + 7) & !7;
    for (psel, v) in &c.plants {
        if len < 8 {
            break;
        }
        let pos = ((*psel as usize) * (len - 7)) >> 16;
        let val = match v {
            Val::StartM1 => start - 1,
            Val::Start => start,
            Val::StartP1 => start + 1,
            Val::Mid(o) => start + (*o as u64) % (end - start),
            Val::EndM8 => end - 8,
            Val::EndM1 => end - 1,
            Val::End => end,
            Val::EndP1 => end + 1,
            Val::Outside(o) => {
                if (start..=end).contains(o) {
                    end + 4096
                } else {
                    *o
                }
            }
        };
        stack[pos..pos + 8].copy_from_slice(&val.to_le_bytes());
        let inside = (start..end).contains(&val);
        if inside && pos % 8 == 0 && pos >= off_up {
            aligned_above = true;
        } else if inside {
            only_unaligned_or_below = true;
        }
    }
    let m = mapping(start as usize, (end - start) as usize, 5, Some("/lib/principal.so"), 0);
    let got = m.stack_has_pointer_to_mapping(&stack, c.offset as usize);
    let want = reference_scan(&stack, c.offset as usize, start, end, false);
    if got != want {
        let incl = reference_scan(&stack, c.offset as usize, start, end, true);
        let sig = if got == incl { "C20:end-address-counted-inside" } else { "C20:scan-mismatch" };
        return Verdict::viol(
            sig,
            format!("mapping [{start:#x},{end:#x}) len {len} offset {}: got {got}, reference {want}", c.offset),
        );
    }
    let mut classes = vec![format!("result-{got}")];
    if len < 8 {
        classes.push("len<8".into());
    }
    if c.offset as usize > len {
        classes.push("offset>len".into());
    }
    let nt = if (got && aligned_above) || (!got && only_unaligned_or_below) {
        Some(fp_json(c))
    } else {
        None
    };
    if !got && only_unaligned_or_below {
        classes.push("pointer-only-below-sp-or-unaligned".into());
    }
    Verdict::pass_c(nt, classes)
}

fn val_strategy() -> impl Strategy<Value = Val> {
    prop_oneof![
        Just(Val::StartM1),
        Just(Val::Start),
        Just(Val::StartP1),
        any::<u32>().prop_map(Val::Mid),
        Just(Val::EndM8),
        Just(Val::EndM1),
        Just(Val::End),
        Just(Val::EndP1),
        any::<u64>().prop_map(Val::Outside),
    ]
}

pub fn pure_strategy() -> impl Strategy<Value = PureCase> {
    (
        0u32..0x4000_0000,
        prop_oneof![3 => 1u16..4, 1 => 1u16..2000],
        prop_oneof![1 => 0u16..9, 5 => 0u16..513],
        any::<u16>(),
        proptest::collection::vec((any::<u16>(), val_strategy()), 0..5),
        prop_oneof![Just(0u8), Just(0xffu8), any::<u8>()],
    )
        .prop_map(|(map_start_page, map_pages, len, osel, plants, fill)| {
            let offset = ((osel as u32 * (len as u32 + 17)) >> 16) as u16;
            PureCase { map_start_page, map_pages, len, offset, plants, fill }
        })
}

pub fn run(ctx: &mut LaneCtx) {
    ctx.assume("'inside the mapping' is the half-open range [start, end) of the kernel's mapping line");
    ctx.run_sub(
        SubSpec {
            name: "pure-scan",
            cases: (120_000, 6_000_000),
            rule: "stack buffers of length 0..512 (incl. <8), sp offsets 0..len+16, up to 4 planted words from {start-1,start,start+1,mid,end-8,end-1,end,end+1,outside} at arbitrary (also unaligned) byte positions; non-trivial = a pointer into the mapping is present and decides the answer (aligned slot at/above sp -> true; only below sp or unaligned -> false); distinct = hash of case",
            strategy: pure_strategy().boxed(),
            max_shrink_iters: 4096,
            log_current: false,
        },
        check_pure,
    );
}

pub fn replay(sub: &str, case: &Value) -> Verdict {
    match sub {
        "pure-scan" => replay_case::<PureCase>(case, check_pure),
        _ => Verdict::Inconclusive(format!("unknown sub {sub}")),
    }
}
