//! C15 – thread names are attached to the right threads.
//!
//! Direct part (hook H2): `thread_names_stream::write` on a dumper whose public
//! thread list is overwritten with generated (tid, Option<name>) lists,
//! decoded with the strict decoder.

use crate::fw::*;
use crate::vcore::dumper::with_dumper;
use crate::vcore::md::{self, Rd};
use minidump_writer::mem_writer::Buffer;
use minidump_writer::ptrace_dumper::Thread;
#[cfg(feature = "internals")]
use minidump_writer::verif_api::thread_names_stream;
use proptest::prelude::*;
use serde::{Deserialize, Serialize};
use serde_json::Value;

pub const LEVEL: &str = "exploration";

#[derive(Debug, Clone, PartialEq, Eq, Hash, Serialize, Deserialize)]
pub struct Case {
    pub prefix: u8,
    pub threads: Vec<(u32, Option<String>)>,
}

pub fn check(c: &Case) -> Verdict {
    let mut buf = Buffer::with_capacity(0);
    let prefix: Vec<u8> = (0..c.prefix).map(|i| i.wrapping_mul(31).wrapping_add(7)).collect();
    buf.write_all(&prefix);
    // distinct positive tids
    let mut threads = vec![];
    let mut seen = std::collections::BTreeSet::new();
    for (t, n) in &c.threads {
        let mut tid = (*t % 0x7fff_fffe) + 1;
        while !seen.insert(tid) {
            tid = tid % 0x7fff_fffe + 1;
        }
        threads.push((tid, n.clone()));
    }
    let res = with_dumper(|d, _| {
        d.threads = threads.iter().map(|(t, n)| Thread { tid: *t as i32, name: n.clone() }).collect();
        #[cfg(feature = "internals")]
        let r = Some(thread_names_stream::write(&mut buf, d));
        #[cfg(not(feature = "internals"))]
        let r: Option<Result<minidump_writer::minidump_format::MDRawDirectory, std::convert::Infallible>> = None;
        d.threads.clear();
        r
    });
    let dirent = match res {
        Some(Ok(d)) => d,
        Some(Err(e)) => return Verdict::viol("C15:write-error", format!("{e:?}")),
        None => return Verdict::Inconclusive(crate::props::c02::NO_INTERNALS.into()),
    };
    let img: Vec<u8> = buf.into();
    let named: Vec<(u32, String)> = threads.iter().filter_map(|(t, n)| n.clone().map(|n| (*t, n))).collect();
    macro_rules! bad {
        ($sig:expr, $($arg:tt)*) => { return Verdict::viol(format!("C15:{}", $sig), format!($($arg)*)) };
    }
    if img.len() < prefix.len() || img[..prefix.len()] != prefix[..] {
        bad!("prefix-modified", "bytes before the stream were modified");
    }
    if dirent.stream_type != md::ST_THREAD_NAMES {
        bad!("stream-type", "{:#x}", dirent.stream_type);
    }
    let rd = Rd { b: &img };
    let rva = dirent.location.rva as u64;
    let size = dirent.location.data_size as u64;
    let Some(count) = rd.u32(rva) else { bad!("stream-outside-image", "rva {rva:#x}") };
    if rva != prefix.len() as u64 {
        bad!("stream-position", "stream at {rva:#x}, expected {:#x}", prefix.len());
    }
    if count as usize != named.len() {
        bad!("count", "count {count} but {} threads have a name", named.len());
    }
    if size != 4 + 12 * count as u64 || rd.get(rva, size).is_none() {
        bad!("stream-size", "data_size {size} for count {count}");
    }
    let mut got: Vec<(u32, String)> = vec![];
    let mut used = 4 + 12 * count as u64;
    let mut extents = vec![(rva, size)];
    for i in 0..count as u64 {
        let o = rva + 4 + 12 * i;
        let tid = rd.u32(o).unwrap();
        let nrva = rd.u64(o + 4).unwrap();
        let Some(n) = rd.u32(nrva) else { bad!("name-outside-image", "entry {i} (tid {tid}) name rva {nrva:#x} outside image of {:#x} bytes", img.len()) };
        let Some(bytes) = rd.get(nrva + 4, n as u64) else { bad!("name-outside-image", "entry {i} name body outside image") };
        if n % 2 != 0 {
            bad!("name-odd-length", "entry {i}");
        }
        let units: Vec<u16> = bytes.chunks(2).map(|c| u16::from_le_bytes([c[0], c[1]])).collect();
        let s: String = char::decode_utf16(units).map(|r| r.unwrap_or('\u{fffd}')).collect();
        extents.push((nrva, 4 + n as u64));
        used += 4 + n as u64;
        got.push((tid, s));
    }
    let mut want = named.clone();
    let mut g = got.clone();
    want.sort();
    g.sort();
    if g != want {
        bad!("entries", "entries {got:?} but named threads are {named:?} (threads {threads:?})");
    }
    extents.sort();
    for w in extents.windows(2) {
        if w[0].0 + w[0].1 > w[1].0 {
            bad!("overlap", "objects [{:#x},+{:#x}) and [{:#x},+{:#x}) overlap", w[0].0, w[0].1, w[1].0, w[1].1);
        }
    }
    if prefix.len() as u64 + used != img.len() as u64 {
        bad!("stray-bytes", "buffer has {} bytes, stream and strings account for {}", img.len(), prefix.len() as u64 + used);
    }
    let n_named = named.len();
    let n_unnamed = threads.len() - n_named;
    let unnamed_not_last = threads.iter().position(|(_, n)| n.is_none()).map(|p| p + 1 < threads.len()).unwrap_or(false);
    let mut classes = vec![];
    if n_named > 0 && n_unnamed > 0 {
        classes.push("mixed".to_string());
    }
    if n_unnamed == 0 {
        classes.push("all-named".into());
    }
    if n_named == 0 {
        classes.push("none-named".into());
    }
    let nt = if n_named > 0 && n_unnamed > 0 && unnamed_not_last { Some(fp_json(c)) } else { None };
    Verdict::pass_c(nt, classes)
}

pub fn name_strategy() -> impl Strategy<Value = String> {
    let ch = prop_oneof![
        6 => (0x21u32..0x7f).prop_map(|c| char::from_u32(c).unwrap()),
        2 => Just(' '),
        1 => Just('\t'),
        2 => prop_oneof![Just('\u{e9}'), Just('\u{fc}'), Just('\u{4e2d}'), Just('\u{1f600}'), Just('\u{fffd}'), Just('\u{7f}')],
    ];
    proptest::collection::vec(ch, 0..16).prop_map(|v| {
        // comm is at most 15 bytes
        let mut s = String::new();
        for c in v {
            if s.len() + c.len_utf8() > 15 {
                break;
            }
            s.push(c);
        }
        s
    })
}

pub fn case_strategy() -> impl Strategy<Value = Case> {
    (
        any::<u8>(),
        proptest::collection::vec((any::<u32>(), prop_oneof![3 => name_strategy().prop_map(Some), 2 => Just(None)]), 1..33),
    )
        .prop_map(|(prefix, threads)| Case { prefix, threads })
}

fn subset_cases(max_n: usize) -> impl Iterator<Item = Case> {
    (1..=max_n).flat_map(|n| {
        (0u32..(1 << n)).map(move |mask| Case {
            prefix: (n * 3) as u8,
            threads: (0..n)
                .map(|i| {
                    let name = if mask & (1 << i) != 0 { None } else { Some(format!("t{}-{}", i, "\u{e9}x ".repeat(i % 3))) };
                    (1000 + i as u32 * 7, name)
                })
                .collect(),
        })
    })
}

/// Live: names stream vs the kernel's comm of every listed thread.
pub fn check_live(c: &crate::props::c01::Case) -> Verdict {
    use crate::vcore::dest::Dest;
    use crate::vcore::target::*;
    use crate::vcore::world::*;
    init_scratch();
    let scratch = Target::new_scratch();
    let mut bt = crate::props::c01::build(c, &scratch);
    // duplicates: in half of the cases several (or all) threads carry the same name
    let h = fp_json(c);
    let mut dup = 0;
    if h % 2 == 0 && bt.spec.threads.len() >= 2 {
        let first = bt.spec.threads[0].name.clone();
        for (i, th) in bt.spec.threads.iter_mut().enumerate().skip(1) {
            if (h >> 8) % 2 == 0 || i % 2 == 0 {
                th.name = first.clone();
                dup += 1;
            }
        }
    }
    let t = match Target::spawn(&bt.spec, scratch) {
        Ok(t) => t,
        Err(e) => return Verdict::Inconclusive(format!("target setup: {}", e.split(':').next().unwrap_or(""))),
    };
    if !t.wait_settled(&bt.spec) {
        return Verdict::Inconclusive("target did not settle".into());
    }
    // the generated writer options (crash context, size limit, sanitize, skip-unreferenced, app memory,
    // user mappings, direct auxv, blamed thread) must not change what the names stream says
    let opts = crate::props::c01::opts_of(c, &bt, &t);
    let mut w = make_writer(t.pid, &opts);
    let mut dest = Dest::new(vec![], 0);
    // in a quarter of the cases the name of ONE thread (not the last one listed) cannot be read: opening
    // its comm file fails with ENOENT (what a thread exiting at that instant produces), EACCES or EMFILE
    let all_tids: Vec<i32> = std::iter::once(t.pid).chain(bt.thread_ids.iter().map(|id| t.tid(*id))).collect();
    let unreadable: Option<(i32, i32)> = if (h >> 40) % 4 == 0 && all_tids.len() >= 2 {
        let mut sorted = all_tids.clone();
        sorted.sort();
        Some((sorted[((h >> 44) as usize) % (sorted.len() - 1)], [libc::ENOENT, libc::EACCES, libc::EMFILE][((h >> 50) % 3) as usize]))
    } else {
        None
    };
    let out = match unreadable {
        Some((tid, errno)) => crate::vcore::faultfs::with_failing_path(format!("/{tid}/comm").as_bytes(), errno, || run_dump(&mut w, &mut dest)).0,
        None => run_dump(&mut w, &mut dest),
    };
    let img = match out {
        DumpOutcome::Ok(v) => v,
        DumpOutcome::Err(e) => return Verdict::pass_c(None, vec![format!("dump-error:{}", e.split('(').next().unwrap_or(""))]),
        DumpOutcome::Panic(l, m) => return panic_verdict(&l, &m),
    };
    let d = md::decode(&img);
    let Some(names) = d.thread_names.as_ref() else { return Verdict::viol("C15:live:no-names-stream", format!("{:?}", d.problems.first())) };
    let listed: Vec<u32> = d.threads.as_ref().map(|t| t.iter().map(|t| t.tid).collect()).unwrap_or_default();
    let mut want: Vec<(u32, String)> = vec![];
    let (mut named, mut unnamed) = (0, 0);
    for tid in &listed {
        if unreadable.map(|(u, _)| u == *tid as i32).unwrap_or(false) {
            unnamed += 1;
            continue;
        }
        match comm_of(t.pid, *tid as i32).and_then(|c| expected_name(&c)) {
            Some(n) => {
                want.push((*tid, n));
                named += 1;
            }
            None => unnamed += 1,
        }
    }
    want.sort();
    let mut got: Vec<(u32, String)> = names.iter().map(|(t, _, n)| (*t, n.clone().unwrap_or_default())).collect();
    got.sort();
    if got != want {
        let miss = want.iter().find(|w| !got.contains(w));
        let extra = got.iter().find(|g| !want.contains(g));
        return Verdict::viol("C15:live:entries", format!("names stream differs from the kernel's comm values: missing {miss:?}, unexpected {extra:?}"));
    }
    let nt = named > 0 && unnamed > 0;
    let mut classes: Vec<String> = if nt { vec!["mixed".into()] } else { vec![] };
    if dup > 0 {
        classes.push("several-threads-with-the-same-name".into());
    }
    if let Some((_, e)) = unreadable {
        classes.push(format!("one-comm-unopenable:errno-{e}"));
    }
    if opts.size_limit.is_some() {
        classes.push("size-limit-set".into());
    }
    Verdict::pass_c(if nt || dup > 0 { Some(fp_json(c)) } else { None }, classes)
}

pub fn run(ctx: &mut LaneCtx) {
    ctx.run_sub(
        SubSpec {
            name: "live-names",
            cases: (720, 20_000),
            rule: "live targets with 1..24 threads whose names are unset / valid UTF-8 (0..15 bytes, multi-byte, whitespace) / not valid UTF-8 - in half of the cases several or all threads share one name -, dumped with generated writer options (crash context, size limit, sanitize, skip-unreferenced, app memory, user mappings, direct auxv, blamed thread); in a quarter of the cases the comm file of one thread that is not the last one listed cannot be opened (ENOENT - a thread exiting at that instant -, EACCES or EMFILE; open shim) and only that thread may then lack a name; oracle = names stream pairs equal {(tid, comm trimmed)} for the listed threads whose comm is valid UTF-8, as read from /proc/pid/task/tid/comm; non-trivial = named and unnamed threads in the same dump, or duplicate names; distinct = hash of case",
            strategy: crate::props::c01::case_strategy(24).boxed(),
            max_shrink_iters: 150,
            log_current: true,
        },
        check_live,
    );
    ctx.assume("direct part calls the re-exported thread_names_stream::write (hook H2) with the dumper's public thread list overwritten; 'name could not be read' is represented by name == None exactly as enumerate_threads does");
    ctx.run_enum(
        "exhaustive-subsets",
        "exhaustive: every subset of unnamed threads for every thread count 1..10 (2046 cases); non-trivial = at least one named and one unnamed thread with an unnamed thread not last",
        subset_cases(10),
        check,
    );
    ctx.run_sub(
        SubSpec {
            name: "generated-lists",
            cases: (20_000, 1_000_000),
            rule: "generated thread lists (1..32 threads, arbitrary distinct tids, names None or 0..15 bytes incl. multi-byte/whitespace) written after a 0..255 byte prefix; non-trivial as above; distinct = hash of case",
            strategy: case_strategy().boxed(),
            max_shrink_iters: 4096,
            log_current: false,
        },
        check,
    );
}

pub fn replay(sub: &str, case: &Value) -> Verdict {
    match sub {
        "exhaustive-subsets" | "generated-lists" => replay_case::<Case>(case, check),
        "live-names" => replay_case::<crate::props::c01::Case>(case, check_live),
        _ => Verdict::Inconclusive(format!("unknown sub {sub}")),
    }
}
