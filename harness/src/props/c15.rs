//! C15 – thread names are attached to the right threads.
//!
//! Direct part (hook H2): `thread_names_stream::write` on a dumper whose public
//! thread list is overwritten with generated (tid, Option<name>) lists,
//! decoded with the strict decoder.

use crate::fw::*;
use crate::vcore::dumper::with_dumper;
use crate::vcore::md::{self, Rd};
use minidump_writer::mem_writer::Buffer;
use minidump_writer::ptrace_dumper::Thread;
use minidump_writer::verif_api::thread_names_stream;
use proptest::prelude::*;
use serde::{Deserialize, Serialize};
use serde_json::Value;

pub const LEVEL: &str = "exploration";

#[derive(Debug, Clone, PartialEq, Eq, Hash, Serialize, Deserialize)]
pub struct Case {
    pub prefix: u8,
    pub threads: Vec<(u32, Option<String>)>,
}

pub fn check(c: &Case) -> Verdict {
    let mut buf = Buffer::with_capacity(0);
    let prefix: Vec<u8> = (0..c.prefix).map(|i| i.wrapping_mul(31).wrapping_add(7)).collect();
    buf.write_all(&prefix);
    // distinct positive tids
    let mut threads = vec![];
    let mut seen = std::collections::BTreeSet::new();
    for (t, n) in &c.threads {
        let mut tid = (*t % 0x7fff_fffe) + 1;
        while !seen.insert(tid) {
            tid = tid % 0x7fff_fffe + 1;
        }
        threads.push((tid, n.clone()));
    }
    let res = with_dumper(|d, _| {
        d.threads = threads.iter().map(|(t, n)| Thread { tid: *t as i32, name: n.clone() }).collect();
        let r = thread_names_stream::write(&mut buf, d);
        d.threads.clear();
        r
    });
    let dirent = match res {
        Ok(d) => d,
        Err(e) => return Verdict::viol("C15:write-error", format!("{e:?}")),
    };
    let img: Vec<u8> = buf.into();
    let named: Vec<(u32, String)> = threads.iter().filter_map(|(t, n)| n.clone().map(|n| (*t, n))).collect();
    macro_rules! bad {
        ($sig:expr, $($arg:tt)*) => { return Verdict::viol(format!("C15:{}", $sig), format!($($arg)*)) };
    }
    if img.len() < prefix.len() || img[..prefix.len()] != prefix[..] {
        bad!("prefix-modified", "bytes before the stream were modified");
    }
    if dirent.stream_type != md::ST_THREAD_NAMES {
        bad!("stream-type", "{:#x}", dirent.stream_type);
    }
    let rd = Rd { b: &img };
    let rva = dirent.location.rva as u64;
    let size = dirent.location.data_size as u64;
    let Some(count) = rd.u32(rva) else { bad!("stream-outside-image", "rva {rva:#x}") };
    if rva != prefix.len() as u64 {
        bad!("stream-position", "stream at {rva:#x}, expected {:#x}", prefix.len());
    }
    if count as usize != named.len() {
        bad!("count", "count {count} but {} threads have a name", named.len());
    }
    if size != 4 + 12 * count as u64 || rd.get(rva, size).is_none() {
        bad!("stream-size", "data_size {size} for count {count}");
    }
    let mut got: Vec<(u32, String)> = vec![];
    let mut used = 4 + 12 * count as u64;
    let mut extents = vec![(rva, size)];
    for i in 0..count as u64 {
        let o = rva + 4 + 12 * i;
        let tid = rd.u32(o).unwrap();
        let nrva = rd.u64(o + 4).unwrap();
        let Some(n) = rd.u32(nrva) else { bad!("name-outside-image", "entry {i} (tid {tid}) name rva {nrva:#x} outside image of {:#x} bytes", img.len()) };
        let Some(bytes) = rd.get(nrva + 4, n as u64) else { bad!("name-outside-image", "entry {i} name body outside image") };
        if n % 2 != 0 {
            bad!("name-odd-length", "entry {i}");
        }
        let units: Vec<u16> = bytes.chunks(2).map(|c| u16::from_le_bytes([c[0], c[1]])).collect();
        let s: String = char::decode_utf16(units).map(|r| r.unwrap_or('\u{fffd}')).collect();
        extents.push((nrva, 4 + n as u64));
        used += 4 + n as u64;
        got.push((tid, s));
    }
    let mut want = named.clone();
    let mut g = got.clone();
    want.sort();
    g.sort();
    if g != want {
        bad!("entries", "entries {got:?} but named threads are {named:?} (threads {threads:?})");
    }
    extents.sort();
    for w in extents.windows(2) {
        if w[0].0 + w[0].1 > w[1].0 {
            bad!("overlap", "objects [{:#x},+{:#x}) and [{:#x},+{:#x}) overlap", w[0].0, w[0].1, w[1].0, w[1].1);
        }
    }
    if prefix.len() as u64 + used != img.len() as u64 {
        bad!("stray-bytes", "buffer has {} bytes, stream and strings account for {}", img.len(), prefix.len() as u64 + used);
    }
    let n_named = named.len();
    let n_unnamed = threads.len() - n_named;
    let unnamed_not_last = threads.iter().position(|(_, n)| n.is_none()).map(|p| p + 1 < threads.len()).unwrap_or(false);
    let mut classes = vec![];
    if n_named > 0 && n_unnamed > 0 {
        classes.push("mixed".to_string());
    }
    if n_unnamed == 0 {
        classes.push("all-named".into());
    }
    if n_named == 0 {
        classes.push("none-named".into());
    }
    let nt = if n_named > 0 && n_unnamed > 0 && unnamed_not_last { Some(fp_json(c)) } else { None };
    Verdict::pass_c(nt, classes)
}

pub fn name_strategy() -> impl Strategy<Value = String> {
    let ch = prop_oneof![
        6 => (0x21u32..0x7f).prop_map(|c| char::from_u32(c).unwrap()),
        2 => Just(' '),
        1 => Just('\t'),
        2 => prop_oneof![Just('\u{e9}'), Just('\u{fc}'), Just('\u{4e2d}'), Just('\u{1f600}'), Just('\u{fffd}'), Just('\u{7f}')],
    ];
    proptest::collection::vec(ch, 0..16).prop_map(|v| {
        // comm is at most 15 bytes
        let mut s = String::new();
        for c in v {
            if s.len() + c.len_utf8() > 15 {
                break;
            }
            s.push(c);
        }
        s
    })
}

pub fn case_strategy() -> impl Strategy<Value = Case> {
    (
        any::<u8>(),
        proptest::collection::vec((any::<u32>(), prop_oneof![3 => name_strategy().prop_map(Some), 2 => Just(None)]), 1..33),
    )
        .prop_map(|(prefix, threads)| Case { prefix, threads })
}

fn subset_cases(max_n: usize) -> impl Iterator<Item = Case> {
    (1..=max_n).flat_map(|n| {
        (0u32..(1 << n)).map(move |mask| Case {
            prefix: (n * 3) as u8,
            threads: (0..n)
                .map(|i| {
                    let name = if mask & (1 << i) != 0 { None } else { Some(format!("t{}-{}", i, "\u{e9}x ".repeat(i % 3))) };
                    (1000 + i as u32 * 7, name)
                })
                .collect(),
        })
    })
}

pub fn run(ctx: &mut LaneCtx) {
    ctx.assume("direct part calls the re-exported thread_names_stream::write (hook H2) with the dumper's public thread list overwritten; 'name could not be read' is represented by name == None exactly as enumerate_threads does");
    ctx.run_enum(
        "exhaustive-subsets",
        "exhaustive: every subset of unnamed threads for every thread count 1..10 (2046 cases); non-trivial = at least one named and one unnamed thread with an unnamed thread not last",
        subset_cases(10),
        check,
    );
    ctx.run_sub(
        SubSpec {
            name: "generated-lists",
            cases: (20_000, 1_000_000),
            rule: "generated thread lists (1..32 threads, arbitrary distinct tids, names None or 0..15 bytes incl. multi-byte/whitespace) written after a 0..255 byte prefix; non-trivial as above; distinct = hash of case",
            strategy: case_strategy().boxed(),
            max_shrink_iters: 4096,
            log_current: false,
        },
        check,
    );
}

pub fn replay(sub: &str, case: &Value) -> Verdict {
    match sub {
        "exhaustive-subsets" | "generated-lists" => replay_case::<Case>(case, check),
        _ => Verdict::Inconclusive(format!("unknown sub {sub}")),
    }
}
