//! Shared live scenario for C12 (sanitization) and C20 (unreferenced-stack
//! filtering): parked threads whose stacks carry planted words.

use crate::fw::*;
use crate::props::c01::pick;
use crate::vcore::dest::Dest;
use crate::vcore::md;
use crate::vcore::regs::*;
use crate::vcore::target::*;
use crate::vcore::world::*;
use proptest::prelude::*;
use serde::{Deserialize, Serialize};

#[derive(Debug, Clone, PartialEq, Eq, Hash, Serialize, Deserialize)]
pub enum PVal {
    /// address inside extra mapping k (offset)
    IntoMap(u16, u32),
    /// first address after mapping k
    EndOfMap(u16),
    OwnStack(u16),
    Small(i16),
    Random(u64),
}

#[derive(Debug, Clone, PartialEq, Eq, Hash, Serialize, Deserialize)]
pub struct Plant {
    /// position in 8-byte words relative to the stack pointer rounded up to 8 (negative = below)
    pub slot: i16,
    /// byte misalignment 0..7 (0 = aligned slot)
    pub misalign: u8,
    pub val: PVal,
}

#[derive(Debug, Clone, PartialEq, Eq, Hash, Serialize, Deserialize)]
pub struct PThread {
    pub stack_pages: u8,
    pub sp_page: u16,
    pub sp_inpage: u16,
    pub plants: Vec<Plant>,
    /// spinner running inside extra mapping k (must be executable) instead of a parked thread
    pub spin_in_map: Option<u16>,
    /// a deep stack: 260..519 pages (1.02..2.03 MiB) with the stack pointer in its first two pages and
    /// one more planted pointer (into the principal mapping, else into the first extra mapping) in the
    /// last 4000 bytes - more than a megabyte above the stack pointer
    #[serde(default)]
    pub deep: Option<u16>,
}

#[derive(Debug, Clone, PartialEq, Eq, Hash, Serialize, Deserialize)]
pub struct PCase {
    pub threads: Vec<PThread>,
    /// (pages, executable)
    pub maps: Vec<(u8, bool)>,
    /// principal address: inside mapping k / in a hole
    pub principal: Option<u16>,
    pub crash_on: Option<u16>,
    pub crash_rip_in_principal: bool,
    pub sanitize: bool,
    pub skip: bool,
    /// size limit small enough to trigger stack shortening for threads at position >= 20
    #[serde(default)]
    pub limit: bool,
    /// one more candidate mapping: a file mapped as [r-- page][anonymous PROT_NONE page][page of the
    /// same file], which the writer folds into ONE module spanning the hole
    #[serde(default)]
    pub holey_module: bool,
    /// the same writer makes two requests and the target unmaps the principal mapping in between: the
    /// second request - for which the principal address lies in no mapping any more - is the one judged
    /// (only with skip on, sanitize off, and when no thread runs inside that mapping)
    #[serde(default)]
    pub unmap_between: bool,
}

pub struct PObs {
    pub target: Target,
    pub img: Vec<u8>,
    pub d: md::Decoded,
    pub tids: Vec<i32>,
    pub sps: Vec<u64>,
    pub stacks: Vec<StackInfo>,
    pub maps: Vec<(u64, u64, bool)>,
    pub principal: Option<(u64, u64)>,
    pub principal_addr: Option<u64>,
    pub crash: Option<CrashContext2>,
    pub spinner_in_principal: Vec<bool>,
    pub soft: serde_json::Value,
    /// the crash context's stack pointer lies in no mapping (and none starts within the guard distance
    /// above it): the crashing thread's stack cannot be located at all
    pub crash_sp_unmapped: bool,
}

pub fn run_case(c: &PCase) -> Result<PObs, Verdict> {
    init_scratch();
    let scratch = Target::new_scratch();
    let mut b = Builder::new();
    let mut maps = vec![];
    let mut map_ids: Vec<(u64, u32)> = vec![];
    for (pages, exec) in &c.maps {
        let pages = (*pages as u64 % 4) + 1;
        // rwx so that loop code can be copied in; non-exec ones are rw-
        let (id, addr) = b.add_anon(pages, if *exec { 7 } else { 3 }, 0x3300 + pages);
        maps.push((addr, addr + pages * PAGE, *exec));
        map_ids.push((addr, id));
    }
    if c.holey_module {
        use std::os::unix::ffi::OsStrExt;
        let path = scratch.join("libholey.so").as_os_str().as_bytes().to_vec();
        b.spec.files.push((path.clone(), vec![0x5au8; 3 * PAGE as usize]));
        let addr = b.next_map_addr();
        b.add_file_map_at(addr, 1, 1, &path, 0, false);
        b.add_anon_at(addr + PAGE, 1, 0, 0);
        b.add_file_map_at(addr + 2 * PAGE, 1, 1, &path, 2, false);
        // not a spinner candidate (nothing in it is writable)
        maps.push((addr, addr + 3 * PAGE, false));
    }
    // selector 0xffff = an address that lies in no mapping
    let principal = c.principal.filter(|k| !maps.is_empty() && *k != 0xffff).map(|k| {
        let (s, e, _) = maps[pick(k, maps.len())];
        (s, e)
    });
    let principal_addr = match (c.principal, principal) {
        // for the holey module: an address in its last piece, else the middle of the mapping
        (Some(k), Some((s, e))) if c.holey_module && (s, e) == (maps[maps.len() - 1].0, maps[maps.len() - 1].1) => Some(if k & 1 == 0 { e - 0x800 } else { s + 0x10 }),
        (Some(_), Some((s, e))) => Some(s + (e - s) / 2),
        (Some(_), None) => Some(0x3000_0000_0000),
        _ => None,
    };
    let mut stacks = vec![];
    let mut ids = vec![];
    let mut sps = vec![];
    let mut spinner_in_principal = vec![];
    let (_, words) = b.add_anon(1, 3, 0);
    let mut spinners = 0;
    for (i, t) in c.threads.iter().enumerate() {
        let deep = t.deep.filter(|_| t.spin_in_map.is_none());
        let st = b.add_stack(match deep { Some(k) => 260 + k as u64 % 260, None => t.stack_pages as u64 % 8 + 1 }, true, 0x700 + i as u64);
        let pages = (st.end - st.base) / PAGE;
        let mut sp = st.base + (pick(t.sp_page, if deep.is_some() { 2 } else { pages as usize }) as u64) * PAGE + (t.sp_inpage as u64 % PAGE);
        if let (Some(k), Some((s, e))) = (deep, principal.or(maps.first().map(|m| (m.0, m.1)))) {
            b.spec.pokes.push((st.end - 8 * (1 + k as u64 % 500), s + ((e - s) / 2 & !7)));
        }
        let spin = t.spin_in_map.filter(|_| spinners < 2).and_then(|k| {
            let cands: Vec<&(u64, u64, bool)> = maps.iter().filter(|m| m.2).collect();
            if cands.is_empty() { None } else { Some(*cands[pick(k, cands.len())]) }
        });
        let id;
        if let Some((ms, _me, _)) = spin {
            spinners += 1;
            sp = ((st.base + (st.end - st.base) / 2) & !15).min(st.end - 16);
            id = b.add_thread(K_SPINNER, Some(format!("s{i}").into_bytes()), sp, 0x900 + i as u64);
            let code = ms + 0x100;
            if !b.spec.copycode.contains(&code) {
                b.spec.copycode.push(code);
            }
            let th = b.thread_mut(id);
            th.code = code;
            th.aux = words + 64 * spinners;
            spinner_in_principal.push(principal.map(|(s, e)| code >= s && code < e).unwrap_or(false));
        } else {
            id = b.add_thread(K_PARKED, Some(format!("p{i}").into_bytes()), sp, 0x900 + i as u64);
            spinner_in_principal.push(false);
        }
        // plants
        let sp_up = (sp + 7) & !7;
        for p in &t.plants {
            let at = (sp_up as i64 + 8 * p.slot as i64) as u64 + (p.misalign % 8) as u64;
            if at < st.base || at + 8 > st.end {
                continue;
            }
            if spin.is_some() && at + 8 > sp + 8 && at < sp + 16 {
                continue; // the spinner's own slot
            }
            let v = match &p.val {
                PVal::IntoMap(k, off) if !maps.is_empty() => {
                    let (s, e, _) = maps[pick(*k, maps.len())];
                    s + (*off as u64 % (e - s))
                }
                PVal::EndOfMap(k) if !maps.is_empty() => maps[pick(*k, maps.len())].1,
                PVal::OwnStack(off) => st.base + (*off as u64 % (st.end - st.base)),
                PVal::Small(v) => *v as i64 as u64,
                PVal::Random(v) => *v,
                _ => 0x1234_5678_9abc,
            };
            b.spec.pokes.push((at, v));
        }
        stacks.push(st);
        ids.push(id);
        sps.push(sp);
    }
    let spec = b.spec.clone();
    let t = match Target::spawn(&spec, scratch) {
        Ok(t) => t,
        Err(e) => return Err(Verdict::Inconclusive(format!("target setup: {}", e.split(':').next().unwrap_or("")))),
    };
    if !t.wait_settled(&spec) {
        return Err(Verdict::Inconclusive("target did not settle".into()));
    }
    let tids: Vec<i32> = ids.iter().map(|id| t.tid(*id)).collect();
    let mut opts = DumpOpts { blamed: t.pid, sanitize: c.sanitize, skip_unreferenced: c.skip, principal: principal_addr, size_limit: if c.limit { Some(1) } else { None }, ..Default::default() };
    let mut crash = None;
    let crash_sp_unmapped = c.crash_on.filter(|_| !tids.is_empty()).map(|k| k % 7 == 6).unwrap_or(false);
    if let Some(k) = c.crash_on.filter(|_| !tids.is_empty()) {
        let i = pick(k, tids.len());
        let mut s = 0xC0FFEE + i as u64;
        let mut gregs: Vec<i64> = (0..23).map(|_| splitmix(&mut s) as i64).collect();
        gregs[REG_RSP] = if k % 7 == 6 { 0x3000_0000_8000u64 as i64 } else { sps[i] as i64 };
        gregs[REG_RIP] = match (c.crash_rip_in_principal, principal) {
            (true, Some((s0, _))) => (s0 + 0x40) as i64,
            _ => 0x3000_0000_4000u64 as i64,
        };
        let cc = CrashContext2 { gregs, fp: fpstate_of_fx(&sentinel_fx(9)), signo: 11, code: 1, addr: 0, tid: tids[i] };
        opts.blamed = tids[i];
        opts.crash = Some(cc.clone());
        crash = Some(cc);
    }
    let mut w = make_writer(t.pid, &opts);
    let mut dest = Dest::new(vec![], 0);
    let mut principal = principal;
    let mut maps = maps;
    let mut t = t;
    if let (true, true, false, Some((ps, _))) = (c.unmap_between, c.skip, c.sanitize, principal) {
        let id = map_ids.iter().find(|(a, _)| *a == ps).map(|(_, id)| *id);
        let code_inside = spec.copycode.iter().any(|a| maps.iter().any(|(s, e, _)| *s == ps && a >= s && a < e));
        if let (Some(id), false) = (id, code_inside) {
            let mut first = Dest::new(vec![], 0);
            if let DumpOutcome::Panic(l, m) = run_dump(&mut w, &mut first) {
                return Err(panic_verdict(&l, &m));
            }
            if !t.wait_settled(&spec) || !t.cmd(&format!("unmap {id}")) || !t.wait_settled(&spec) {
                return Err(Verdict::Inconclusive("target did not unmap / settle between the two requests".into()));
            }
            maps.retain(|(s, _, _)| *s != ps);
            principal = None;
        }
    }
    let img = match run_dump(&mut w, &mut dest) {
        DumpOutcome::Ok(v) => v,
        DumpOutcome::Err(e) => return Err(Verdict::viol("dump-failed", format!("dump returned {e}"))),
        DumpOutcome::Panic(l, m) => return Err(panic_verdict(&l, &m)),
    };
    let d = md::decode(&img);
    let soft = crate::props::c11::soft_errors_of(&img, &d).unwrap_or(serde_json::Value::Null);
    Ok(PObs { target: t, img, d, tids, sps, stacks, maps, principal, principal_addr, crash, spinner_in_principal, soft, crash_sp_unmapped })
}

pub fn thread_strategy() -> impl Strategy<Value = PThread> {
    (
        0u8..8,
        any::<u16>(),
        prop_oneof![2 => 0u16..4096, 1 => Just(0u16), 1 => 4088u16..4096, 1 => (0u16..512).prop_map(|x| x * 8 + 3)],
        proptest::collection::vec(
            (
                prop_oneof![4 => 0i16..40, 2 => -20i16..0, 1 => 0i16..600],
                prop_oneof![4 => Just(0u8), 1 => 1u8..8],
                prop_oneof![
                    4 => (any::<u16>(), any::<u32>()).prop_map(|(k, o)| PVal::IntoMap(k, o)),
                    1 => any::<u16>().prop_map(PVal::EndOfMap),
                    2 => any::<u16>().prop_map(PVal::OwnStack),
                    2 => prop_oneof![-4097i16..4098, Just(-1i16), Just(4096), Just(-4096), Just(4097), Just(-4097)].prop_map(PVal::Small),
                    1 => any::<u64>().prop_map(PVal::Random),
                ],
            )
                .prop_map(|(slot, misalign, val)| Plant { slot, misalign, val }),
            0..8,
        ),
        proptest::option::weighted(0.12, any::<u16>()),
        proptest::option::weighted(0.03, any::<u16>()),
    )
        .prop_map(|(stack_pages, sp_page, sp_inpage, plants, spin_in_map, deep)| PThread { stack_pages, sp_page, sp_inpage, plants, spin_in_map, deep })
}

pub fn case_strategy(force_sanitize: Option<bool>, force_skip: Option<bool>, force_limit: Option<bool>) -> impl Strategy<Value = PCase> {
    (
        prop_oneof![3 => proptest::collection::vec(thread_strategy(), 1..25), 1 => proptest::collection::vec(thread_strategy(), 21..44)],
        proptest::collection::vec((any::<u8>(), any::<bool>()), 1..5),
        proptest::option::weighted(0.85, prop_oneof![7 => any::<u16>(), 1 => Just(0xffffu16)]),
        proptest::option::weighted(0.5, any::<u16>()),
        any::<bool>(),
        any::<bool>(),
        any::<bool>(),
        proptest::bool::weighted(0.4),
        (proptest::bool::weighted(0.35), proptest::bool::weighted(0.25)),
    )
        .prop_map(move |(threads, maps, principal, crash_on, crash_rip_in_principal, sanitize, skip, limit, (holey_module, unmap_between))| PCase {
            holey_module,
            unmap_between,
            limit: force_limit.unwrap_or(limit),
            threads,
            maps,
            principal,
            crash_on,
            crash_rip_in_principal,
            sanitize: force_sanitize.unwrap_or(sanitize),
            skip: force_skip.unwrap_or(skip),
        })
}
