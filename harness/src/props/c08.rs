//! C08 – the module list reflects the loaded ELF images.

use crate::fw::*;
use crate::props::c01::pick;
use crate::props::fid::parse_maps;
use crate::vcore::dest::Dest;
use crate::vcore::elf::*;
use crate::vcore::md;
use crate::vcore::target::*;
use crate::vcore::world::*;
use proptest::prelude::*;
use serde::{Deserialize, Serialize};
use serde_json::Value;

pub const LEVEL: &str = "exploration";

pub const FILE_NAMES: [&str; 12] = [
    "lib\u{1f600}\u{20bb7}.so.3",
    "emoji_\u{1f600}.bin",
    "libplain.so",
    "lib with space.so.1",
    "lib\u{e9}\u{4e2d}.so.2.10",
    "libver.so.1.2.3",
    "libver.so.1.2.3rc5",
    "libver.so.4.5.6\u{e9}7",
    "noext",
    "archive.apk",
    "lib.so.",
    "libdots.so.1..2",
];

#[derive(Debug, Clone, PartialEq, Eq, Hash, Serialize, Deserialize)]
pub struct Image {
    pub spec: ElfSpec,
    pub name: u8,
    /// padding pages after the ELF content, each mapped as its own part with these perms
    pub pad_perms: Vec<u8>,
    /// perms of the first part (the ELF content)
    pub first_perms: u8,
    /// anonymous PROT_NONE page after part k (0 = after the content part); None = no gap
    pub gap_after: Option<u8>,
    pub unlink: bool,
    /// map only the image, from a non-zero file offset behind `junk` pages, executable
    pub apk_junk_pages: u8,
    /// not an ELF file at all
    pub non_elf: bool,
}

#[derive(Debug, Clone, PartialEq, Eq, Hash, Serialize, Deserialize)]
pub enum UserG {
    /// covers module k entirely (plus `extra` pages on both sides)
    Containing { module: u16, extra: u8 },
    /// overlaps only part of module k
    Partial { module: u16 },
    Disjoint,
}

#[derive(Debug, Clone, PartialEq, Eq, Hash, Serialize, Deserialize)]
pub struct Case {
    pub images: Vec<Image>,
    pub entry_in: Option<u16>,
    pub user: Vec<(UserG, Option<String>, Vec<u8>)>,
}

struct Placed {
    base: u64,
    size: u64,
    path: Vec<u8>,
    expect_id: Option<Vec<u8>>,
    expect_name: String,
    exec: bool,
}

pub fn check(c: &Case) -> Verdict {
    init_scratch();
    let scratch = Target::new_scratch();
    let mut b = Builder::new();
    let mut placed: Vec<Placed> = vec![];
    for (i, im) in c.images.iter().enumerate() {
        let dir = scratch.join(format!("m{i}"));
        let fname = FILE_NAMES[im.name as usize % FILE_NAMES.len()];
        let path = dir.join(fname).to_string_lossy().into_owned().into_bytes();
        let mut spec = im.spec.clone();
        spec.seg2_delta_pages = 0;
        // a SONAME is a file name: no path separators, not empty (those shapes are outside the statement)
        spec.soname = spec.soname.map(|s| s.replace('/', "_")).filter(|s| !s.is_empty());
        let bt = build(&spec);
        let image: Vec<u8> = if im.non_elf { (0..8192u32).map(|o| (o * 7 + 3) as u8).collect() } else { bt.bytes.clone() };
        let content_pages = (image.len() as u64 + PAGE - 1) / PAGE;
        let junk = if im.apk_junk_pages % 4 > 0 && !im.non_elf { (im.apk_junk_pages % 4) as u64 } else { 0 };
        let mut file: Vec<u8> = vec![0x5a; (junk * PAGE) as usize];
        file.extend_from_slice(&image);
        file.resize(((junk + content_pages) * PAGE) as usize, 0);
        // a third of the plain, still existing multi-page images have only their FIRST page mapped (what a
        // loader maps is the PT_LOAD content, not the section table at the end of the file): whatever of
        // build id and SONAME is not reachable through that page must come from the file itself
        let head_only = !im.unlink && junk == 0 && !im.non_elf && content_pages > 1 && (im.name as u64 + im.first_perms as u64) % 3 == 0;
        let mapped_pages = if head_only { 1 } else { content_pages };
        let pads: Vec<u8> = if junk > 0 || head_only { vec![] } else { im.pad_perms.iter().take(3).cloned().collect() };
        file.resize(((junk + content_pages + pads.len() as u64) * PAGE) as usize, 0);
        b.spec.files.push((path.clone(), file));
        let base = b.next_map_addr();
        let first_perms = if junk > 0 { 5 } else { (im.first_perms & 7) | 1 };
        let mut at = base;
        let mut off = junk;
        let mut exec_seen = first_perms & 4 != 0;
        b.add_file_map_at(at, mapped_pages, first_perms, &path, off, false);
        at += mapped_pages * PAGE;
        off += mapped_pages;
        let mut size = mapped_pages * PAGE;
        let n_parts = 1 + pads.len();
        let gap_k = im.gap_after.map(|k| k as usize % n_parts);
        for part in 0..n_parts {
            if part > 0 {
                let p = pads[part - 1] & 7;
                b.add_file_map_at(at, 1, p, &path, off, false);
                if p & 4 != 0 {
                    exec_seen = true;
                }
                at += PAGE;
                off += 1;
                size = at - base;
            }
            if gap_k == Some(part) {
                b.add_anon_at(at, 1, 0, 0);
                let more_parts = part + 1 < n_parts;
                at += PAGE;
                if exec_seen || more_parts {
                    size = at - base;
                }
            }
        }
        if im.unlink {
            b.spec.unlinks.push(path.clone());
        }
        // expectation from the independent reader on the bytes the harness wrote
        let ident = if im.non_elf { None } else { identify(&image) };
        let expect_id = ident.as_ref().and_then(|x| x.build_id()).filter(|id| !id.is_empty() && id.iter().any(|b| *b != 0));
        let soname = ident.as_ref().and_then(|x| x.soname.clone());
        let path_s = String::from_utf8_lossy(&path).into_owned();
        let expect_name = match soname {
            Some(s) => {
                if junk > 0 {
                    format!("{path_s}/{s}")
                } else {
                    let parent = std::path::Path::new(&path_s).parent().unwrap().to_string_lossy().into_owned();
                    format!("{parent}/{s}")
                }
            }
            None => path_s.clone(),
        };
        placed.push(Placed { base, size, path, expect_id, expect_name, exec: junk > 0 });
    }
    let spec = b.spec.clone();
    let t = match Target::spawn(&spec, scratch) {
        Ok(t) => t,
        Err(e) => return Verdict::Inconclusive(format!("target setup: {}", e.split(':').next().unwrap_or(""))),
    };
    if !t.wait_settled(&spec) {
        return Verdict::Inconclusive("target did not settle".into());
    }
    let pid = t.pid;
    // user mappings
    let mut users: Vec<UserMap> = vec![];
    for (i, (g, name, id)) in c.user.iter().enumerate() {
        let (start, size) = match g {
            UserG::Containing { module, extra } if !placed.is_empty() => {
                let p = &placed[pick(*module, placed.len())];
                let ex = (*extra as u64 % 3) * PAGE;
                (p.base - ex, p.size + 2 * ex)
            }
            UserG::Partial { module } if !placed.is_empty() => {
                let p = &placed[pick(*module, placed.len())];
                (p.base + PAGE, p.size)
            }
            _ => (0x3100_0000_0000 + i as u64 * 0x10_0000, 0x3000),
        };
        users.push(UserMap { start, size, name: name.clone(), identifier: id.clone(), offset: 0, perms: 5 });
    }
    let mut aux = crate::props::c01::true_auxv(pid);
    let entry_module = c.entry_in.filter(|_| !placed.is_empty()).map(|k| pick(k, placed.len()));
    if let Some(k) = entry_module {
        aux[3] = placed[k].base + 0x40;
    }
    // without a synthetic entry module: the kernel's auxv alone, or caller-supplied TRUE values of which
    // any subset is left zero ("unset: look it up") - the outcome must be the same
    let hh = fp_json(c);
    let partial: Option<[u64; 4]> = if entry_module.is_none() && (hh >> 8) % 3 != 0 {
        let mut a = aux;
        for (i, v) in a.iter_mut().enumerate() {
            if (hh >> (12 + i)) & 1 == 1 {
                *v = 0;
            }
        }
        Some(a)
    } else {
        None
    };
    let opts = DumpOpts { blamed: pid, user_mappings: users.clone(), direct_auxv: if entry_module.is_some() { Some(aux) } else { partial }, ..Default::default() };
    let maps = parse_maps(&t.maps_text().unwrap_or_default());
    let mut w = make_writer(pid, &opts);
    // a third of the cases: the image judged is the second (or the retry after a failed first) request of
    // the same writer - the module list must not depend on what an earlier request consumed
    let h = fp_json(c);
    if h % 3 == 0 {
        let fault = if (h >> 8) % 2 == 0 { crate::vcore::dest::Fault::None } else { crate::vcore::dest::Fault::ErrAt(20 + (h >> 16) % 60) };
        let mut first = Dest::new(vec![], 0).with_fault(fault);
        if let DumpOutcome::Panic(l, m) = run_dump(&mut w, &mut first) {
            return panic_verdict(&l, &m);
        }
        if !t.wait_settled(&spec) {
            return Verdict::Inconclusive("target did not settle between two requests".into());
        }
    }
    let mut dest = Dest::new(vec![], 0);
    let img = match run_dump(&mut w, &mut dest) {
        DumpOutcome::Ok(v) => v,
        DumpOutcome::Err(e) => return Verdict::pass_c(None, vec![format!("dump-error:{}", e.split('(').next().unwrap_or(""))]),
        DumpOutcome::Panic(l, m) => return panic_verdict(&l, &m),
    };
    let d = md::decode(&img);
    macro_rules! bad {
        ($sig:expr, $($arg:tt)*) => { return Verdict::viol(format!("C08:{}", $sig), format!($($arg)*)) };
    }
    let Some(mods) = d.modules.as_ref() else { bad!("no-module-list", "{:?}", d.problems.first()) };
    let contained = |base: u64, size: u64| users.iter().any(|u| base >= u.start && base + size <= u.start + u.size);
    // synthetic images
    let mut classes = vec![];
    for (i, p) in placed.iter().enumerate() {
        let found: Vec<&md::Module> = mods.iter().filter(|m| m.base == p.base).collect();
        let should = p.expect_id.is_some() && !contained(p.base, p.size);
        if !should {
            // a user mapping with the same base is fine; the target's own module there is not:
            // tell them apart by the record the target module would carry
            let mut want_cv = b"LEpB".to_vec();
            want_cv.extend_from_slice(p.expect_id.as_deref().unwrap_or_default());
            let is_user = |m: &md::Module| users.iter().any(|u| u.start == m.base && u.size == m.size as u64 && u.name.clone().unwrap_or_default() == m.name.clone().unwrap_or_default());
            let target_listed = found.iter().any(|m| !is_user(m) || (p.expect_id.is_some() && m.cv_bytes.as_deref() == Some(&want_cv[..]) && m.name.as_deref() == Some(p.expect_name.as_str())));
            if target_listed {
                bad!(if p.expect_id.is_none() { "module-without-build-id-listed" } else { "suppressed-module-listed" }, "image {i} at {:#x} must not be listed (id {:?}, contained in a user mapping: {}) but is", p.base, p.expect_id, contained(p.base, p.size));
            }
            continue;
        }
        if found.len() != 1 {
            bad!(if found.is_empty() { "module-missing" } else { "module-duplicated" }, "image {i} ({}) at {:#x} with build id {:02x?}: listed {} times; modules at {:x?}", String::from_utf8_lossy(&p.path), p.base, p.expect_id, found.len(), mods.iter().map(|m| m.base).collect::<Vec<_>>());
        }
        let m = found[0];
        if m.size as u64 != p.size {
            bad!("module-extent", "image {i} at {:#x}: size {:#x}, merged extent of its mappings is {:#x}", p.base, m.size, p.size);
        }
        let mut want_cv = b"LEpB".to_vec();
        want_cv.extend_from_slice(p.expect_id.as_ref().unwrap());
        if m.cv_bytes.as_deref() != Some(&want_cv[..]) {
            bad!("build-id", "image {i}: debug record {:02x?}, expected BpEL + {:02x?}", m.cv_bytes, p.expect_id);
        }
        if m.name.as_deref() != Some(p.expect_name.as_str()) {
            bad!(if p.exec { "name:appended-soname" } else { "name" }, "image {i}: name {:?}, expected {:?}", m.name, p.expect_name);
        }
        classes.push(if p.exec { "apk-style".to_string() } else { "loader-style".to_string() });
    }
    // user mappings verbatim, once
    for (i, u) in users.iter().enumerate() {
        let found: Vec<&md::Module> = mods.iter().filter(|m| m.base == u.start && m.size as u64 == u.size && m.name.as_deref() == Some(u.name.as_deref().unwrap_or(""))).collect();
        // two identical user entries are both listed
        let same = users.iter().filter(|x| x.start == u.start && x.size == u.size && x.name.clone().unwrap_or_default() == u.name.clone().unwrap_or_default()).count();
        if found.len() != same {
            bad!("user-mapping", "user mapping {i} ({:#x},+{:#x},{:?}) listed {} times", u.start, u.size, u.name, found.len());
        }
        let mut want = vec![];
        if !u.identifier.is_empty() {
            want = b"LEpB".to_vec();
            want.extend_from_slice(&u.identifier);
        }
        if !found.iter().any(|m| m.cv_bytes.clone().unwrap_or_default() == want) {
            bad!("user-mapping-identifier", "user mapping {i}: identifier {:02x?} not recorded verbatim", u.identifier);
        }
    }
    // all target modules: no overlap, extents are hulls of same-named map lines, entry module first
    let target_mods: Vec<&md::Module> = mods.iter().filter(|m| !users.iter().any(|u| u.start == m.base && u.size == m.size as u64)).collect();
    for (i, a) in target_mods.iter().enumerate() {
        for bb in target_mods.iter().skip(i + 1) {
            if a.base < bb.base + bb.size as u64 && bb.base < a.base + a.size as u64 {
                bad!("modules-overlap", "modules at {:#x}+{:#x} and {:#x}+{:#x} overlap", a.base, a.size, bb.base, bb.size);
            }
        }
        if contained(a.base, a.size as u64) {
            bad!("suppressed-module-listed", "module at {:#x} lies wholly inside a user mapping", a.base);
        }
        if !maps.iter().any(|l| l.start == a.base) {
            bad!("module-base", "module base {:#x} is not the start of a mapping", a.base);
        }
    }
    if let Some(k) = entry_module {
        let p = &placed[k];
        if p.expect_id.is_some() && !contained(p.base, p.size) && target_mods.first().map(|m| m.base) != Some(p.base) {
            bad!("entry-module-not-first", "entry point lies in the module at {:#x} but the first module is {:x?}", p.base, target_mods.first().map(|m| m.base));
        }
        classes.push("entry-in-synthetic-module".into());
    } else {
        if let Some(p) = partial {
            classes.push(format!("caller-supplied-auxv-with-{}-of-4-values-unset", p.iter().filter(|v| **v == 0).count()));
        }
        // kernel auxv: the target's own executable holds the entry point
        let entry = aux[3];
        if let Some(first) = target_mods.first() {
            if !(first.base <= entry && entry < first.base + first.size as u64) {
                bad!("entry-module-not-first", "first module {:#x}+{:#x} does not contain the entry point {entry:#x}", first.base, first.size);
            }
        }
    }
    // the target's own images (executable, libc, loader): id must equal the independent reader's
    for m in &target_mods {
        let Some(name) = &m.name else { continue };
        if placed.iter().any(|p| p.base == m.base) || name == "linux-gate.so" {
            continue;
        }
        let line = maps.iter().find(|l| l.start == m.base);
        let Some(path) = line.map(|l| l.name.clone()).filter(|n| n.starts_with('/')) else { continue };
        if let Ok(bytes) = std::fs::read(&path) {
            if let Some(id) = identify(&bytes).and_then(|x| x.build_id()) {
                let mut want = b"LEpB".to_vec();
                want.extend_from_slice(&id);
                if m.cv_bytes.as_deref() != Some(&want[..]) {
                    bad!("build-id:system-image", "{path}: debug record {:02x?}, independent reader finds {:02x?}", m.cv_bytes, id);
                }
            }
        }
    }
    if users.iter().any(|u| placed.iter().any(|p| p.expect_id.is_some() && p.base >= u.start && p.base + p.size <= u.start + u.size)) {
        classes.push("user-mapping-suppresses-module".into());
    }
    classes.sort();
    classes.dedup();
    let feature_sets: std::collections::BTreeSet<(bool, bool, bool)> = c.images.iter().map(|i| (i.spec.build_id.is_some(), i.spec.soname.is_some(), i.spec.sections)).collect();
    let nt = (c.images.len() >= 2 && feature_sets.len() >= 2) || classes.iter().any(|c| c == "user-mapping-suppresses-module");
    Verdict::pass_c(if nt { Some(fp_json(c)) } else { None }, classes)
}

pub fn image_strategy() -> impl Strategy<Value = Image> {
    (
        crate::props::c14::spec_strategy(),
        0u8..12,
        proptest::collection::vec(prop_oneof![Just(1u8), Just(3u8), Just(5u8), Just(0u8)], 0..4),
        prop_oneof![3 => Just(5u8), 2 => Just(1u8), 1 => Just(3u8)],
        proptest::option::weighted(0.4, any::<u8>()),
        proptest::bool::weighted(0.25),
        prop_oneof![4 => Just(0u8), 1 => 1u8..4],
        proptest::bool::weighted(0.12),
    )
        .prop_map(|(spec, name, pad_perms, first_perms, gap_after, unlink, apk_junk_pages, non_elf)| Image { spec, name, pad_perms, first_perms, gap_after, unlink, apk_junk_pages, non_elf })
}

pub fn case_strategy() -> impl Strategy<Value = Case> {
    (
        proptest::collection::vec(image_strategy(), 1..7),
        proptest::option::weighted(0.5, any::<u16>()),
        proptest::collection::vec(
            (
                prop_oneof![2 => (any::<u16>(), any::<u8>()).prop_map(|(module, extra)| UserG::Containing { module, extra }), 1 => any::<u16>().prop_map(|module| UserG::Partial { module }), 1 => Just(UserG::Disjoint)],
                proptest::option::weighted(0.8, proptest::collection::vec(prop_oneof![8 => (0x20u8..0x7f).prop_map(|c| c as char), 1 => Just('\u{e9}'), 1 => Just('\u{1f600}'), 1 => Just('\u{4e2d}')], 0..20).prop_map(|v| v.into_iter().collect::<String>())),
                proptest::collection::vec(any::<u8>(), 0..33),
            ),
            0..4,
        ),
    )
        .prop_map(|(images, entry_in, user)| Case { images, entry_in, user })
}

pub fn run(ctx: &mut LaneCtx) {
    ctx.assume("expected modules are computed from the scenario (file bytes written by the harness, mapped completely and contiguously, so the memory view equals the file view) with the independent ELF reader; an image whose id is empty or all-zero, a non-ELF file, and an image wholly inside a user mapping must not be listed; version info is not part of the statement and is not judged");
    ctx.run_sub(
        SubSpec {
            name: "live-modules",
            cases: (1_440, 25_000),
            rule: "1..6 synthetic ELF images per target (ELF kit: with/without build-id note via PT_NOTE or section, id lengths 0..64 incl. all-zero, with/without SONAME via PT_DYNAMIC/SHT_DYNAMIC, with/without section table, 64/32 bit, LE/BE) in files named with spaces / non-ASCII (also characters outside the Basic Multilingual Plane) / .so.N versions, mapped loader-style in 1..4 parts of differing permissions with optional PROT_NONE gap, or 'APK style' from a non-zero offset, some unlinked after mapping, some non-ELF, some with only their first page mapped (section table not in memory: id / SONAME must then come from the file); direct auxv entry address inside a synthetic module, kernel auxv, or caller-supplied true values of which any subset is left zero (unset); 0..3 user mappings containing / partially overlapping / disjoint; in a third of the cases the judged image is the second request (or the retry after a failed one) of the same writer; oracle in assumptions; non-trivial = >=2 images with different feature sets or a user mapping that suppresses a module; distinct = hash of case",
            strategy: case_strategy().boxed(),
            max_shrink_iters: 150,
            log_current: true,
        },
        check,
    );
}

pub fn replay(sub: &str, case: &Value) -> Verdict {
    match sub {
        "live-modules" => replay_case::<Case>(case, check),
        _ => Verdict::Inconclusive(format!("unknown sub {sub}")),
    }
}
