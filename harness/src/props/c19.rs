//! C19 – a writer can be reused: successive dumps are independent.

use crate::fw::*;
use crate::props::c01::pick;
use crate::vcore::dest::Dest;
use crate::vcore::md;
use crate::vcore::normal::*;
use crate::vcore::regs::*;
use crate::vcore::target::*;
use crate::vcore::world::*;
use minidump_writer::app_memory::AppMemory;
use proptest::prelude::*;
use serde::{Deserialize, Serialize};
use serde_json::Value;

pub const LEVEL: &str = "exploration";

#[derive(Debug, Clone, PartialEq, Eq, Hash, Serialize, Deserialize)]
pub struct Step {
    /// configuration in force for this dump
    pub blamed: u16,
    pub crash: bool,
    pub crash_rip_in_map: bool,
    pub app: Vec<(u16, u16)>,
    pub skip: bool,
    /// principal address: Some(inside a stack of thread k) / Some(unmapped) / None
    pub principal: Option<Option<u16>>,
    pub sanitize: bool,
    /// change the target before this dump: cue exiter k
    pub cue: Option<u16>,
    /// blame a thread id that is not part of the target (the dumping process itself)
    #[serde(default)]
    pub blamed_foreign: bool,
    /// make this request fail: 1 = destination I/O error at call k, 2 = unreadable app memory region
    #[serde(default)]
    pub fail: Option<(u8, u8)>,
    /// change the target before this dump: make the last page of the application mapping
    /// inaccessible (true) or accessible again (false)
    #[serde(default)]
    pub protect: Option<bool>,
    /// leave the writer exactly as the previous request left it (same configuration as the previous step)
    #[serde(default)]
    pub same_config: bool,
    /// the principal address of this step lies in the extra mapping (which every parked stack points into)
    #[serde(default)]
    pub principal_in_extra: bool,
    /// change the target before this dump: unmap the extra mapping (happens once)
    #[serde(default)]
    pub unmap_extra: bool,
    /// for the duration of this request (reused and fresh writer alike) parked thread k is held by
    /// another tracer, so that it cannot be attached and is missing from this one dump
    #[serde(default)]
    pub hold: Option<u16>,
}

#[derive(Debug, Clone, PartialEq, Eq, Hash, Serialize, Deserialize)]
pub struct Case {
    pub parked: u8,
    pub exiters: u8,
    pub limit: Option<u32>,
    pub steps: Vec<Step>,
    /// caller-supplied auxiliary-vector values that differ from the kernel's: the entry address lies in
    /// another module (1), additionally the program headers are declared absent (2)
    #[serde(default)]
    pub direct_auxv: u8,
    /// 22..27 parked threads and a size limit this many bytes (mod 3 "fixed parts") above the writer's
    /// estimate threshold: the limit must mean the same for every request
    #[serde(default)]
    pub near_threshold: Option<u16>,
}

pub fn check(c: &Case) -> Verdict {
    init_scratch();
    let scratch = Target::new_scratch();
    let mut b = Builder::new();
    let mut stacks = vec![];
    let mut parked_ids = vec![];
    let mut exiter_ids = vec![];
    let n_parked = match c.near_threshold {
        Some(d) => 22 + (d % 6) as u8,
        None => c.parked % 6 + 1,
    };
    for i in 0..n_parked {
        let st = b.add_stack(2, true, 40 + i as u64);
        let sp = st.base + 0x1000 + 24 * i as u64;
        let id = b.add_thread(K_PARKED, Some(format!("p{i}").into_bytes()), sp, 900 + i as u64);
        // a pointer into the next thread's stack, so that skip-unreferenced has something to find
        b.spec.pokes.push((sp + 16, STACK_AREA + ((i as u64 + 1) % (n_parked as u64)) * STACK_STRIDE + 0x20_0000 + 64));
        stacks.push(st);
        parked_ids.push(id);
    }
    for i in 0..(c.exiters % 3) {
        let id = b.add_thread(K_EXITER, Some(format!("x{i}").into_bytes()), 0, 950 + i as u64);
        exiter_ids.push(id);
    }
    let (extra_id, extra) = b.add_anon(2, 1, 0xE7);
    for st in &stacks {
        // every parked stack also references the extra mapping
        b.spec.pokes.push((st.base + 0x1000 + 24 * 6 + 64, extra + 0x800));
    }
    let (_, appmap) = b.add_anon(4, 3, 0xA44);
    let (_, ipmap) = b.add_anon(1, 5, 0x1b);
    let spec = b.spec.clone();
    let mut t = match Target::spawn(&spec, scratch) {
        Ok(t) => t,
        Err(e) => return Verdict::Inconclusive(format!("target setup: {}", e.split(':').next().unwrap_or(""))),
    };
    if !t.wait_settled(&spec) {
        return Verdict::Inconclusive("target did not settle".into());
    }
    let pid = t.pid;
    let tids: Vec<i32> = std::iter::once(pid).chain(parked_ids.iter().map(|id| t.tid(*id))).collect();
    let direct: Option<[u64; 4]> = if c.direct_auxv % 3 == 0 {
        None
    } else {
        // an address inside the C library's executable mapping: that module must then be listed first
        let maps = crate::props::fid::parse_maps(&t.maps_text().unwrap_or_default());
        let other = maps.iter().find(|l| l.perms & 4 != 0 && l.name.contains("libc")).map(|l| l.start + 0x40);
        let a = crate::props::c01::true_auxv(pid);
        other.map(|e| if c.direct_auxv % 3 == 1 { [a[0], a[1], 0, e] } else { [a[0], a[1], a[2], e] })
    };
    let size_limit: Option<u64> = match c.near_threshold {
        Some(d) => {
            // the writer's estimate: position after the thread list + 8 KiB per thread + 64 KiB
            let n = 1 + n_parked as u64 + (c.exiters % 3) as u64;
            let fixed = 252 + 48 * n;
            Some(fixed + 8192 * n + 65536 + 1 + (d as u64 * 37) % (3 * fixed))
        }
        None => c.limit.map(|l| l as u64 + 60_000),
    };
    let opts_of = |s: &Step| -> DumpOpts {
        let blamed = if s.blamed_foreign { std::process::id() as i32 } else { tids[pick(s.blamed, tids.len())] };
        let mut o = DumpOpts { blamed, sanitize: s.sanitize, skip_unreferenced: s.skip, size_limit: size_limit, direct_auxv: direct, ..Default::default() };
        if s.crash {
            let mut sd = 7u64;
            let mut gregs: Vec<i64> = (0..23).map(|_| splitmix(&mut sd) as i64).collect();
            gregs[REG_RSP] = (stacks[0].base + 0x1100) as i64;
            gregs[REG_RIP] = if s.crash_rip_in_map { (ipmap + 200) as i64 } else { 0x3000_0000_0000u64 as i64 };
            o.crash = Some(CrashContext2 { gregs, fp: fpstate_of_fx(&sentinel_fx(5)), signo: 11, code: 2, addr: 0x1234, tid: blamed });
        }
        for (off, len) in s.app.iter().filter(|_| !s.blamed_foreign) {
            let off = *off as u64 % 0x3000;
            o.app_memory.push((appmap + off, 1 + (*len as u64 % (0x4000 - off))));
        }
        if let Some((2, _)) = s.fail {
            o.app_memory.push((0x3000_0000_0000, 64));
        }
        o.principal = match s.principal {
            None => None,
            Some(_) if s.principal_in_extra => Some(extra + 0x1010),
            Some(None) => Some(0x3000_0000_0000),
            Some(Some(k)) => Some(stacks[pick(k, stacks.len())].base + 8),
        };
        o
    };
    // all remaining threads blocked again (parked in pause, main in read): a thread that is still
    // on its way back into its system call shows different registers
    let mut alive_spec = TSpec { threads: spec.threads.clone(), ..Default::default() };
    // a step with `same_config` repeats the configuration of the step before it (its own target changes and faults stay)
    let mut eff: Vec<Step> = vec![];
    for s in &c.steps {
        let mut e = s.clone();
        if s.same_config {
            if let Some(p) = eff.last() {
                e = Step { cue: s.cue, protect: s.protect, unmap_extra: s.unmap_extra, hold: s.hold, fail: s.fail.filter(|f| f.0 == 1), same_config: true, ..p.clone() };
                if let Some((2, _)) = p.fail {
                    e.fail = p.fail;
                }
            }
        }
        eff.push(e);
    }
    let c = &Case { steps: eff, ..c.clone() };
    let Some(first) = c.steps.first() else { return Verdict::pass() };
    let mut w = make_writer(pid, &opts_of(first));
    let mut classes = vec![];
    let mut changed = false;
    let mut extra_unmapped = false;
    for (k, s) in c.steps.iter().enumerate() {
        if let Some(x) = s.cue {
            if !exiter_ids.is_empty() {
                let id = exiter_ids[pick(x, exiter_ids.len())];
                let tid = t.tid(id);
                t.cmd(&format!("cue {id}"));
                alive_spec.threads.retain(|th| th.id != id);
                let dl = std::time::Instant::now() + std::time::Duration::from_millis(500);
                while t.thread_alive(tid) && std::time::Instant::now() < dl {
                    std::thread::sleep(std::time::Duration::from_micros(200));
                }
                changed = true;
                if !t.wait_settled(&alive_spec) {
                    return Verdict::Inconclusive("main thread did not return to its command loop".into());
                }
            }
        }
        if s.unmap_extra && !extra_unmapped {
            if t.cmd(&format!("unmap {extra_id}")) {
                extra_unmapped = true;
                changed = true;
                classes.push("extra-mapping-unmapped".to_string());
            }
            if !t.wait_settled(&alive_spec) {
                return Verdict::Inconclusive("main thread did not return to its command loop".into());
            }
        }
        if let Some(p) = s.protect {
            if t.cmd(&format!("protect {:x} 1000 {}", appmap + 0x3000, if p { 0 } else { 3 })) {
                changed = true;
                classes.push(if p { "app-page-made-inaccessible" } else { "app-page-made-accessible" }.to_string());
            }
            if !t.wait_settled(&alive_spec) {
                return Verdict::Inconclusive("main thread did not return to its command loop".into());
            }
        }
        let o = opts_of(s);
        if k > 0 {
            // reconfigure the reused writer through its public fields
            let prev = opts_of(&c.steps[k - 1]);
            if o.blamed != prev.blamed || o.crash != prev.crash || o.app_memory != prev.app_memory || o.principal != prev.principal || o.sanitize != prev.sanitize || o.skip_unreferenced != prev.skip_unreferenced {
                changed = true;
            }
            // only what the caller changes is assigned; everything else stays as the previous request left it
            if o.blamed != prev.blamed {
                w.blamed_thread = o.blamed;
            }
            if o.crash != prev.crash {
                w.crash_context = o.crash.as_ref().map(|c| c.build(pid));
            }
            if o.app_memory != prev.app_memory {
                w.app_memory = o.app_memory.iter().map(|(p, l)| AppMemory { ptr: *p as usize, length: *l as usize }).collect();
            }
            if o.principal != prev.principal {
                w.principal_mapping_address = o.principal.map(|p| p as usize);
            }
            w.sanitize_stack = o.sanitize;
            w.skip_stacks_if_mapping_unreferenced = o.skip_unreferenced;
            if s.same_config {
                classes.push("writer-untouched-between-requests".to_string());
            }
        }
        if !t.wait_settled(&alive_spec) {
            return Verdict::Inconclusive("target did not settle between dumps".into());
        }
        let fault = match s.fail {
            Some((1, k)) => crate::vcore::dest::Fault::ErrAt(2 + k as u64 % 60),
            _ => crate::vcore::dest::Fault::None,
        };
        let held: Option<i32> = s.hold.and_then(|k| {
            let tid = t.tid(parked_ids[pick(k, parked_ids.len())]);
            (unsafe { libc::ptrace(libc::PTRACE_SEIZE, tid, 0, 0) } == 0).then_some(tid)
        });
        let mut d1 = Dest::new(vec![], 0).with_fault(fault);
        let r1 = run_dump(&mut w, &mut d1);
        if let Some(tid) = held {
            let_held_thread_run(&t, tid);
        }
        if !t.wait_settled(&alive_spec) {
            return Verdict::Inconclusive("target did not settle between dumps".into());
        }
        let mut fresh = make_writer(pid, &o);
        let mut d2 = Dest::new(vec![], 0).with_fault(fault);
        let r2 = run_dump(&mut fresh, &mut d2);
        if let Some(tid) = held {
            // a seized thread can only be released from a stop
            let_held_thread_run(&t, tid);
            unsafe {
                libc::ptrace(libc::PTRACE_INTERRUPT, tid, 0, 0);
                let mut st = 0;
                libc::waitpid(tid, &mut st, libc::__WALL);
                libc::ptrace(libc::PTRACE_DETACH, tid, 0, 0);
            }
            changed = true;
            classes.push("thread-held-by-another-tracer-during-one-request".to_string());
            if tid == o.blamed {
                classes.push("blamed-thread-held-by-another-tracer-during-one-request".to_string());
            }
        }
        if s.fail.is_some() {
            classes.push("failed-request-in-history".to_string());
        }
        match (r1, r2) {
            (DumpOutcome::Panic(l, m), _) | (_, DumpOutcome::Panic(l, m)) => return panic_verdict(&l, &m),
            (DumpOutcome::Ok(a), DumpOutcome::Ok(bb)) => {
                let da = md::decode(&a);
                let db = md::decode(&bb);
                if let Some(p) = md::structural_problems(&da, Some(18)).first() {
                    return Verdict::viol(format!("C19:dump{}:structure:{}", k.min(1) + 1, p.sig), format!("dump #{} of the reused writer: {}", k + 1, p.detail));
                }
                if let Some(p) = md::structural_problems(&db, Some(18)).first() {
                    return Verdict::viol(format!("C19:fresh:structure:{}", p.sig), p.detail.clone());
                }
                let (mut na, mut nb) = (normal_form(&a, &da), normal_form(&bb, &db));
                if s.blamed_foreign {
                    // these streams then describe the (running) dumping process, not the target
                    for n in [&mut na, &mut nb] {
                        n.meminfo.clear();
                        n.raw.clear();
                    }
                }
                // exiter threads live on glibc stacks whose TCB (rseq cpu id) the kernel rewrites on every resume
                for id in &exiter_ids {
                    let tid = t.tid(*id) as u32;
                    for n in [&mut na, &mut nb] {
                        if let Some((start, bytes, _)) = n.threads.get_mut(&tid) {
                            let (s0, l0) = (*start, bytes.len());
                            bytes.iter_mut().for_each(|x| *x = 0);
                            for (ms, mb) in n.memory.iter_mut() {
                                if *ms == s0 && mb.len() == l0 {
                                    mb.iter_mut().for_each(|x| *x = 0);
                                }
                            }
                        }
                    }
                }
                if let Some((what, detail)) = first_difference(&na, &nb) {
                    return Verdict::viol(format!("C19:differs-from-fresh:{what}"), format!("dump #{} of the reused writer differs from a fresh writer's dump in {what}: {detail}", k + 1));
                }
            }
            (DumpOutcome::Err(a), DumpOutcome::Err(bb)) => {
                let tag = |s: &str| s.split('(').next().unwrap_or("").to_string();
                if tag(&a) != tag(&bb) {
                    return Verdict::viol("C19:differs-from-fresh:outcome", format!("reused writer: Err({a}); fresh writer: Err({bb})"));
                }
                classes.push("both-error".to_string());
            }
            (a, bb) => {
                return Verdict::viol("C19:differs-from-fresh:outcome", format!("dump #{}: reused writer {}, fresh writer {}", k + 1, if matches!(a, DumpOutcome::Ok(_)) { "Ok" } else { "Err" }, if matches!(bb, DumpOutcome::Ok(_)) { "Ok" } else { "Err" }));
            }
        }
    }
    let mem_opts = c.steps.iter().any(|s| !s.app.is_empty() || s.crash);
    if changed {
        classes.push("configuration-or-target-changed".into());
    }
    let nt = c.steps.len() >= 2 && (mem_opts || changed);
    Verdict::pass_c(if nt { Some(fp_json(c)) } else { None }, classes)
}

/// The other tracer's duty: the writer's SIGSTOP put the held thread into a group-stop that only its
/// tracer can end.  Consumes the pending stop reports and lets the thread run on (after the writer's
/// SIGCONT), until it is back in its system call.
fn let_held_thread_run(t: &Target, tid: i32) {
    let deadline = std::time::Instant::now() + std::time::Duration::from_millis(200);
    let mut quiet = 0;
    while std::time::Instant::now() < deadline && quiet < 3 {
        let mut st = 0;
        let r = unsafe { libc::waitpid(tid, &mut st, libc::__WALL | libc::WNOHANG) };
        if r == tid && libc::WIFSTOPPED(st) {
            let sig = libc::WSTOPSIG(st);
            let event = st >> 16;
            // group-stop / interrupt reports carry an event code; anything else is a signal on its way
            // to the thread and is passed on (SIGSTOP itself would only stop the group once more)
            let pass = if event != 0 || sig == libc::SIGSTOP { 0 } else { sig };
            unsafe { libc::ptrace(libc::PTRACE_CONT, tid, 0, pass) };
            quiet = 0;
            continue;
        }
        if t.thread_status(tid).map(|(s, _)| s == 'S').unwrap_or(true) {
            quiet += 1;
        } else {
            quiet = 0;
        }
        std::thread::sleep(std::time::Duration::from_micros(300));
    }
}

fn step_strategy() -> impl Strategy<Value = Step> {
    (
        any::<u16>(),
        any::<bool>(),
        any::<bool>(),
        proptest::collection::vec((any::<u16>(), any::<u16>()), 0..4),
        proptest::bool::weighted(0.4),
        prop_oneof![2 => Just(None), 1 => Just(Some(None)), 3 => any::<u16>().prop_map(|k| Some(Some(k)))],
        any::<bool>(),
        proptest::option::weighted(0.3, any::<u16>()),
        proptest::bool::weighted(0.2),
        proptest::option::weighted(0.3, (1u8..3, any::<u8>())),
        (proptest::option::weighted(0.35, any::<bool>()), proptest::bool::weighted(0.4), proptest::bool::weighted(0.4), proptest::bool::weighted(0.2), proptest::option::weighted(0.25, any::<u16>())),
    )
        .prop_map(|(blamed, crash, crash_rip_in_map, app, skip, principal, sanitize, cue, blamed_foreign, fail, (protect, same_config, principal_in_extra, unmap_extra, hold))| Step { blamed, crash, crash_rip_in_map, app, skip, principal, sanitize, cue, blamed_foreign, fail, protect, same_config, principal_in_extra, unmap_extra, hold })
}

pub fn run(ctx: &mut LaneCtx) {
    ctx.assume("equivalence = equality of the normal form (thread ids, contexts, stack extents and bytes, memory list as a set, modules, exception record incl. whether it shares the blamed thread's context, thread names, memory info, handles, system info, DSO stream, raw streams except /proc/<tid>/status and /proc/cpuinfo, soft errors); the target consists of blocked threads only so two consecutive dumps see the same state");
    ctx.run_sub(
        SubSpec {
            name: "reuse-history",
            cases: (960, 15_000),
            rule: "one writer (optionally configured with caller-supplied auxiliary-vector values that differ from the kernel's: entry address in another module; optionally with 22..27 threads and a size limit just above the estimate threshold), 2..5 dump() calls, some of which are made to fail (destination I/O error at a generated call, unreadable app memory); between calls the public configuration (blamed thread, crash context on/off, app memory, principal address, skip, sanitize) may change or the writer is left untouched, and the target may change (an exiter thread is cued; the last page of the application mapping - into which registered regions may run - becomes inaccessible or accessible again; a parked thread - possibly the blamed one - is held by another tracer for the duration of one request and so missing from it); after each call a freshly configured writer dumps the same blocked target; oracle = strict structure of both + normal-form equality; non-trivial = >= 2 calls with a memory-producing option or a change between calls; distinct = hash of case",
            strategy: (0u8..6, 0u8..3, proptest::option::weighted(0.3, 0u32..20_000), proptest::collection::vec(step_strategy(), 2..6), prop_oneof![2 => Just(0u8), 1 => 1u8..3], proptest::option::weighted(0.15, any::<u16>())).prop_map(|(parked, exiters, limit, steps, direct_auxv, near_threshold)| Case { parked, exiters, limit, steps, direct_auxv, near_threshold }).boxed(),
            max_shrink_iters: 100,
            log_current: true,
        },
        check,
    );
}

pub fn replay(sub: &str, case: &Value) -> Verdict {
    match sub {
        "reuse-history" => replay_case::<Case>(case, check),
        _ => Verdict::Inconclusive(format!("unknown sub {sub}")),
    }
}
