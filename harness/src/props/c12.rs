//! C12 – stack sanitization lets only pointers and small integers survive.
//!
//! Pure part: `PtraceDumper::sanitize_stack_copy` on generated (mapping layout,
//! stack bytes, stack pointer, offset) tuples vs a direct reference classifier
//! written from the statement.

use crate::fw::*;
use crate::vcore::dumper::{mapping, with_dumper};
use crate::vcore::layout::*;
use proptest::prelude::*;
use serde::{Deserialize, Serialize};
use serde_json::Value;

pub const LEVEL: &str = "exploration";
pub const SENTINEL: u64 = 0x0defaced0defaced;

#[derive(Debug, Clone, PartialEq, Eq, Hash, Serialize, Deserialize)]
pub enum Edge {
    StartM1,
    Start,
    StartP1,
    Mid(u32),
    EndM1,
    End,
    EndP1,
}

#[derive(Debug, Clone, PartialEq, Eq, Hash, Serialize, Deserialize)]
pub enum Word {
    Small(i16),
    MapRel { map: u16, edge: Edge, alias: i8 },
    Sentinel,
    Random(u64),
}

#[derive(Debug, Clone, PartialEq, Eq, Hash, Serialize, Deserialize)]
pub enum SpSel {
    InMapping { map: u16, off: u32 },
    Outside(u64),
}

#[derive(Debug, Clone, PartialEq, Eq, Hash, Serialize, Deserialize)]
pub struct Case {
    pub layout: Layout,
    pub sp: SpSel,
    pub words: Vec<Word>,
    /// extra bytes after the last full word (0..7)
    pub tail: u8,
    /// sp_offset argument
    pub sp_offset: u16,
}

fn word_value(w: &Word, regions: &[Region]) -> u64 {
    match w {
        Word::Small(v) => *v as i64 as u64,
        Word::Sentinel => SENTINEL,
        Word::Random(v) => *v,
        Word::MapRel { map, edge, alias } => {
            if regions.is_empty() {
                return 0xdead_0000_beef;
            }
            let r = regions[pick(*map, regions.len())];
            let a = match edge {
                Edge::StartM1 => r.start - 1,
                Edge::Start => r.start,
                Edge::StartP1 => r.start + 1,
                Edge::Mid(o) => r.start + (*o as u64) % (r.end - r.start),
                Edge::EndM1 => r.end - 1,
                Edge::End => r.end,
                Edge::EndP1 => r.end + 1,
            };
            a.wrapping_add((*alias as i64 as u64).wrapping_mul(ALIAS))
        }
    }
}

fn sp_value(s: &SpSel, regions: &[Region]) -> u64 {
    match s {
        SpSel::InMapping { map, off } => {
            if regions.is_empty() {
                0x1234_5678
            } else {
                let r = regions[pick(*map, regions.len())];
                r.start + (*off as u64) % (r.end - r.start)
            }
        }
        SpSel::Outside(a) => *a,
    }
}

#[derive(Debug, Clone, Copy, PartialEq, Eq)]
enum Class {
    SmallNonNeg,
    SmallNeg,
    StackPtr,
    ExecPtr,
    Other,
}

fn classify(v: u64, stack_map: Option<Region>, regions: &[Region]) -> Class {
    let s = v as i64;
    if (0..=4096).contains(&s) {
        return Class::SmallNonNeg;
    }
    if (-4096..0).contains(&s) {
        return Class::SmallNeg;
    }
    if let Some(m) = stack_map {
        if m.contains(v) {
            return Class::StackPtr;
        }
    }
    if regions.iter().any(|r| r.exec() && r.contains(v)) {
        return Class::ExecPtr;
    }
    Class::Other
}

pub fn check(c: &Case) -> Verdict {
    let regions = c.layout.resolve();
    let sp = sp_value(&c.sp, &regions);
    let mut stack: Vec<u8> = vec![];
    let vals: Vec<u64> = c.words.iter().map(|w| word_value(w, &regions)).collect();
    for v in &vals {
        stack.extend_from_slice(&v.to_le_bytes());
    }
    for i in 0..(c.tail % 8) {
        stack.push(0x80 | (i * 37 + 1));
    }
    let input = stack.clone();
    let sp_offset = c.sp_offset as usize;
    let res = with_dumper(|d, _| {
        d.mappings = regions
            .iter()
            .map(|r| mapping(r.start as usize, (r.end - r.start) as usize, r.perms, None, 0))
            .collect();
        d.sanitize_stack_copy(&mut stack, sp as usize, sp_offset)
    });
    if let Err(e) = res {
        return Verdict::viol("C12:error", format!("sanitize_stack_copy returned {e:?}"));
    }
    if stack.len() != input.len() {
        return Verdict::viol("C12:length-changed", format!("{} -> {}", input.len(), stack.len()));
    }
    let stack_map = regions.iter().copied().find(|r| r.contains(sp));
    let start = ((sp_offset + 7) & !7).min(input.len());
    if stack[..start].iter().any(|b| *b != 0) {
        return Verdict::viol("C12:below-sp-not-zeroed", format!("bytes below offset {start} are not all zero"));
    }
    let mut seen = std::collections::BTreeSet::new();
    let mut pos = start;
    while pos + 8 <= input.len() {
        let v = u64::from_le_bytes(input[pos..pos + 8].try_into().unwrap());
        let got = u64::from_le_bytes(stack[pos..pos + 8].try_into().unwrap());
        let cl = classify(v, stack_map, &regions);
        let keep = cl != Class::Other;
        if keep {
            if got != v {
                return Verdict::viol(
                    format!("C12:qualifying-word-changed:{cl:?}"),
                    format!("word {v:#x} at byte {pos} ({cl:?}) became {got:#x}; sp={sp:#x} regions={regions:x?}"),
                );
            }
            seen.insert(match cl {
                Class::SmallNeg | Class::SmallNonNeg => "kept-small",
                _ => "kept-pointer",
            });
        } else {
            if got != SENTINEL {
                let sig = if got == v { "C12:non-qualifying-word-kept" } else { "C12:wrong-replacement" };
                return Verdict::viol(sig, format!("word {v:#x} at byte {pos} qualifies for nothing but became {got:#x}; sp={sp:#x} regions={regions:x?}"));
            }
            // alias of an address in an executable mapping?
            let aliased = (1..6u64).any(|k| {
                regions.iter().any(|r| r.exec() && (r.contains(v.wrapping_add(k * ALIAS)) || r.contains(v.wrapping_sub(k * ALIAS))))
            });
            seen.insert(if aliased { "defaced-alias" } else { "defaced" });
        }
        pos += 8;
    }
    if stack[pos..].iter().any(|b| *b != 0) {
        return Verdict::viol("C12:partial-word-not-zeroed", format!("trailing {} bytes not zero", input.len() - pos));
    }
    let mut classes: Vec<String> = seen.iter().map(|s| s.to_string()).collect();
    if sp_offset > input.len() {
        classes.push("offset-beyond-length".into());
    }
    if input.len() % 8 != 0 {
        classes.push("partial-tail".into());
    }
    let nt = if seen.len() == 4 { Some(fp_json(c)) } else { None };
    Verdict::pass_c(nt, classes)
}

fn word_strategy() -> impl Strategy<Value = Word> {
    let edge = prop_oneof![
        Just(Edge::StartM1),
        Just(Edge::Start),
        Just(Edge::StartP1),
        any::<u32>().prop_map(Edge::Mid),
        Just(Edge::EndM1),
        Just(Edge::End),
        Just(Edge::EndP1),
    ];
    prop_oneof![
        3 => (-4098i16..=4098).prop_map(Word::Small),
        1 => prop_oneof![Just(4096i16), Just(4097), Just(-4096), Just(-4097), Just(0), Just(-1)].prop_map(Word::Small),
        6 => (any::<u16>(), edge.clone(), Just(0i8)).prop_map(|(map, edge, alias)| Word::MapRel { map, edge, alias }),
        3 => (any::<u16>(), edge, prop_oneof![Just(1i8), Just(-1i8), -5i8..6]).prop_map(|(map, edge, alias)| Word::MapRel { map, edge, alias }),
        1 => Just(Word::Sentinel),
        2 => any::<u64>().prop_map(Word::Random),
        // values at the ends of the signed and unsigned ranges (sign-magnitude traps)
        1 => prop_oneof![Just(1u64 << 63), Just((1u64 << 63) + 1), Just((1u64 << 63) - 1), Just(u64::MAX), Just(u64::MAX - 4095), Just(u64::MAX - 4096), Just((1u64 << 63) + 4096), Just(1u64 << 32), Just(u32::MAX as u64)].prop_map(Word::Random),
    ]
}

pub fn case_strategy() -> impl Strategy<Value = Case> {
    (
        layout_strategy(40, 786_432),
        prop_oneof![
            4 => (any::<u16>(), any::<u32>()).prop_map(|(map, off)| SpSel::InMapping { map, off }),
            1 => any::<u64>().prop_map(SpSel::Outside),
        ],
        proptest::collection::vec(word_strategy(), 0..64),
        0u8..8,
        prop_oneof![4 => 0u16..64, 2 => 0u16..600, 1 => Just(0u16)],
    )
        .prop_map(|(layout, sp, words, tail, sp_offset)| Case { layout, sp, words, tail, sp_offset })
}

/// Live judge: sanitized stacks of parked threads whose stacks carry planted words.
pub fn judge_live(c: &crate::props::planted::PCase) -> Verdict {
    use crate::props::planted::*;
    let o = match run_case(c) {
        Ok(o) => o,
        Err(Verdict::Violation { signature, detail }) if signature == "dump-failed" => return Verdict::pass_c(None, vec![format!("dump-error:{}", detail.split('(').next().unwrap_or(""))]),
        Err(v) => return v,
    };
    let Some(threads) = o.d.threads.as_ref() else { return Verdict::viol("C12:no-thread-list", "thread list missing".to_string()) };
    // the writer's view of the address space: /proc/pid/maps lines (the planted pointers only target
    // the harness' own anonymous mappings, which are never merged)
    let lines = crate::props::fid::parse_maps(&o.target.maps_text().unwrap_or_default());
    let regions: Vec<Region> = lines.iter().map(|l| Region { start: l.start, end: l.end, perms: l.perms & 7 }).collect();
    let mut seen = std::collections::BTreeSet::new();
    let mut words_checked = 0u64;
    for (i, tid) in o.tids.iter().enumerate() {
        let Some(t) = threads.iter().find(|t| t.tid as i32 == *tid) else { continue };
        if t.stack.size == 0 {
            continue;
        }
        if c.threads[i].spin_in_map.is_some() {
            continue; // spinners keep changing their slot
        }
        let sp = o.sps[i];
        let start = t.stack_start;
        let len = t.stack.size as usize;
        let Some(orig) = o.target.read_mem(start, len) else { return Verdict::Inconclusive("cannot read target stack".into()) };
        let got = &o.img[t.stack.rva as usize..t.stack.rva as usize + len];
        let stack_map = regions.iter().copied().find(|r| r.contains(sp));
        let below = (((sp.saturating_sub(start)) as usize + 7) & !7).min(len);
        if got[..below].iter().any(|b| *b != 0) {
            return Verdict::viol("C12:live:below-sp-not-zeroed", format!("thread {tid}: bytes below the stack pointer (offset {below}) are not all zero"));
        }
        let mut pos = below;
        while pos + 8 <= len {
            let v = u64::from_le_bytes(orig[pos..pos + 8].try_into().unwrap());
            let g = u64::from_le_bytes(got[pos..pos + 8].try_into().unwrap());
            let cl = classify(v, stack_map, &regions);
            if cl != Class::Other {
                if g != v {
                    return Verdict::viol(format!("C12:live:qualifying-word-changed:{cl:?}"), format!("thread {tid}: word {v:#x} at {:#x} ({cl:?}) became {g:#x}", start + pos as u64));
                }
                seen.insert(match cl {
                    Class::SmallNeg | Class::SmallNonNeg => "kept-small",
                    _ => "kept-pointer",
                });
            } else {
                if g != SENTINEL {
                    return Verdict::viol(if g == v { "C12:live:non-qualifying-word-kept" } else { "C12:live:wrong-replacement" }, format!("thread {tid}: word {v:#x} at {:#x} qualifies for nothing but became {g:#x}", start + pos as u64));
                }
                seen.insert("defaced");
            }
            words_checked += 1;
            pos += 8;
        }
        if got[pos..].iter().any(|b| *b != 0) {
            return Verdict::viol("C12:live:partial-word-not-zeroed", format!("thread {tid}"));
        }
    }
    crate::fw::count("live-words-classified", words_checked);
    let mut classes: Vec<String> = seen.iter().map(|s| s.to_string()).collect();
    if c.limit && c.threads.len() > 20 {
        classes.push("limit-shortened-stacks".into());
    }
    Verdict::pass_c(if seen.len() == 3 { Some(fp_json(c)) } else { None }, classes)
}

pub fn run(ctx: &mut LaneCtx) {
    ctx.run_sub(
        SubSpec {
            name: "live-sanitized",
            cases: (720, 10_000),
            rule: "sanitized dumps of live targets: 1..43 parked threads (with or without a size limit that shortens the stacks of threads at position >= 20) on pattern-filled custom stacks with planted words (pointers into executable / non-executable mappings, one past a mapping's end, own-stack pointers, small integers around +-4096, random), sp at any offset incl. misaligned; oracle = reference classifier over the target's memory (read back through /proc/pid/mem) with /proc/pid/maps as the mapping list; non-trivial = kept-small, kept-pointer and defaced words all occur; distinct = hash of case",
            strategy: crate::props::planted::case_strategy(Some(true), Some(false), None).boxed(),
            max_shrink_iters: 150,
            log_current: true,
        },
        judge_live,
    );
    ctx.assume("stack mapping = the mapping containing the stack pointer passed to the sanitizer (kernel range); mappings are page-aligned, sorted and disjoint as /proc/pid/maps guarantees");
    ctx.run_sub(
        SubSpec {
            name: "pure-sanitize",
            cases: (120_000, 10_000_000),
            rule: "generated (mapping layout <=40 maps incl. bucket-edge and 4 GiB-alias placements, stack words from {small ints around +-4096, mapping edges, aliases +-k*2^32, sentinel, the ends of the signed/unsigned 64-bit ranges, random}, 0..7 trailing bytes, sp inside/outside mappings, sp_offset 0..600 incl. > len) vs reference classifier; non-trivial = the case has kept-small, kept-pointer, defaced and alias-defaced words; distinct = hash of the case",
            strategy: case_strategy().boxed(),
            max_shrink_iters: 4096,
            log_current: false,
        },
        check,
    );
}

pub fn replay(sub: &str, case: &Value) -> Verdict {
    match sub {
        "pure-sanitize" => replay_case::<Case>(case, check),
        "live-sanitized" => replay_case::<crate::props::planted::PCase>(case, judge_live),
        _ => Verdict::Inconclusive(format!("unknown sub {sub}")),
    }
}
