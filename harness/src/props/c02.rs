//! C02 – dumping is total: it always returns and never panics or hangs.

use crate::fw::*;
use crate::vcore::arena::*;
use crate::vcore::dso::*;
use crate::vcore::dumper::mapping;
use minidump_writer::mem_writer::Buffer;
use minidump_writer::minidump_writer::DirectAuxvDumpInfo;
use minidump_writer::verif_api::{write_dso_debug_stream, AuxvDumpInfo};
use proptest::prelude::*;
use serde::{Deserialize, Serialize};
use serde_json::Value;

pub const LEVEL: &str = "exploration";

pub fn run_dso(c: &DsoCase) -> Result<(Result<(Vec<u8>, u32, u32), String>, Expect), String> {
    with_arena(|a| {
        let (phnum, phdr, exp) = lay_out(c, a);
        let auxv: AuxvDumpInfo = DirectAuxvDumpInfo {
            program_header_count: phnum,
            program_header_address: phdr,
            linux_gate_address: 1,
            entry_address: 1,
        }
        .into();
        let pid = a.pid();
        let mut buf = Buffer::with_capacity(0);
        buf.write_all(&[0xEE; 24]);
        let r = with_watchdog(20.0, || write_dso_debug_stream(&mut buf, pid, &auxv));
        let img: Vec<u8> = buf.into();
        match r {
            Ok(d) => (Ok((img, d.location.rva, d.location.data_size)), exp),
            Err(e) => (Err(format!("{e:?}")), exp),
        }
    })
}

pub fn check_dso(c: &DsoCase) -> Verdict {
    let (r, exp) = match run_dso(c) {
        Ok(x) => x,
        Err(e) => return Verdict::Inconclusive(format!("arena: {e}")),
    };
    let mut classes = vec![];
    if exp.well_formed {
        classes.push("well-formed".to_string());
    } else {
        classes.push("hostile".to_string());
    }
    match r {
        Ok((_img, _rva, _size)) => {
            // (structure of the produced stream is C01's subject: props::c01 sub dso-stream)
            classes.push("ok".into());
        }
        Err(e) => {
            classes.push(format!("err:{}", e.split('(').next().unwrap_or("")));
        }
    }
    let nt = if !exp.well_formed { Some(fp_json(c)) } else { None };
    Verdict::pass_c(nt, classes)
}

// ---------------------------------------------------------------------------
// hostile mapped-file names -> effective path / version
// ---------------------------------------------------------------------------

#[derive(Debug, Clone, PartialEq, Eq, Hash, Serialize, Deserialize)]
pub struct NameCase {
    pub dir: Vec<u8>,
    pub stem: Vec<u8>,
    pub comps: Vec<Vec<u8>>,
    pub so_marker: bool,
    pub soname: Option<String>,
    pub exec: bool,
    pub offset: u32,
}

pub fn check_name(c: &NameCase) -> Verdict {
    use std::os::unix::ffi::OsStringExt;
    let mut name: Vec<u8> = c.dir.clone();
    name.push(b'/');
    name.extend_from_slice(&c.stem);
    if c.so_marker {
        name.extend_from_slice(b".so");
        for comp in &c.comps {
            name.push(b'.');
            name.extend_from_slice(comp);
        }
    }
    let mut m = mapping(0x10000, 0x4000, if c.exec { 5 } else { 1 }, None, c.offset as usize * 4096);
    m.name = Some(std::ffi::OsString::from_vec(name.clone()));
    // SONAME supplied => no file access; None => the file (which does not exist) is tried
    let r = m.get_mapping_effective_path_name_and_version(c.soname.clone());
    let mut classes = vec![];
    match r {
        Ok((path, _file_name, ver)) => {
            classes.push(if ver.is_some() { "version-parsed".to_string() } else { "no-version".to_string() });
            let _ = path;
        }
        Err(_) => classes.push("err".into()),
    }
    let hostile = std::str::from_utf8(&name).is_err() || c.comps.iter().any(|c| c.iter().any(|b| !b.is_ascii_digit()));
    Verdict::pass_c(if hostile { Some(fp_json(c)) } else { None }, classes)
}

fn comp_strategy() -> impl Strategy<Value = Vec<u8>> {
    prop_oneof![
        4 => proptest::collection::vec(b'0'..=b'9', 0..4),
        3 => proptest::collection::vec(prop_oneof![b'0'..=b'9', b'a'..=b'z'], 0..6),
        2 => proptest::collection::vec(prop_oneof![3 => b'0'..=b'9', 1 => Just(0xc3u8), 1 => Just(0xa9u8), 1 => 0x80u8..=0xff, 1 => b'a'..=b'z'], 0..8),
        1 => Just("3\u{e9}4".as_bytes().to_vec()),
        1 => Just(b"99999999999".to_vec()),
    ]
}

pub fn name_case_strategy() -> impl Strategy<Value = NameCase> {
    (
        proptest::collection::vec(prop_oneof![4 => b'a'..=b'z', 1 => Just(b'/'), 1 => Just(b' '), 1 => 0x80u8..=0xff], 0..12),
        proptest::collection::vec(prop_oneof![6 => b'a'..=b'z', 1 => Just(b'.'), 1 => 0x80u8..=0xff], 0..10),
        proptest::collection::vec(comp_strategy(), 0..7),
        proptest::bool::weighted(0.85),
        proptest::option::weighted(0.7, proptest::collection::vec(prop_oneof![(0x20u8..0x7f).prop_map(|c| c as char), Just('\u{e9}')], 0..12).prop_map(|v| v.into_iter().collect::<String>())),
        any::<bool>(),
        0u32..3,
    )
        .prop_map(|(dir, stem, comps, so_marker, soname, exec, offset)| NameCase { dir, stem, comps, so_marker, soname, exec, offset })
}

pub fn run(ctx: &mut LaneCtx) {
    ctx.assume("bounded time: a call that has not returned after 20 s of wall time while burning CPU is a hang (exit code 42 of the lane, confirmed by replaying the case alone); a call merely blocked is inconclusive");
    ctx.run_sub(
        SubSpec {
            name: "dso-direct",
            cases: (4_000, 400_000),
            rule: "structure-aware linker data in a shared-memory arena of a live helper process (program headers, PT_LOAD/PT_DYNAMIC, dynamic section, r_debug, link_map chain, names) with corruptions (AT_PHNUM 0/100000/2^61/u64::MAX, PHDR/dynamic/r_debug near the arena end, in PROT_NONE, unmapped, 0, top of address space; PT_LOAD vaddr huge; dynamic without DT_NULL; cyclic / dangling l_next; non-UTF-8 / unterminated / unmapped names) through write_dso_debug_stream; oracle = returns Ok(decodable stream) or Err, no panic, no hang; non-trivial = at least one corruption; distinct = hash of case",
            strategy: dso_strategy().boxed(),
            max_shrink_iters: 600,
            log_current: true,
        },
        check_dso,
    );
    ctx.run_sub(
        SubSpec {
            name: "hostile-names",
            cases: (60_000, 3_000_000),
            rule: "mapped-file names <dir>/<stem>.so.<components> built from arbitrary bytes (digits, letters, multi-byte UTF-8, invalid UTF-8, empty, many components) through get_mapping_effective_path_name_and_version with and without a SONAME; oracle = returns without panicking; non-trivial = name is not UTF-8 or a version component is not all digits; distinct = hash of case",
            strategy: name_case_strategy().boxed(),
            max_shrink_iters: 4096,
            log_current: false,
        },
        check_name,
    );
}

pub fn replay(sub: &str, case: &Value) -> Verdict {
    match sub {
        "dso-direct" => replay_case::<DsoCase>(case, check_dso),
        "hostile-names" => replay_case::<NameCase>(case, check_name),
        _ => Verdict::Inconclusive(format!("unknown sub {sub}")),
    }
}
