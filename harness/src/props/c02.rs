//! C02 – dumping is total: it always returns and never panics or hangs.

use crate::fw::*;
use crate::vcore::arena::*;
use crate::vcore::dso::*;
use crate::vcore::dumper::mapping;
use minidump_writer::mem_writer::Buffer;
use minidump_writer::minidump_writer::DirectAuxvDumpInfo;
#[cfg(feature = "internals")]
use minidump_writer::verif_api::{write_dso_debug_stream, AuxvDumpInfo};
use proptest::prelude::*;
use serde::{Deserialize, Serialize};
use serde_json::Value;

pub const LEVEL: &str = "exploration";

pub const NO_INTERNALS: &str = "harness built without its internal-interface parts (they do not compile against this tree)";

#[cfg(not(feature = "internals"))]
pub fn run_dso(_c: &DsoCase) -> Result<(Result<(Vec<u8>, u32, u32), String>, Expect), String> {
    let _ = (Buffer::with_capacity(0), DirectAuxvDumpInfo::default());
    Err(NO_INTERNALS.into())
}

#[cfg(feature = "internals")]
pub fn run_dso(c: &DsoCase) -> Result<(Result<(Vec<u8>, u32, u32), String>, Expect), String> {
    with_arena(|a| {
        let (phnum, phdr, exp) = lay_out(c, a);
        let auxv: AuxvDumpInfo = DirectAuxvDumpInfo {
            program_header_count: phnum,
            program_header_address: phdr,
            linux_gate_address: 1,
            entry_address: 1,
        }
        .into();
        let pid = a.pid();
        let mut buf = Buffer::with_capacity(0);
        buf.write_all(&[0xEE; 24]);
        let r = with_watchdog(20.0, || write_dso_debug_stream(&mut buf, pid, &auxv));
        let img: Vec<u8> = buf.into();
        match r {
            Ok(d) => (Ok((img, d.location.rva, d.location.data_size)), exp),
            Err(e) => (Err(format!("{e:?}")), exp),
        }
    })
}

pub fn check_dso(c: &DsoCase) -> Verdict {
    let (r, exp) = match run_dso(c) {
        Ok(x) => x,
        Err(e) => return Verdict::Inconclusive(format!("arena: {e}")),
    };
    let mut classes = vec![];
    if exp.well_formed {
        classes.push("well-formed".to_string());
    } else {
        classes.push("hostile".to_string());
    }
    match r {
        Ok((_img, _rva, _size)) => {
            // (structure of the produced stream is C01's subject: props::c01 sub dso-stream)
            classes.push("ok".into());
        }
        Err(e) => {
            classes.push(format!("err:{}", e.split('(').next().unwrap_or("")));
        }
    }
    let nt = if !exp.well_formed { Some(fp_json(c)) } else { None };
    Verdict::pass_c(nt, classes)
}

// ---------------------------------------------------------------------------
// hostile mapped-file names -> effective path / version
// ---------------------------------------------------------------------------

#[derive(Debug, Clone, PartialEq, Eq, Hash, Serialize, Deserialize)]
pub struct NameCase {
    pub dir: Vec<u8>,
    pub stem: Vec<u8>,
    pub comps: Vec<Vec<u8>>,
    pub so_marker: bool,
    pub soname: Option<String>,
    pub exec: bool,
    pub offset: u32,
}

pub fn check_name(c: &NameCase) -> Verdict {
    use std::os::unix::ffi::OsStringExt;
    let mut name: Vec<u8> = c.dir.clone();
    name.push(b'/');
    name.extend_from_slice(&c.stem);
    if c.so_marker {
        name.extend_from_slice(b".so");
        for comp in &c.comps {
            name.push(b'.');
            name.extend_from_slice(comp);
        }
    }
    let mut m = mapping(0x10000, 0x4000, if c.exec { 5 } else { 1 }, None, c.offset as usize * 4096);
    m.name = Some(std::ffi::OsString::from_vec(name.clone()));
    // SONAME supplied => no file access; None => the file (which does not exist) is tried
    let r = m.get_mapping_effective_path_name_and_version(c.soname.clone());
    let mut classes = vec![];
    match r {
        Ok((path, _file_name, ver)) => {
            classes.push(if ver.is_some() { "version-parsed".to_string() } else { "no-version".to_string() });
            let _ = path;
        }
        Err(_) => classes.push("err".into()),
    }
    let hostile = std::str::from_utf8(&name).is_err() || c.comps.iter().any(|c| c.iter().any(|b| !b.is_ascii_digit()));
    Verdict::pass_c(if hostile { Some(fp_json(c)) } else { None }, classes)
}

fn comp_strategy() -> impl Strategy<Value = Vec<u8>> {
    prop_oneof![
        4 => proptest::collection::vec(b'0'..=b'9', 0..4),
        3 => proptest::collection::vec(prop_oneof![b'0'..=b'9', b'a'..=b'z'], 0..6),
        2 => proptest::collection::vec(prop_oneof![3 => b'0'..=b'9', 1 => Just(0xc3u8), 1 => Just(0xa9u8), 1 => 0x80u8..=0xff, 1 => b'a'..=b'z'], 0..8),
        1 => Just("3\u{e9}4".as_bytes().to_vec()),
        1 => Just(b"99999999999".to_vec()),
    ]
}

pub fn name_case_strategy() -> impl Strategy<Value = NameCase> {
    (
        proptest::collection::vec(prop_oneof![4 => b'a'..=b'z', 1 => Just(b'/'), 1 => Just(b' '), 1 => 0x80u8..=0xff], 0..12),
        proptest::collection::vec(prop_oneof![6 => b'a'..=b'z', 1 => Just(b'.'), 1 => 0x80u8..=0xff], 0..10),
        proptest::collection::vec(comp_strategy(), 0..7),
        proptest::bool::weighted(0.85),
        proptest::option::weighted(0.7, proptest::collection::vec(prop_oneof![(0x20u8..0x7f).prop_map(|c| c as char), Just('\u{e9}')], 0..12).prop_map(|v| v.into_iter().collect::<String>())),
        any::<bool>(),
        0u32..3,
    )
        .prop_map(|(dir, stem, comps, so_marker, soname, exec, offset)| NameCase { dir, stem, comps, so_marker, soname, exec, offset })
}

// ---------------------------------------------------------------------------
// hostile ELF images in target memory (arena) through the process-memory readers
// ---------------------------------------------------------------------------

pub fn check_arena_elf(c: &crate::props::c14::KitCase) -> Verdict {
    use crate::vcore::elf::*;
    use minidump_writer::module_reader::{BuildId, ProcessReader, ReadFromModule, SoName};
    let mut bt = build(&c.spec);
    for (sel, v) in &c.corruptions {
        corrupt(&mut bt, c.spec.little, *sel, *v);
    }
    let mem = bt.memory_image();
    let r = with_arena(|a| {
        for x in a.bytes().iter_mut() {
            *x = 0;
        }
        a.write(0, &mem);
        let pid = a.pid();
        with_watchdog(20.0, || {
            let id = BuildId::read_from_module(ProcessReader::new(pid, ARENA as usize).into()).is_ok();
            let so = SoName::read_from_module(ProcessReader::new(pid, ARENA as usize).into()).is_ok();
            (id, so)
        })
    });
    match r {
        Ok((id, so)) => Verdict::pass_c(Some(fp_json(c)), vec![format!("id:{}", if id { "ok" } else { "err" }), format!("soname:{}", if so { "ok" } else { "err" })]),
        Err(e) => Verdict::Inconclusive(format!("arena: {e}")),
    }
}

// ---------------------------------------------------------------------------
// live: hostile registers / stack pointers / names x options
// ---------------------------------------------------------------------------

pub fn check_live(c: &crate::props::c01::Case) -> Verdict {
    use crate::props::c01::*;
    use crate::vcore::dest::Dest;
    use crate::vcore::target::*;
    use crate::vcore::world::*;
    init_scratch();
    let scratch = Target::new_scratch();
    let bt = build(c, &scratch);
    let t = match Target::spawn(&bt.spec, scratch) {
        Ok(t) => t,
        Err(e) => return Verdict::Inconclusive(format!("target setup: {}", e.split(':').next().unwrap_or(""))),
    };
    if !t.wait_settled(&bt.spec) {
        return Verdict::Inconclusive("target did not settle".into());
    }
    let mut opts = opts_of(c, &bt, &t);
    let mut classes = vec![];
    // "any caller configuration": further choices derived deterministically from the case
    let h = fp_json(c);
    // the stop timeout
    match h % 7 {
        0 => opts.stop_timeout_ms = Some(0),
        1 => opts.stop_timeout_ms = Some(u64::MAX), // => Duration::MAX
        2 => opts.stop_timeout_ms = Some(u64::MAX - 1),
        _ => {}
    }
    if h % 7 <= 2 {
        classes.push("hostile-stop-timeout".into());
    }
    // a user mapping whose extent reaches or wraps the top of the address space
    if (h >> 8) % 5 == 0 {
        let size = [PAGE, 0x10_0000, u64::MAX / 2, u64::MAX][((h >> 12) % 4) as usize];
        let start = [u64::MAX & !0xfff, u64::MAX - 0x10_0000 + 1, 1 << 63, 0, 0x1000, 0x10_0000_0000][((h >> 16) % 6) as usize];
        opts.user_mappings.push(UserMap { start, size, name: Some("/wrap/lib.so".into()), identifier: vec![1, 2, 3, 4], offset: 0, perms: 5 });
        classes.push("user-mapping-at-top-of-address-space".into());
    }
    // the destination: not empty / positioned after existing content
    let (prefill, pos) = match (h >> 24) % 6 {
        0 => (vec![0xeeu8; 1], 1),
        1 => (vec![0xeeu8; 4096], 4096),
        2 => (vec![0xeeu8; 5 << 20], 4 << 20),
        _ => (vec![], 0),
    };
    if pos != 0 {
        classes.push("destination-with-existing-content".into());
    }
    let mut w = make_writer(t.pid, &opts);
    let mut dest = Dest::new(prefill, pos);
    let out = with_watchdog(30.0, || run_dump(&mut w, &mut dest));
    match out {
        DumpOutcome::Ok(_) => classes.push("ok".to_string()),
        DumpOutcome::Err(e) => classes.push(format!("err:{}", e.split('(').next().unwrap_or(""))),
        DumpOutcome::Panic(loc, msg) => return panic_verdict(&loc, &msg),
    }
    let hostile_addr = |a: &AddrG| matches!(a, AddrG::Unmapped | AddrG::Zero | AddrG::Top | AddrG::Misaligned(_) | AddrG::Abs(_));
    let hostile = c.opts.crash.as_ref().map(|cr| hostile_addr(&cr.rip) || hostile_addr(&cr.rsp)).unwrap_or(false)
        || c.opts.skip.as_ref().map(hostile_addr).unwrap_or(false)
        || c.threads.iter().any(|t| !matches!(t.sp, SpG::InStack { .. }) || matches!(t.name, NameG::Raw(_)));
    if hostile {
        classes.push("hostile-value".into());
    }
    Verdict::pass_c(if hostile { Some(fp_json(c)) } else { None }, classes)
}

// ---------------------------------------------------------------------------
// the /dev rule: mapped files under /dev must never be opened
// ---------------------------------------------------------------------------

#[derive(Debug, Clone, PartialEq, Eq, Hash, Serialize, Deserialize)]
pub struct DevCase {
    /// per file: (content kind 0 valid ELF with id, 1 valid ELF without id, 2 non-ELF, 3 truncated ELF; executable mapping; unlink after mapping)
    pub files: Vec<(u8, bool, bool)>,
    pub with_crash: bool,
    /// the caller registers a user mapping whose name is one of the (watched) files under /dev
    #[serde(default)]
    pub user_mapping_under_dev: bool,
}

pub fn check_dev(c: &DevCase) -> Verdict {
    use crate::vcore::dest::Dest;
    use crate::vcore::elf::*;
    use crate::vcore::target::*;
    use crate::vcore::world::*;
    init_scratch();
    let scratch = Target::new_scratch();
    let tag = format!("verif-{}-{}", std::process::id(), fingerprint(&scratch.to_string_lossy().to_string()) & 0xffff_ffff);
    let dir = std::path::PathBuf::from("/dev/shm").join(&tag);
    let _ = std::fs::create_dir_all(&dir);
    struct Cleanup(std::path::PathBuf);
    impl Drop for Cleanup {
        fn drop(&mut self) {
            let _ = std::fs::remove_dir_all(&self.0);
        }
    }
    let _cleanup = Cleanup(dir.clone());
    let mut b = Builder::new();
    let mut paths = vec![];
    for (i, (kind, exec, unlink)) in c.files.iter().enumerate() {
        // 0 id + SONAME, 1 no id, 2 not an ELF, 3 unreadable program headers, 4/5 id but NO SONAME (the name
        // would have to come from the file: it must not be opened either)
        let k = kind % 6;
        let spec = ElfSpec {
            class64: true, little: true, text_len: 300, text_seed: i as u64, build_id: if k == 0 || k >= 4 { Some(vec![i as u8 + 1; 20]) } else { None },
            note_phdr: true, note_section: true, note_align: 4, other_notes: 0, soname: if k >= 4 { None } else { Some(format!("libdev{i}.so")) }, dyn_phdr: true, dyn_section: true, dyn_order: 0,
            sections: k == 0 || k == 4, extra_phdrs: 0, pages: 2, seg2_delta_pages: 0, empty_note_first: false, shstr_rotation: 0, decoy_before: 0, decoy_after: false, dyn_link: 0,
        };
        let mut bytes = build(&spec).bytes;
        match k {
            2 => bytes = (0..8192u32).map(|o| (o * 13 + 5) as u8).collect(),
            3 => {
                // ELF header intact, program header table offset beyond the file
                bytes[32..40].copy_from_slice(&0x10_0000u64.to_le_bytes());
            }
            _ => {}
        }
        bytes.resize(8192, 0);
        let path = dir.join(format!("dev file {i}.so.1")).to_string_lossy().into_owned().into_bytes();
        b.spec.files.push((path.clone(), bytes));
        let addr = b.next_map_addr();
        b.add_file_map_at(addr, 2, if *exec { 5 } else { 1 }, &path, 0, false);
        if *unlink {
            b.spec.unlinks.push(path.clone());
        } else {
            paths.push(path);
        }
    }
    let spec = b.spec.clone();
    let t = match Target::spawn(&spec, scratch) {
        Ok(t) => t,
        Err(e) => return Verdict::Inconclusive(format!("target setup: {}", e.split(':').next().unwrap_or(""))),
    };
    if !t.wait_settled(&spec) {
        return Verdict::Inconclusive("target did not settle".into());
    }
    // watch the files now that the target has finished mapping them
    let ifd = unsafe { libc::inotify_init1(libc::IN_NONBLOCK | libc::IN_CLOEXEC) };
    if ifd < 0 {
        return Verdict::Inconclusive("inotify unavailable".into());
    }
    let mut wds = vec![];
    for p in &paths {
        let cp = std::ffi::CString::new(p.clone()).unwrap();
        let wd = unsafe { libc::inotify_add_watch(ifd, cp.as_ptr(), libc::IN_OPEN | libc::IN_ACCESS) };
        wds.push((wd, String::from_utf8_lossy(p).into_owned()));
    }
    let mut opts = DumpOpts { blamed: t.pid, ..Default::default() };
    if c.with_crash {
        let mut s = 5u64;
        let gregs: Vec<i64> = (0..23).map(|_| splitmix(&mut s) as i64).collect();
        opts.crash = Some(CrashContext2 { gregs, fp: fpstate_of_fx(&sentinel_fx(1)), signo: 6, code: 0, addr: 0, tid: t.pid });
    }
    if c.user_mapping_under_dev {
        if let Some(p) = paths.first() {
            opts.user_mappings.push(UserMap { start: 0x7000_0000_0000, size: 0x3000, name: Some(String::from_utf8_lossy(p).into_owned()), identifier: vec![9; 16], offset: 0, perms: 5 });
        }
    }
    let mut w = make_writer(t.pid, &opts);
    let mut dest = Dest::new(vec![], 0);
    let out = run_dump(&mut w, &mut dest);
    // collect events
    let mut opened: Vec<String> = vec![];
    let mut buf = [0u8; 4096];
    loop {
        let n = unsafe { libc::read(ifd, buf.as_mut_ptr() as *mut libc::c_void, buf.len()) };
        if n <= 0 {
            break;
        }
        let mut off = 0usize;
        while off + 16 <= n as usize {
            let wd = i32::from_ne_bytes(buf[off..off + 4].try_into().unwrap());
            let len = u32::from_ne_bytes(buf[off + 12..off + 16].try_into().unwrap()) as usize;
            if let Some((_, p)) = wds.iter().find(|(w, _)| *w == wd) {
                opened.push(p.clone());
            }
            off += 16 + len;
        }
    }
    unsafe { libc::close(ifd) };
    if let DumpOutcome::Panic(loc, msg) = &out {
        return panic_verdict(loc, msg);
    }
    if let Some(p) = opened.first() {
        return Verdict::viol("C02:dev-file-opened", format!("the dumper opened/read the mapped file {p} which lives under /dev (files {:?})", c.files));
    }
    let kinds: std::collections::BTreeSet<u8> = c.files.iter().map(|f| f.0 % 4).collect();
    Verdict::pass_c(if !paths.is_empty() { Some(fp_json(c)) } else { None }, kinds.iter().map(|k| format!("content:{k}")).collect())
}

// ---------------------------------------------------------------------------
// live: mapped files with hostile names (private tmpfs root, so that the
// dumper sees the bare names)
// ---------------------------------------------------------------------------

pub const PIVOT_NAMES: [&[u8]; 10] = [
    b"/SYSVab",
    b"/SYSV00000000 (deleted)",
    b"/lib.so.1.2.3\xc3\xa94",
    b"/dev/x",
    b"/a b (deleted)",
    b"/[stack]",
    b"/lib\xff\xfe.so.7",
    b"/x.so.1.2.3.4.5.6.7.8.9",
    b"/SYSVabcdef01",
    b"/.so.",
];

#[derive(Debug, Clone, PartialEq, Eq, Hash, Serialize, Deserialize)]
pub struct PivotCase {
    /// (name index, executable)
    pub files: Vec<(u8, bool)>,
}

pub fn check_pivot(c: &PivotCase) -> Verdict {
    use crate::vcore::dest::Dest;
    use crate::vcore::target::*;
    use crate::vcore::world::*;
    init_scratch();
    let scratch = Target::new_scratch();
    let mut b = Builder::new();
    let mut files = vec![];
    let mut used = std::collections::BTreeSet::new();
    for (k, exec) in &c.files {
        let name = PIVOT_NAMES[*k as usize % PIVOT_NAMES.len()].to_vec();
        if !used.insert(name.clone()) {
            continue;
        }
        files.push((name.clone(), 8192u64, 0x51 + *k as u64, b"\x7fELF\x02\x01\x01".to_vec()));
        let addr = b.next_map_addr();
        b.add_file_map_at(addr, 2, if *exec { 5 } else { 1 }, &name, 0, false);
    }
    b.spec.pivot = Some(files);
    let spec = b.spec.clone();
    let t = match Target::spawn(&spec, scratch) {
        Ok(t) => t,
        Err(e) => return Verdict::Inconclusive(format!("target setup: {}", e.split(':').next().unwrap_or(""))),
    };
    if !t.wait_settled(&spec) {
        return Verdict::Inconclusive("target did not settle".into());
    }
    let opts = DumpOpts { blamed: t.pid, ..Default::default() };
    let mut w = make_writer(t.pid, &opts);
    let mut dest = Dest::new(vec![], 0);
    let out = with_watchdog(30.0, || run_dump(&mut w, &mut dest));
    match out {
        DumpOutcome::Panic(loc, msg) => panic_verdict(&loc, &msg),
        DumpOutcome::Ok(_) => Verdict::pass_c(Some(fp_json(c)), vec!["ok".into()]),
        DumpOutcome::Err(e) => Verdict::pass_c(Some(fp_json(c)), vec![format!("err:{}", e.split('(').next().unwrap_or(""))]),
    }
}


// ---------------------------------------------------------------------------
// degenerate target states x option combinations
// ---------------------------------------------------------------------------

#[derive(Debug, Clone, PartialEq, Eq, Hash, Serialize, Deserialize)]
pub struct DegCase {
    /// 0 = killed but not yet reaped (zombie, no threads can be stopped), 1 = gone (reaped: no such
    /// process), 2 = every thread held by another tracer (none can be attached), 3 = already
    /// group-stopped by SIGSTOP before the request, 4 = ordinary live target
    pub state: u8,
    /// parked threads besides the main thread
    pub threads: u8,
    /// 0 none, 1 = 0, 2 = 1, 3 = generated small value, 4 = u64::MAX, 5 = around 64 KiB
    pub limit: u8,
    pub limit_val: u32,
    pub sanitize: bool,
    /// skip-unreferenced with a principal address: 0 off, 1 unmapped, 2 inside a stack, 3 zero, 4 top
    pub skip: u8,
    /// crash context: 0 none, 1 rip/rsp in mappings, 2 unmapped, 3 top of the address space
    pub crash: u8,
    pub app: bool,
    /// 0 generous, 1 = 0 ms, 2 = 1 ms, 3 = Duration::MAX
    pub stop_timeout: u8,
    pub blamed_other: bool,
    /// state of the DUMPING process: it may only open this many more descriptors (every further open
    /// fails with EMFILE)
    #[serde(default)]
    pub fd_budget: Option<u8>,
    /// the dumping thread has every signal blocked
    #[serde(default)]
    pub signals_blocked: bool,
    /// files the dumper cannot open (vcore::faultfs bit mask over cpuinfo, status, release files,
    /// cmdline, environ, auxv, limits, comm, maps, mem)
    #[serde(default)]
    pub unopenable: Option<u16>,
    /// ptrace register requests the kernel refuses to the dumping thread (seccomp; bits: GETREGSET
    /// general-purpose / floating point, GETREGS, GETFPREGS, PEEKUSER)
    #[serde(default)]
    pub refused_ptrace: Option<u8>,
    /// the target is not group-stopped (StopProcess fail point) and two of its threads keep changing
    /// its memory map and its descriptor table while the writer reads them
    #[serde(default)]
    pub churn: bool,
}

pub fn check_degenerate(c: &DegCase) -> Verdict {
    use crate::vcore::dest::Dest;
    use crate::vcore::regs::*;
    use crate::vcore::target::*;
    use crate::vcore::world::*;
    init_scratch();
    let scratch = Target::new_scratch();
    let mut b = Builder::new();
    let n = c.threads % 27;
    let mut stacks = vec![];
    let mut ids = vec![];
    for i in 0..n {
        let st = b.add_stack(2, i % 2 == 0, 70 + i as u64);
        ids.push(b.add_thread(K_PARKED, Some(format!("d{i}").into_bytes()), st.base + 0x1000 + 16 * i as u64, 700 + i as u64));
        stacks.push(st);
    }
    let (_, appmap) = b.add_anon(2, 3, 0xD6);
    let (_, ipmap) = b.add_anon(1, 5, 0xD7);
    if c.churn {
        b.add_thread(K_MAPCHURN, Some(b"mapchurn".to_vec()), 0, 1);
        b.add_thread(K_FDCHURN, Some(b"fdchurn".to_vec()), 0, 2);
    }
    let spec = b.spec.clone();
    let t = match Target::spawn(&spec, scratch) {
        Ok(t) => t,
        Err(e) => return Verdict::Inconclusive(format!("target setup: {}", e.split(':').next().unwrap_or(""))),
    };
    if !t.wait_settled(&spec) {
        return Verdict::Inconclusive("target did not settle".into());
    }
    let pid = t.pid;
    let tids: Vec<i32> = std::iter::once(pid).chain(ids.iter().map(|i| t.tid(*i))).collect();
    let mut classes = vec![];
    let state = c.state % 5;
    match state {
        0 | 1 => {
            unsafe { libc::kill(pid, libc::SIGKILL) };
            let dl = std::time::Instant::now() + std::time::Duration::from_millis(2000);
            while t.thread_status(pid).map(|(s, _)| s != 'Z').unwrap_or(false) && std::time::Instant::now() < dl {
                std::thread::sleep(std::time::Duration::from_micros(300));
            }
            if state == 1 {
                let mut st = 0;
                unsafe { libc::waitpid(pid, &mut st, libc::__WALL) };
                classes.push("target:gone".to_string());
            } else {
                classes.push("target:zombie".to_string());
            }
        }
        2 => {
            for tid in &tids {
                unsafe { libc::ptrace(libc::PTRACE_SEIZE, *tid, 0, 0) };
            }
            classes.push("target:all-threads-held-by-another-tracer".to_string());
        }
        3 => {
            unsafe { libc::kill(pid, libc::SIGSTOP) };
            let dl = std::time::Instant::now() + std::time::Duration::from_millis(2000);
            while t.thread_status(pid).map(|(s, _)| s != 'T').unwrap_or(false) && std::time::Instant::now() < dl {
                std::thread::sleep(std::time::Duration::from_micros(300));
            }
            classes.push("target:already-stopped".to_string());
        }
        _ => classes.push("target:live".to_string()),
    }
    let blamed = if c.blamed_other && tids.len() > 1 { tids[1] } else { pid };
    let mut o = DumpOpts { blamed, sanitize: c.sanitize, ..Default::default() };
    o.size_limit = match c.limit % 6 {
        0 => None,
        1 => Some(0),
        2 => Some(1),
        3 => Some(c.limit_val as u64 % 200_000),
        4 => Some(u64::MAX),
        _ => Some(65536 + (c.limit_val as u64 % 4096) - 2048),
    };
    if o.size_limit.is_some() {
        classes.push(format!("limit:{}", ["", "0", "1", "small", "max", "around-64KiB"][c.limit as usize % 6]));
    }
    if n > 20 {
        classes.push("more-than-20-threads".to_string());
    }
    match c.skip % 5 {
        0 => {}
        k => {
            o.skip_unreferenced = true;
            o.principal = Some(match k {
                1 => 0x3000_0000_0000,
                2 => stacks.first().map(|s| s.base + 8).unwrap_or(appmap),
                3 => 0,
                _ => u64::MAX,
            });
        }
    }
    if c.crash % 4 != 0 {
        let mut sd = 11u64;
        let mut gregs: Vec<i64> = (0..23).map(|_| splitmix(&mut sd) as i64).collect();
        let (rip, rsp) = match c.crash % 4 {
            1 => (ipmap + 100, stacks.first().map(|s| s.base + 0x1100).unwrap_or(appmap + 64)),
            2 => (0x3000_0000_0000, 0x3000_0000_1000),
            _ => (u64::MAX, u64::MAX - 7),
        };
        gregs[REG_RIP] = rip as i64;
        gregs[REG_RSP] = rsp as i64;
        o.crash = Some(CrashContext2 { gregs, fp: fpstate_of_fx(&sentinel_fx(3)), signo: 11, code: 1, addr: 0x10, tid: blamed });
    }
    if c.app {
        o.app_memory.push((appmap + 3, 5000));
    }
    o.stop_timeout_ms = match c.stop_timeout % 4 {
        0 => None,
        1 => Some(0),
        2 => Some(1),
        _ => Some(u64::MAX),
    };
    if (state == 0 || state == 2) && c.stop_timeout % 4 == 3 {
        // a zombie, or a process whose threads sit in another tracer's stops, never reports the
        // stopped state: "wait indefinitely" is what the caller asked for
        o.stop_timeout_ms = Some(5);
    }
    let mut w = make_writer(pid, &o);
    let mut dest = Dest::new(vec![], 0);
    let mut oldmask: libc::sigset_t = unsafe { std::mem::zeroed() };
    if c.signals_blocked {
        unsafe {
            let mut all: libc::sigset_t = std::mem::zeroed();
            libc::sigfillset(&mut all);
            libc::pthread_sigmask(libc::SIG_BLOCK, &all, &mut oldmask);
        }
        classes.push("dumper:signals-blocked".to_string());
    }
    if c.churn {
        classes.push("target:map-and-descriptor-churn-while-not-stopped".to_string());
    }
    let spot = if c.churn { FS_STOP } else { 0 };
    let out = with_failspots(spot, || match c.fd_budget {
        None if c.unopenable.is_none() && c.refused_ptrace.is_some() => {
            classes.push("dumper:ptrace-register-requests-refused".to_string());
            with_watchdog(30.0, || with_refused_regsets(c.refused_ptrace.unwrap() & 31, || run_dump(&mut w, &mut dest)))
        }
        None if c.unopenable.is_some() => {
            let m = c.unopenable.unwrap() as u32 & 0x3ff;
            classes.push("dumper:files-unopenable".to_string());
            with_watchdog(30.0, || crate::vcore::faultfs::with_denied_files(m, (m >> 10) & 3, || run_dump(&mut w, &mut dest)).0)
        }
        Some(k) => {
            classes.push(format!("dumper:descriptor-budget-{}", (k % 12).min(9)));
            with_watchdog(30.0, || with_fd_budget(k % 12, || run_dump(&mut w, &mut dest)))
        }
        None => with_watchdog(30.0, || run_dump(&mut w, &mut dest)),
    });
    if c.signals_blocked {
        unsafe { libc::pthread_sigmask(libc::SIG_SETMASK, &oldmask, std::ptr::null_mut()) };
    }
    if state == 3 {
        unsafe { libc::kill(pid, libc::SIGCONT) };
    }
    match out {
        DumpOutcome::Ok(_) => classes.push("ok".to_string()),
        DumpOutcome::Err(e) => classes.push(format!("err:{}", e.split('(').next().unwrap_or(""))),
        DumpOutcome::Panic(loc, msg) => return panic_verdict(&loc, &msg),
    }
    Verdict::pass_c(Some(fp_json(c)), classes)
}

// ---------------------------------------------------------------------------
// the caller asks for a dump of its own process
// ---------------------------------------------------------------------------

#[derive(Debug, Clone, PartialEq, Eq, Hash, Serialize, Deserialize)]
pub struct SelfCase {
    /// bit 0 request from a second thread, bit 1 blame the calling thread, bit 2 size limit,
    /// bit 3 sanitize, bit 4 stop timeout 0
    pub bits: u8,
}

pub fn check_self(c: &SelfCase) -> Verdict {
    // in a sacrificial child: a writer that stops the process it runs in freezes that process
    let mut child = match std::process::Command::new(crate::vcore::helpers::helper_exe())
        .args(["helper", "selfdump", &(c.bits % 32).to_string()])
        .stdin(std::process::Stdio::null())
        .stdout(std::process::Stdio::piped())
        .stderr(std::process::Stdio::null())
        .spawn()
    {
        Ok(c) => c,
        Err(e) => return Verdict::Inconclusive(format!("helper: {e}")),
    };
    let pid = child.id() as i32;
    let t0 = std::time::Instant::now();
    let cpu = |pid: i32| -> f64 {
        std::fs::read_to_string(format!("/proc/{pid}/stat")).ok().and_then(|s| { let r = s.rsplit(')').next()?.split_whitespace().map(|x| x.to_string()).collect::<Vec<_>>(); Some((r.get(11)?.parse::<f64>().ok()? + r.get(12)?.parse::<f64>().ok()?) / 100.0) }).unwrap_or(0.0)
    };
    loop {
        let mut st = 0;
        let r = unsafe { libc::waitpid(pid, &mut st, libc::WUNTRACED | libc::WNOHANG) };
        if r == pid {
            if libc::WIFSTOPPED(st) {
                unsafe { libc::kill(pid, libc::SIGKILL) };
                let _ = child.wait();
                return Verdict::viol("C02:self-dump:dumper-stopped-itself", format!("a request to dump the caller's own process (bits {:#x}) stopped that process with signal {}: the request can never return", c.bits % 32, libc::WSTOPSIG(st)));
            }
            break;
        }
        if t0.elapsed().as_secs_f64() > 20.0 {
            let used = cpu(pid);
            unsafe { libc::kill(pid, libc::SIGKILL) };
            let _ = child.wait();
            return if used > 14.0 { Verdict::viol("C02:self-dump:hang", format!("no answer after 20 s ({used:.1} s of CPU)")) } else { Verdict::Inconclusive("self-dump helper blocked".into()) };
        }
        std::thread::sleep(std::time::Duration::from_millis(2));
    }
    let mut out = String::new();
    use std::io::Read;
    if let Some(mut o) = child.stdout.take() {
        let _ = o.read_to_string(&mut out);
    }
    let _ = child.try_wait();
    let line = out.lines().find(|l| l.starts_with("selfdump:")).unwrap_or("").to_string();
    if line.contains("panic") || line.is_empty() {
        return Verdict::viol("C02:self-dump:panic-or-abort", format!("self-dump helper (bits {:#x}) ended without an answer: '{}' ", c.bits % 32, out.trim()));
    }
    Verdict::pass_c(Some(fp_json(c)), vec![format!("self-dump:{}", if c.bits & 1 != 0 { "from-second-thread" } else { "from-main-thread" }), line.replace("selfdump: ", "answer:").chars().take(60).collect()])
}

pub fn check_vanish(c: &SelfCase) -> Verdict {
    let out = std::process::Command::new(crate::vcore::helpers::helper_exe()).args(["helper", "vanishdump", &(c.bits % 8).to_string()]).stdin(std::process::Stdio::null()).stderr(std::process::Stdio::null()).output();
    let out = match out {
        Ok(o) => String::from_utf8_lossy(&o.stdout).to_string(),
        Err(e) => return Verdict::Inconclusive(format!("helper: {e}")),
    };
    let line = out.lines().find(|l| l.starts_with("vanish:")).unwrap_or("").to_string();
    match line.as_str() {
        "vanish: returned ok" | "vanish: returned err" => Verdict::pass_c(Some(fp_json(c)), vec![line.replace("vanish: ", "answer:")]),
        "vanish: stuck" => Verdict::viol("C02:request-does-not-return:target-vanished-during-stop-wait", format!("a zombie target was reaped while the request (bits {:#x}) waited for it to stop; 8 s later - the stop timeout being at most 2 s - the request had still not returned", c.bits % 8)),
        "vanish: panic" => Verdict::viol("C02:vanish:panic", "the request panicked".to_string()),
        _ => Verdict::Inconclusive(format!("helper gave no answer: '{}'", out.trim())),
    }
}

// ---------------------------------------------------------------------------
// any auxiliary-vector content the kernel file can hold
// ---------------------------------------------------------------------------

#[derive(Debug, Clone, PartialEq, Eq, Hash, Serialize, Deserialize)]
pub struct AuxvFileCase {
    /// (key selector, value selector, raw) pairs in file order
    pub pairs: Vec<(u8, u8, u64)>,
    /// AT_NULL terminator written at the end
    pub terminated: bool,
    /// bytes cut off the end of the file (a pair is 16 bytes)
    pub cut: u8,
    pub threads: u8,
    pub sanitize: bool,
    pub skip: bool,
}

pub fn check_auxv_file(c: &AuxvFileCase) -> Verdict {
    use crate::vcore::dest::Dest;
    use crate::vcore::target::*;
    use crate::vcore::world::*;
    init_scratch();
    let scratch = Target::new_scratch();
    let mut b = Builder::new();
    for i in 0..(c.threads % 3) {
        let st = b.add_stack(2, true, 90 + i as u64);
        b.add_thread(K_PARKED, Some(format!("a{i}").into_bytes()), st.base + 0x1000, 800 + i as u64);
    }
    let spec = b.spec.clone();
    let file = scratch.join("auxv-content");
    let t = match Target::spawn(&spec, scratch) {
        Ok(t) => t,
        Err(e) => return Verdict::Inconclusive(format!("target setup: {}", e.split(':').next().unwrap_or(""))),
    };
    if !t.wait_settled(&spec) {
        return Verdict::Inconclusive("target did not settle".into());
    }
    let truth = crate::props::c01::true_auxv(t.pid); // phnum, phdr, gate, entry
    let maps = crate::props::fid::parse_maps(&t.maps_text().unwrap_or_default());
    let mut bytes: Vec<u8> = vec![];
    for (k, v, raw) in &c.pairs {
        // AT_PHDR 3, AT_PHNUM 5, AT_ENTRY 9, AT_SYSINFO_EHDR 33, AT_NULL 0, AT_PAGESZ 6, anything
        let key: u64 = [3, 5, 9, 33, 0, 6, *raw, 3, 5, 9, 33][*k as usize % 11];
        let true_val = match key {
            3 => truth[1],
            5 => truth[0],
            9 => truth[3],
            33 => truth[2],
            _ => 4096,
        };
        let val: u64 = match *v % 10 {
            0 | 1 | 2 => true_val,
            3 => 0,
            4 => 1,
            5 => u64::MAX,
            6 => 0x3000_0000_0000,
            7 => maps.get(*raw as usize % maps.len().max(1)).map(|l| l.start + (*raw >> 8) % (l.end - l.start)).unwrap_or(0),
            8 => true_val.wrapping_add(*raw % 4096),
            _ => *raw,
        };
        bytes.extend_from_slice(&key.to_le_bytes());
        bytes.extend_from_slice(&val.to_le_bytes());
    }
    if c.terminated {
        bytes.extend_from_slice(&[0u8; 16]);
    }
    let keep = bytes.len().saturating_sub(c.cut as usize % 24);
    bytes.truncate(keep);
    if std::fs::write(&file, &bytes).is_err() {
        return Verdict::Inconclusive("cannot write the auxv content".into());
    }
    let opts = DumpOpts { blamed: t.pid, sanitize: c.sanitize, skip_unreferenced: c.skip, principal: if c.skip { Some(truth[3]) } else { None }, ..Default::default() };
    let mut w = make_writer(t.pid, &opts);
    let mut dest = Dest::new(vec![], 0);
    let (out, redirected) = crate::vcore::faultfs::with_redirected_path(b"/auxv", &file, || with_watchdog(30.0, || run_dump(&mut w, &mut dest)));
    let mut classes = vec![];
    if redirected == 0 {
        return Verdict::Inconclusive("the auxv file was never opened".into());
    }
    match out {
        DumpOutcome::Ok(_) => classes.push("ok".to_string()),
        DumpOutcome::Err(e) => classes.push(format!("err:{}", e.split('(').next().unwrap_or(""))),
        DumpOutcome::Panic(loc, msg) => return panic_verdict(&loc, &msg),
    }
    if bytes.len() % 16 != 0 {
        classes.push("file-ends-inside-a-pair".into());
    }
    if !c.terminated {
        classes.push("no-terminator".into());
    }
    Verdict::pass_c(Some(fp_json(c)), classes)
}

// ---------------------------------------------------------------------------
// hostile memory-map texts (names the kernel can report) through the parser the dumper uses
// ---------------------------------------------------------------------------

#[derive(Debug, Clone, PartialEq, Eq, Hash, Serialize, Deserialize)]
pub struct MapsCase {
    pub names: Vec<Vec<u8>>,
    pub gate_first: bool,
}

pub fn check_maps_text(c: &MapsCase) -> Verdict {
    use procfs_core::FromRead;
    let mut text: Vec<u8> = vec![];
    for (i, n) in c.names.iter().enumerate() {
        let start = 0x10000 + i as u64 * 0x3000;
        text.extend_from_slice(format!("{:x}-{:x} r-xp 00000000 08:01 {} ", start, start + 0x2000, 100 + i).as_bytes());
        text.extend_from_slice(b"                   ");
        text.extend(n.iter().map(|b| if *b == b'\n' { b' ' } else { *b }));
        text.push(b'\n');
    }
    let mut classes = vec![];
    match procfs_core::process::MemoryMaps::from_read(&text[..]) {
        Ok(m) => {
            classes.push("parsed".to_string());
            let _ = minidump_writer::maps_reader::MappingInfo::aggregate(m, if c.gate_first { Some(0x10000) } else { None });
        }
        Err(_) => classes.push("rejected".into()),
    }
    Verdict::pass_c(Some(fp_json(c)), classes)
}

fn hostile_name_strategy() -> impl Strategy<Value = Vec<u8>> {
    prop_oneof![
        3 => proptest::collection::vec(prop_oneof![(b'0'..=b'9'), (b'a'..=b'f'), Just(b'z'), Just(b' '), Just(0xc3u8), Just(0xa9u8)], 0..14).prop_map(|mut v| { let mut n = b"/SYSV".to_vec(); n.append(&mut v); n }),
        2 => proptest::collection::vec(prop_oneof![(b'0'..=b'9'), Just(b':'), Just(b']'), Just(b'x')], 0..8).prop_map(|mut v| { let mut n = b"[stack:".to_vec(); n.append(&mut v); n }),
        2 => proptest::collection::vec(prop_oneof![(0x20u8..0x7f), (0x80u8..=0xff)], 0..40).prop_map(|mut v| { let mut n = b"/".to_vec(); n.append(&mut v); n }),
        1 => Just(b"[".to_vec()),
        1 => Just(b"[]".to_vec()),
        1 => Just(b"/dev/zero (deleted)".to_vec()),
        1 => Just(vec![]),
        1 => proptest::collection::vec(prop_oneof![(b'A'..=b'Z'), Just(b':'), Just(b' ')], 1..12),
    ]
}

pub fn run(ctx: &mut LaneCtx) {
    ctx.run_sub(
        SubSpec {
            name: "arena-hostile-elf",
            cases: (12_000, 600_000),
            rule: "ELF kit images with 1..3 structure-aware corruptions (every header / program header / section header / note / dynamic field := boundary values incl. 2^63, u64::MAX-7, len+-k) placed in the memory of the arena helper and read through the process-memory path (ProcessReader -> MemReader) of the BuildId and SoName readers; oracle = Ok or Err within 20 s, no panic, no abort; every case non-trivial; distinct = hash of case",
            strategy: (crate::props::c14::spec_strategy(), proptest::collection::vec((any::<u16>(), crate::props::c14::corrupt_val_strategy()), 1..4)).prop_map(|(spec, corruptions)| crate::props::c14::KitCase { spec, corruptions }).boxed(),
            max_shrink_iters: 1024,
            log_current: true,
        },
        check_arena_elf,
    );
    ctx.run_sub(
        SubSpec {
            name: "live-hostile",
            cases: (1_200, 40_000),
            rule: "live targets (as C01) with emphasis on hostile values: crash-context rip/rsp and principal address from {0, 1, 4095, 2^47-8, 2^47, 0xffff800000000000, [vsyscall], top of the address space, unmapped, misaligned, inside stacks/mappings}, thread stack pointers in guard pages and holes, non-UTF-8 thread names, application memory lengths up to usize::MAX, all option combinations, and hostile caller configuration (stop timeout 0 / Duration::MAX, a user mapping reaching or wrapping the top of the address space, a destination positioned after up to 4 MiB of existing content); oracle = dump returns Ok or Err within 30 s, no panic; non-trivial = at least one hostile value; distinct = hash of case",
            strategy: crate::props::c01::case_strategy(10).boxed(),
            max_shrink_iters: 150,
            log_current: true,
        },
        check_live,
    );
    ctx.run_sub(
        SubSpec {
            name: "degenerate-targets",
            cases: (640, 20_000),
            rule: "target state {killed and not reaped (zombie: nothing can be stopped), gone (no such process), every thread held by another tracer (nothing can be attached), already group-stopped, ordinary} with 0..26 parked threads, in a quarter of the cases not group-stopped and with two threads that keep changing the memory map and the descriptor table while the writer reads them, x size limit {none, 0, 1, 0..200000, around 64 KiB, u64::MAX} x sanitize x skip-unreferenced with principal address {unmapped, in a stack, 0, top} x crash context {none, in mappings, unmapped, top of the address space} x app memory x stop timeout {generous, 0, 1 ms, Duration::MAX} x blamed thread main/other x state of the dumping process {may open only 0..11 more descriptors, all signals blocked, any subset of ten families of /proc and release files unopenable, any subset of the five ptrace register requests refused by the kernel}; oracle = the request returns Ok or Err within the watchdog, no panic; every case non-trivial; distinct = hash of case",
            strategy: ((0u8..5, prop_oneof![3 => 0u8..6, 1 => 19u8..27], 0u8..6, any::<u32>(), any::<bool>()), (0u8..5, 0u8..4, any::<bool>(), 0u8..4, any::<bool>()), (proptest::option::weighted(0.35, 0u8..12), proptest::bool::weighted(0.25), proptest::option::weighted(0.3, any::<u16>()), proptest::option::weighted(0.3, 1u8..32), proptest::bool::weighted(0.25)))
                .prop_map(|((state, threads, limit, limit_val, sanitize), (skip, crash, app, stop_timeout, blamed_other), (fd_budget, signals_blocked, unopenable, refused_ptrace, churn))| DegCase { state, threads, limit, limit_val, sanitize, skip, crash, app, stop_timeout, blamed_other, fd_budget, signals_blocked, unopenable, refused_ptrace, churn })
                .boxed(),
            max_shrink_iters: 100,
            log_current: true,
        },
        check_degenerate,
    );
    ctx.run_enum(
        "self-dump",
        "exhaustive: a sacrificial child process asks the writer for a dump of ITS OWN process id, from its main thread or from a second thread, blaming the main or the calling thread, x size limit x sanitize x stop timeout 0 (32 combinations); oracle = the request returns (Ok or Err) - the process neither stops itself, hangs nor dies; every case non-trivial",
        (0u8..32).map(|bits| SelfCase { bits }),
        check_self,
    );
    ctx.run_enum(
        "vanishing-target",
        "exhaustive x 4 repetitions: a sacrificial process asks for a dump of a child of its own that is a zombie when the request starts and is reaped (disappears from /proc) 30 or 150 ms later, while the request waits for it to stop; stop timeout 400 ms or 2 s, with or without a size limit; oracle = the request has returned 8 s after the reaping; every case non-trivial",
        (0u8..32).map(|bits| SelfCase { bits }),
        check_vanish,
    );
    ctx.run_sub(
        SubSpec {
            name: "kernel-auxv-content",
            cases: (480, 20_000),
            rule: "live targets whose /proc/<pid>/auxv the dumper sees with generated content (open shim redirecting to a file the harness wrote): 0..12 pairs with keys from {AT_PHDR, AT_PHNUM, AT_ENTRY, AT_SYSINFO_EHDR, AT_NULL, AT_PAGESZ, arbitrary} - also repeated or absent - and values from {true, 0, 1, u64::MAX, unmapped, inside any mapping of the target, true + offset, arbitrary}, with or without terminator, the file cut 0..23 bytes short (ending inside a pair), x sanitize x skip-unreferenced; oracle = Ok or Err within the watchdog, no panic; every case non-trivial; distinct = hash of case",
            strategy: (proptest::collection::vec((any::<u8>(), any::<u8>(), any::<u64>()), 0..13), proptest::bool::weighted(0.7), prop_oneof![2 => Just(0u8), 1 => any::<u8>()], 0u8..3, any::<bool>(), any::<bool>())
                .prop_map(|(pairs, terminated, cut, threads, sanitize, skip)| AuxvFileCase { pairs, terminated, cut, threads, sanitize, skip })
                .boxed(),
            max_shrink_iters: 200,
            log_current: true,
        },
        check_auxv_file,
    );
    ctx.run_sub(
        SubSpec {
            name: "dev-rule",
            cases: (160, 6_000),
            rule: "targets mapping 1..4 files that live under /dev/shm (>= 4096 bytes, offset 0, executable or not; content valid ELF with id and SONAME / with id but without SONAME / without id / non-ELF / ELF with unreadable program headers; optionally unlinked) with an inotify watch (IN_OPEN|IN_ACCESS) installed on each after the target finished mapping; oracle = no inotify event during the dump; non-trivial = at least one watched file; distinct = hash of case",
            strategy: (proptest::collection::vec((0u8..6, any::<bool>(), proptest::bool::weighted(0.2)), 1..5), any::<bool>(), proptest::bool::weighted(0.4)).prop_map(|(files, with_crash, user_mapping_under_dev)| DevCase { files, with_crash, user_mapping_under_dev }).boxed(),
            max_shrink_iters: 100,
            log_current: true,
        },
        check_dev,
    );
    ctx.run_sub(
        SubSpec {
            name: "live-pivot-names",
            cases: (96, 3_000),
            rule: "targets that pivot_root into a private tmpfs and map files there, so that the dumper sees bare hostile mapped-file names (/SYSVab, /SYSV00000000 (deleted), /lib.so.1.2.3e-acute4, /dev/x, names with spaces / brackets / invalid UTF-8 / many version components); oracle = dump returns Ok or Err, no panic; every case non-trivial; distinct = hash of case",
            strategy: proptest::collection::vec((0u8..10, any::<bool>()), 1..4).prop_map(|files| PivotCase { files }).boxed(),
            max_shrink_iters: 60,
            log_current: true,
        },
        check_pivot,
    );
    ctx.run_sub(
        SubSpec {
            name: "maps-text",
            cases: (20_000, 1_000_000),
            rule: "memory-map texts whose mapped-file names are hostile byte strings the kernel can report (/SYSV + 0..13 arbitrary characters, [stack:...] variants, arbitrary non-UTF-8 bytes, empty brackets, capital-letter names) through the parser and aggregator the dumper uses; oracle = Ok or Err, no panic; every case non-trivial; distinct = hash of case",
            strategy: (proptest::collection::vec(hostile_name_strategy(), 1..5), any::<bool>()).prop_map(|(names, gate_first)| MapsCase { names, gate_first }).boxed(),
            max_shrink_iters: 2048,
            log_current: false,
        },
        check_maps_text,
    );
    ctx.assume("bounded time: a call that has not returned after 20 s of wall time while burning CPU is a hang (exit code 42 of the lane, confirmed by replaying the case alone); a call merely blocked is inconclusive");
    ctx.run_sub(
        SubSpec {
            name: "dso-direct",
            cases: (12_000, 400_000),
            rule: "structure-aware linker data in a shared-memory arena of a live helper process (program headers, PT_LOAD/PT_DYNAMIC, dynamic section, r_debug, link_map chain, names) with corruptions (AT_PHNUM 0/100000/2^61/u64::MAX, PHDR/dynamic/r_debug near the arena end, in PROT_NONE, unmapped, 0, top of address space; PT_LOAD vaddr huge; dynamic without DT_NULL; cyclic / dangling l_next; non-UTF-8 / unterminated / unmapped names) through write_dso_debug_stream; oracle = returns Ok(decodable stream) or Err, no panic, no hang; non-trivial = at least one corruption; distinct = hash of case",
            strategy: dso_strategy().boxed(),
            max_shrink_iters: 600,
            log_current: true,
        },
        check_dso,
    );
    ctx.run_sub(
        SubSpec {
            name: "hostile-names",
            cases: (60_000, 3_000_000),
            rule: "mapped-file names <dir>/<stem>.so.<components> built from arbitrary bytes (digits, letters, multi-byte UTF-8, invalid UTF-8, empty, many components) through get_mapping_effective_path_name_and_version with and without a SONAME; oracle = returns without panicking; non-trivial = name is not UTF-8 or a version component is not all digits; distinct = hash of case",
            strategy: name_case_strategy().boxed(),
            max_shrink_iters: 4096,
            log_current: false,
        },
        check_name,
    );
}

pub fn replay(sub: &str, case: &Value) -> Verdict {
    match sub {
        "dso-direct" => replay_case::<DsoCase>(case, check_dso),
        "hostile-names" => replay_case::<NameCase>(case, check_name),
        "live-hostile" => replay_case::<crate::props::c01::Case>(case, check_live),
        "arena-hostile-elf" => replay_case::<crate::props::c14::KitCase>(case, check_arena_elf),
        "dev-rule" => replay_case::<DevCase>(case, check_dev),
        "kernel-auxv-content" => replay_case::<AuxvFileCase>(case, check_auxv_file),
        "self-dump" => replay_case::<SelfCase>(case, check_self),
        "vanishing-target" => replay_case::<SelfCase>(case, check_vanish),
        "degenerate-targets" => replay_case::<DegCase>(case, check_degenerate),
        "live-pivot-names" => replay_case::<PivotCase>(case, check_pivot),
        "maps-text" => replay_case::<MapsCase>(case, check_maps_text),
        _ => Verdict::Inconclusive(format!("unknown sub {sub}")),
    }
}
