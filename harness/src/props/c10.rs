//! C10 – every prefix of the output is a consistent truncated minidump.
//!
//! For each generated scenario the destination records a snapshot after every
//! completed write; every snapshot is decoded strictly.  Additionally an I/O
//! error is injected at every destination call in turn.

use crate::fw::*;
use crate::props::c01;
use crate::vcore::dest::{Dest, DestOp, Fault};
use crate::vcore::md;
use crate::vcore::target::*;
use crate::vcore::world::*;
use proptest::prelude::*;
use serde_json::Value;

pub const LEVEL: &str = "fault_enumeration";

/// The truncation predicate: header + whole directory present, every entry
/// unused or completely present together with everything it references.
pub fn snapshot_problem(snap: &[u8]) -> Option<md::Problem> {
    let d = md::decode(snap);
    if d.stream_count != 18 || d.dirs.len() != 18 {
        return Some(md::Problem { sig: "directory-incomplete".into(), detail: format!("snapshot of {} bytes: stream_count {} dirs {}", snap.len(), d.stream_count, d.dirs.len()) });
    }
    d.problems.first().cloned()
}

fn checker(snap: &[u8]) -> Option<(String, String)> {
    snapshot_problem(snap).map(|p| (p.sig, p.detail))
}

/// Large single flushes: application memory regions of several MiB.
#[derive(Debug, Clone, PartialEq, Eq, Hash, serde::Serialize, serde::Deserialize)]
pub struct BigCase {
    /// sizes of the app regions in 64 KiB units
    pub regions: Vec<u8>,
    pub stack_pages: u16,
    pub threads: u8,
}

pub fn check_big(c: &BigCase) -> Verdict {
    init_scratch();
    let scratch = Target::new_scratch();
    let mut b = Builder::new();
    let mut regions = vec![];
    for (i, r) in c.regions.iter().enumerate() {
        let pages = (*r as u64 % 100 + 1) * 16;
        let (_, addr) = b.add_anon(pages, 3, 0xB16 + i as u64);
        regions.push((addr + 24, pages * PAGE - 100));
    }
    for i in 0..(c.threads % 4) {
        let st = b.add_stack(c.stack_pages as u64 % 600 + 1, true, 0x51 + i as u64);
        b.add_thread(K_PARKED, None, st.base + 0x400, i as u64);
    }
    let spec = b.spec.clone();
    let t = match Target::spawn(&spec, scratch) {
        Ok(t) => t,
        Err(e) => return Verdict::Inconclusive(format!("target setup: {}", e.split(':').next().unwrap_or(""))),
    };
    if !t.wait_settled(&spec) {
        return Verdict::Inconclusive("target did not settle".into());
    }
    let opts = DumpOpts { blamed: t.pid, app_memory: regions.clone(), ..Default::default() };
    let mut w = make_writer(t.pid, &opts);
    let mut dest = Dest::new(vec![], 0).with_checker(checker);
    let out = run_dump(&mut w, &mut dest);
    if let DumpOutcome::Panic(l, m) = &out {
        return panic_verdict(l, m);
    }
    let inner = dest.0.borrow();
    if let Some((k, op, sig, detail)) = &inner.first_problem {
        return Verdict::viol(format!("C10:prefix:{sig}"), format!("after write #{k} ({op:?}) the destination is not a consistent truncated minidump: {detail}"));
    }
    count("write-boundaries-decoded", inner.writes);
    let biggest = inner.log.iter().filter_map(|o| if let DestOp::Write { len, .. } = o { Some(*len) } else { None }).max().unwrap_or(0);
    let n_calls = inner.calls;
    drop(inner);
    // I/O error at every call
    if matches!(out, DumpOutcome::Ok(_)) {
        for k in 0..n_calls {
            let mut w = make_writer(t.pid, &opts);
            let mut dest = Dest::new(vec![], 0).with_fault(Fault::ErrAt(k));
            match run_dump(&mut w, &mut dest) {
                DumpOutcome::Err(_) => {
                    count("io-errors-injected", 1);
                    let inner = dest.0.borrow();
                    if !inner.data.is_empty() {
                        if let Some(p) = snapshot_problem(&inner.data) {
                            return Verdict::viol(format!("C10:after-io-error:{}", p.sig), format!("I/O error at destination call {k}: what was written ({} bytes) is not a consistent truncated minidump: {}", inner.data.len(), p.detail));
                        }
                    }
                }
                DumpOutcome::Panic(l, m) => return panic_verdict(&l, &m),
                DumpOutcome::Ok(_) => {}
            }
        }
    }
    let mut classes = vec![];
    if biggest > (1 << 20) {
        classes.push("single-write>1MiB".to_string());
    }
    if biggest > (4 << 20) {
        classes.push("single-write>4MiB".to_string());
    }
    Verdict::pass_c(if biggest > (1 << 20) { Some(fp_json(c)) } else { None }, classes)
}

pub fn check(c: &c01::Case) -> Verdict {
    init_scratch();
    let scratch = Target::new_scratch();
    let bt = c01::build(c, &scratch);
    let t = match Target::spawn(&bt.spec, scratch) {
        Ok(t) => t,
        Err(e) => return Verdict::Inconclusive(format!("target setup: {}", e.split(':').next().unwrap_or(""))),
    };
    if !t.wait_settled(&bt.spec) {
        return Verdict::Inconclusive("target did not settle".into());
    }
    let opts = c01::opts_of(c, &bt, &t);
    let mut w = make_writer(t.pid, &opts);
    // the destination may already hold (longer) content: an old dump being overwritten, a slot in a
    // container file.  Derived from the case so that replay is deterministic.
    let (prefill, p0): (Vec<u8>, u64) = match fp_json(c) % 3 {
        0 => (vec![], 0),
        1 => (vec![0xEE; 400 << 10], 0),
        _ => (vec![0xEE; 400 << 10], 4096),
    };
    let prefilled = !prefill.is_empty();
    let mut dest = Dest::new(prefill.clone(), p0).with_snapshots();
    // in a quarter of the scenarios some of the best-effort files cannot be opened by the dumper, so
    // that directory slots stay unused in the middle of the image
    let deny = if (fp_json(c) >> 16) % 4 == 0 { ((fp_json(c) >> 20) & 0xff) as u32 } else { 0 };
    let out = crate::vcore::faultfs::with_denied_files(deny, 2, || run_dump(&mut w, &mut dest)).0;
    match &out {
        DumpOutcome::Panic(loc, msg) => return panic_verdict(loc, msg),
        _ => {}
    }
    let inner = dest.0.borrow();
    let snaps = inner.snapshots.as_ref().unwrap();
    let writes: Vec<&DestOp> = inner.log.iter().filter(|o| matches!(o, DestOp::Write { .. })).collect();
    let mut mid_flush = 0u64;
    let mut far = p0;
    for (k, snap) in snaps.iter().enumerate() {
        // what has reached the destination so far: from the starting position up to the furthest byte written
        if let Some(DestOp::Write { at, len }) = writes.get(k) {
            far = far.max(at + len);
            if *at < p0 {
                return Verdict::viol("C10:prefix:write-before-start", format!("write #{k} at {at} lies before the starting position {p0}"));
            }
        }
        let snap = &snap[(p0 as usize).min(snap.len())..(far as usize).min(snap.len())];
        if let Some(p) = snapshot_problem(snap) {
            return Verdict::viol(
                format!("C10:prefix:{}", p.sig),
                format!("after write #{k} ({:?}) the destination ({} bytes) is not a consistent truncated minidump: {}", writes.get(k), snap.len(), p.detail),
            );
        }
        // a 12-byte write into the directory = entry emitted; the next write appends stream bytes
        if let Some(DestOp::Write { len: 12, at }) = writes.get(k) {
            if *at < p0 + 32 + 18 * 12 {
                mid_flush += 1;
            }
        }
    }
    count("write-boundaries-decoded", snaps.len() as u64);
    let n_calls = inner.calls;
    let n_snaps = snaps.len();
    drop(inner);
    let ok = matches!(out, DumpOutcome::Ok(_));
    // error injection at every call
    let mut injected = 0;
    if ok {
        for k in 0..n_calls {
            let mut w = make_writer(t.pid, &opts);
            let mut dest = Dest::new(vec![], 0).with_fault(Fault::ErrAt(k));
            match run_dump(&mut w, &mut dest) {
                DumpOutcome::Ok(_) => {
                    // the number of calls can vary slightly between dumps (volatile /proc text); beyond the end is fine
                    if dest.calls() > k {
                        return Verdict::viol("C10:io-error-swallowed", format!("destination call {k} failed but dump returned Ok"));
                    }
                }
                DumpOutcome::Err(_) => {
                    injected += 1;
                    count("io-errors-injected", 1);
                    let data = dest.data();
                    if !data.is_empty() {
                        if let Some(p) = snapshot_problem(&data) {
                            return Verdict::viol(format!("C10:after-io-error:{}", p.sig), format!("I/O error at destination call {k}: what was written ({} bytes) is not a consistent truncated minidump: {}", data.len(), p.detail));
                        }
                    }
                }
                DumpOutcome::Panic(loc, msg) => return panic_verdict(&loc, &msg),
            }
        }
    }
    // a writer that is used again after an aborted request: every prefix of the retry must be consistent too
    let mut retried = 0;
    if ok && n_calls > 8 {
        let h = fp_json(c);
        for r in 0..2u64 {
            let k = 6 + (h >> (8 + 16 * r)) % (n_calls - 6);
            let mut w = make_writer(t.pid, &opts);
            let mut failing = Dest::new(vec![], 0).with_fault(Fault::ErrAt(k));
            match run_dump(&mut w, &mut failing) {
                DumpOutcome::Err(_) => {}
                DumpOutcome::Panic(loc, msg) => return panic_verdict(&loc, &msg),
                DumpOutcome::Ok(_) => continue,
            }
            if !t.wait_settled(&bt.spec) {
                return Verdict::Inconclusive("target did not settle between two requests".into());
            }
            // the retry is made with less configured (no application memory), as a caller might after a failure
            if r == 1 {
                w.app_memory.clear();
            }
            let mut dest = Dest::new(vec![], 0).with_snapshots();
            if let DumpOutcome::Panic(loc, msg) = run_dump(&mut w, &mut dest) {
                return panic_verdict(&loc, &msg);
            }
            let inner = dest.0.borrow();
            for (j, snap) in inner.snapshots.as_ref().unwrap().iter().enumerate() {
                if let Some(p) = snapshot_problem(snap) {
                    return Verdict::viol(
                        format!("C10:retry-prefix:{}", p.sig),
                        format!("a writer whose previous request was aborted by an I/O error at destination call {k} made another request: after its write #{j} the destination ({} bytes) is not a consistent truncated minidump: {}", snap.len(), p.detail),
                    );
                }
            }
            retried += 1;
        }
    }
    // a destination that accepts writes only in pieces: whatever the pieces, once the request has
    // returned Ok the stored image - every directory slot included - must be the returned one
    {
        let piece = 1 + (fp_json(c) >> 24) as usize % 700;
        let mut w2 = make_writer(t.pid, &opts);
        let mut d2 = Dest::new(vec![], 0).with_max_write(Some(piece));
        match run_dump(&mut w2, &mut d2) {
            DumpOutcome::Panic(loc, msg) => return panic_verdict(&loc, &msg),
            DumpOutcome::Ok(v) => {
                let stored = d2.data();
                if stored != v {
                    let at = (0..stored.len().min(v.len())).find(|i| stored[*i] != v[*i]).unwrap_or(stored.len().min(v.len()));
                    return Verdict::viol("C10:pieces:stored-image-incomplete", format!("destination accepting {piece} bytes per write: stored {} bytes, returned image {} bytes, first difference at {at}{}", stored.len(), v.len(), if at >= 32 && at < 32 + 18 * 12 { " (inside the directory)" } else { "" }));
                }
            }
            DumpOutcome::Err(_) => {}
        }
        if !t.wait_settled(&bt.spec) {
            return Verdict::Inconclusive("target did not settle".into());
        }
    }
    let mut classes = vec![format!("writes:{}", n_snaps / 10 * 10)];
    if deny != 0 {
        classes.push("best-effort-files-unopenable(unused-slots-mid-image)".into());
    }
    if retried > 0 {
        classes.push("retry-after-aborted-request".into());
    }
    if prefilled {
        classes.push(format!("destination-with-longer-existing-content:p0={p0}"));
    }
    if !ok {
        classes.push("dump-error".into());
    }
    if injected > 0 {
        classes.push("io-error-injected-at-every-call".into());
    }
    let nt = if mid_flush > 0 { Some(fp_json(c)) } else { None };
    Verdict::pass_c(nt, classes)
}

pub fn run(ctx: &mut LaneCtx) {
    ctx.assume("crash points are the boundaries after each completed write call (each write_all is atomic for the in-memory destination); the first boundary considered is after the first completed write (header + empty directory)");
    ctx.run_sub(
        SubSpec {
            name: "prefix-snapshots",
            cases: (128, 6_000),
            rule: "generated scenarios (as C01, up to 6 extra threads) dumped into a recording destination (empty, or holding 400 KiB of older content that is overwritten from position 0 or 4096; in a quarter of the scenarios a subset of the best-effort files cannot be opened by the dumper, so that directory slots stay unused in the middle of the image); EVERY write boundary of each scenario is decoded in truncation mode and an I/O error is injected at EVERY destination call in turn (exhaustive per scenario), and for two of those calls the same writer then makes another request whose prefixes are judged as well; one more request per scenario goes to a destination that accepts only 1..700 bytes per write call and must leave exactly the returned image there; non-trivial = scenario has boundaries between the append of a stream and the write of its directory entry; distinct = hash of scenario",
            strategy: c01::case_strategy(7).boxed(),
            max_shrink_iters: 100,
            log_current: true,
        },
        check,
    );
    ctx.run_sub(
        SubSpec {
            name: "big-flushes",
            cases: (48, 1_500),
            rule: "targets with 1..4 application memory regions of 64 KiB..6.4 MiB each and 0..3 threads with stacks of up to 600 pages, so that single flushes carry several MiB; the truncation predicate is evaluated inside the destination after EVERY completed write (no snapshots kept) and an I/O error is injected at EVERY call; non-trivial = a single write larger than 1 MiB occurred; distinct = hash of case",
            strategy: (proptest::collection::vec(any::<u8>(), 1..5), any::<u16>(), any::<u8>()).prop_map(|(regions, stack_pages, threads)| BigCase { regions, stack_pages, threads }).boxed(),
            max_shrink_iters: 40,
            log_current: true,
        },
        check_big,
    );
}

pub fn replay(sub: &str, case: &Value) -> Verdict {
    match sub {
        "big-flushes" => replay_case::<BigCase>(case, check_big),
        "prefix-snapshots" => replay_case::<c01::Case>(case, check),
        _ => Verdict::Inconclusive(format!("unknown sub {sub}")),
    }
}
