//! C09 – the destination receives exactly the image that was built.
//!
//! History part: generated sequences of (grow image, emit directory entry,
//! flush) operations on `DirSection` against a file model, for any initial
//! destination position and pre-existing content.

use crate::fw::*;
use crate::vcore::dest::Dest;
use minidump_writer::dir_section::DirSection;
use minidump_writer::mem_writer::*;
use minidump_writer::minidump_format::*;
use proptest::prelude::*;
use serde::{Deserialize, Serialize};
use serde_json::Value;

pub const LEVEL: &str = "exploration";

#[derive(Debug, Clone, PartialEq, Eq, Hash, Serialize, Deserialize)]
pub enum Op {
    GrowBytes(Vec<u8>),
    GrowU32(u32),
    GrowString(String),
    GrowThread(u32),
    /// write_to_file(None)
    Flush,
    /// write_to_file(Some(entry))
    FlushEntry { ty: u32, size: u32, rva: u32 },
    /// dump_dir_entry(entry) without flushing the image
    EntryOnly { ty: u32, size: u32, rva: u32 },
}

#[derive(Debug, Clone, PartialEq, Eq, Hash, Serialize, Deserialize)]
pub enum P0 {
    Zero,
    One,
    Mid,
    Len,
    Beyond(u8),
}

#[derive(Debug, Clone, PartialEq, Eq, Hash, Serialize, Deserialize)]
pub struct Case {
    pub prefill: Vec<u8>,
    pub p0: P0,
    /// bytes appended to the image before the directory is allocated
    pub pre: u8,
    pub index_length: u8,
    pub ops: Vec<Op>,
    /// the destination accepts at most this many bytes per write call
    #[serde(default)]
    pub chunk: Option<u16>,
    /// the destination already holds this many bytes before the modelled part (0, or around / above 4 GiB)
    #[serde(default)]
    pub origin: u8,
}

pub fn origin_of(sel: u8) -> u64 {
    [0, 0, 0, 1 << 32, (1 << 32) + 4096, (1 << 32) - 8, 3 * (1u64 << 32) + 12345, 1 << 40][sel as usize % 8]
}

pub fn check(c: &Case) -> Verdict {
    let p0 = match c.p0 {
        P0::Zero => 0,
        P0::One => 1.min(c.prefill.len() as u64),
        P0::Mid => c.prefill.len() as u64 / 2,
        P0::Len => c.prefill.len() as u64,
        P0::Beyond(k) => c.prefill.len() as u64 + k as u64 + 1,
    };
    let orig = c.prefill.clone();
    let dest = Dest::new(c.prefill.clone(), p0).with_max_write(c.chunk.map(|n| n as usize)).with_bias(origin_of(c.origin));
    let mut dest_handle = dest.clone();
    let mut buffer = Buffer::with_capacity(0);
    buffer.write_all(&vec![0x5a; c.pre as usize]);
    let mut dir = match DirSection::new(&mut buffer, c.index_length as u32, &mut dest_handle) {
        Ok(d) => d,
        Err(e) => return Verdict::viol("C09:new-error", format!("{e:?}")),
    };
    if dir.position() != c.pre as u32 {
        return Verdict::viol("C09:dir-position", format!("{} != {}", dir.position(), c.pre));
    }
    let mut flushed: u64 = 0;
    let mut emitted = 0u32;
    let mut flushes = 0;
    let mut entry_after_two_flushes = false;
    let mut overflow_rejected = false;
    macro_rules! bad {
        ($sig:expr, $($arg:tt)*) => { return Verdict::viol(format!("C09:{}", $sig), format!($($arg)*)) };
    }
    for (step, op) in c.ops.iter().enumerate() {
        let pos_before = dest.pos();
        let len_before = buffer.position();
        let mut overflow_op = false;
        let mut is_flush = false;
        match op {
            Op::GrowBytes(b) => {
                MemoryArrayWriter::<u8>::write_bytes(&mut buffer, b);
            }
            Op::GrowU32(v) => {
                let _ = MemoryWriter::<u32>::alloc_with_val(&mut buffer, *v);
            }
            Op::GrowString(s) => {
                let _ = write_string_to_location(&mut buffer, s);
            }
            Op::GrowThread(t) => {
                let _ = MemoryWriter::<MDRawThread>::alloc_with_val(
                    &mut buffer,
                    MDRawThread {
                        thread_id: *t,
                        suspend_count: 0,
                        priority_class: 0,
                        priority: 0,
                        teb: 0,
                        stack: Default::default(),
                        thread_context: Default::default(),
                    },
                );
            }
            Op::Flush => {
                if let Err(e) = dir.write_to_file(&mut buffer, None) {
                    bad!("flush-error", "step {step}: {e:?}");
                }
                is_flush = true;
            }
            Op::FlushEntry { ty, size, rva } | Op::EntryOnly { ty, size, rva } => {
                // more entries than the directory was created with: one case in eight goes on emitting (the
                // writer may refuse, but whatever it accepts must reach image and destination alike)
                let overflow = emitted >= c.index_length as u32;
                overflow_op = overflow;
                if overflow && (c.pre as u64 + p0 + c.index_length as u64) % 8 != 0 {
                    continue;
                }
                let ent = MDRawDirectory {
                    stream_type: *ty,
                    location: MDLocationDescriptor { data_size: *size, rva: *rva },
                };
                let slot = c.pre as u64 + 12 * emitted as u64;
                if matches!(op, Op::FlushEntry { .. }) {
                    if let Err(e) = dir.write_to_file(&mut buffer, Some(ent)) {
                        if overflow {
                            overflow_rejected = true;
                            break;
                        }
                        bad!("flush-error", "step {step}: {e:?}");
                    }
                    is_flush = true;
                } else {
                    if let Err(e) = dir.dump_dir_entry(&mut buffer, ent) {
                        if overflow {
                            overflow_rejected = true;
                            break;
                        }
                        bad!("entry-error", "step {step}: {e:?}");
                    }
                    if dest.pos() != pos_before {
                        bad!("position-not-restored", "step {step}: position {} -> {}", pos_before, dest.pos());
                    }
                }
                emitted += 1;
                if flushes >= 2 {
                    entry_after_two_flushes = true;
                }
                // the slot must hold the entry in the image
                let img: &[u8] = &buffer;
                let mut want = vec![];
                want.extend_from_slice(&ty.to_le_bytes());
                want.extend_from_slice(&size.to_le_bytes());
                want.extend_from_slice(&rva.to_le_bytes());
                if img[slot as usize..slot as usize + 12] != want[..] {
                    bad!("slot-in-image", "step {step}: directory slot {} in the image does not hold the entry", emitted - 1);
                }
            }
        }
        if is_flush {
            flushes += 1;
            // (an entry beyond the directory may have grown the image AFTER the flush part of the call)
            flushed = if overflow_op { len_before } else { buffer.position() };
            if dest.pos() != p0 + flushed {
                bad!("position-after-flush", "step {step}: destination position {} expected {}", dest.pos(), p0 + flushed);
            }
        }
        // invariants after every op
        let img: &[u8] = &buffer;
        let data = dest.data();
        let keep = (p0 as usize).min(orig.len());
        if data.len() < keep || data[..keep] != orig[..keep] {
            bad!("bytes-before-start-modified", "step {step} {op:?}: bytes before the starting position changed");
        }
        if let Some((at, len)) = dest.low_writes().first() {
            bad!("bytes-before-start-modified", "step {step} {op:?}: {len} bytes were written at absolute position {at:#x}, below the destination's origin {:#x}", origin_of(c.origin));
        }
        if (p0 as usize) > orig.len() && data.len() > orig.len() {
            let gap_end = (p0 as usize).min(data.len());
            if data[orig.len()..gap_end].iter().any(|b| *b != 0) {
                bad!("bytes-before-start-modified", "step {step}: gap before the starting position is not zero");
            }
        }
        if flushed > 0 {
            let lo = p0 as usize;
            let hi = lo + flushed as usize;
            if data.len() < hi || data[lo..hi] != img[..flushed as usize] {
                let at = (0..flushed as usize).find(|i| data.get(lo + i) != Some(&img[*i])).unwrap_or(0);
                bad!("destination-differs-from-image", "step {step} {op:?}: destination[p0+{at}] differs from image[{at}] (flushed {flushed}, p0 {p0})");
            }
        }
        // nothing beyond the end of the image
        let end = p0 as usize + img.len();
        if data.len() > end {
            let tail_ok = if end < orig.len() { data.len() == orig.len() && data[end..] == orig[end..] } else { false };
            if !tail_ok {
                bad!("bytes-beyond-image-modified", "step {step} {op:?}: destination changed beyond p0+image length ({end}); dest len {} orig len {}", data.len(), orig.len());
            }
        } else if data.len() < orig.len() {
            bad!("destination-truncated", "step {step}");
        }
    }
    let nt = if p0 > 0 && entry_after_two_flushes { Some(fp_json(c)) } else { None };
    let mut classes = vec![format!("p0:{:?}", std::mem::discriminant(&c.p0)).replace("Discriminant", "")];
    classes.clear();
    if overflow_rejected {
        classes.push("entry-beyond-the-directory-rejected".to_string());
    } else if emitted > c.index_length as u32 {
        classes.push("more-entries-than-directory-slots".to_string());
    }
    classes.push(match c.p0 { P0::Zero => "p0=0", P0::One => "p0=1", P0::Mid => "p0=mid", P0::Len => "p0=len", P0::Beyond(_) => "p0>len" }.to_string());
    if entry_after_two_flushes {
        classes.push("entry-after>=2-flushes".into());
    }
    Verdict::pass_c(nt, classes)
}

fn op_strategy() -> impl Strategy<Value = Op> {
    prop_oneof![
        3 => proptest::collection::vec(any::<u8>(), 0..40).prop_map(Op::GrowBytes),
        1 => any::<u32>().prop_map(Op::GrowU32),
        1 => crate::props::c16::string_strategy().prop_map(Op::GrowString),
        1 => any::<u32>().prop_map(Op::GrowThread),
        3 => Just(Op::Flush),
        // entries of empty streams (size 0, type/rva set) and all-zero placeholder entries occur in real dumps
        4 => (prop_oneof![1 => Just(0u32), 4 => any::<u32>()], prop_oneof![2 => Just(0u32), 3 => any::<u32>()], prop_oneof![1 => Just(0u32), 4 => any::<u32>()]).prop_map(|(ty, size, rva)| Op::FlushEntry { ty, size, rva }),
        2 => (prop_oneof![1 => Just(0u32), 4 => any::<u32>()], prop_oneof![2 => Just(0u32), 3 => any::<u32>()], prop_oneof![1 => Just(0u32), 4 => any::<u32>()]).prop_map(|(ty, size, rva)| Op::EntryOnly { ty, size, rva }),
    ]
}

pub fn case_strategy() -> impl Strategy<Value = Case> {
    (
        proptest::collection::vec(any::<u8>(), 0..300),
        prop_oneof![Just(P0::Zero), Just(P0::One), Just(P0::Mid), Just(P0::Len), (0u8..40).prop_map(P0::Beyond)],
        0u8..40,
        0u8..9,
        proptest::collection::vec(op_strategy(), 0..40),
        proptest::option::weighted(0.35, prop_oneof![Just(1u16), 1u16..16, 1u16..300]),
        0u8..8,
    )
        .prop_map(|(prefill, p0, pre, index_length, ops, chunk, origin)| Case { prefill, p0, pre, index_length, ops, chunk, origin })
}

#[derive(Debug, Clone, PartialEq, Eq, Hash, Serialize, Deserialize)]
pub struct DumpCase {
    pub scenario: crate::props::c01::Case,
    pub prefill: Vec<u8>,
    pub p0: P0,
    /// inject an I/O error at this destination call (None = fault free)
    pub fail_at: Option<u8>,
    /// start the target with an empty environment / no arguments (empty raw streams)
    #[serde(default)]
    pub empty_env: bool,
    /// the destination accepts at most this many bytes per write call
    #[serde(default)]
    pub chunk: Option<u16>,
    /// see `origin_of`
    #[serde(default)]
    pub origin: u8,
}

/// Dump level: whole dumps into a pre-filled destination positioned anywhere.
pub fn check_dump(c: &DumpCase) -> Verdict {
    use crate::vcore::dest::Fault;
    use crate::vcore::target::*;
    use crate::vcore::world::*;
    init_scratch();
    let scratch = Target::new_scratch();
    let mut bt = crate::props::c01::build(&c.scenario, &scratch);
    if c.empty_env {
        bt.spec.env.clear();
        bt.spec.argv.clear();
    }
    let t = match Target::spawn(&bt.spec, scratch) {
        Ok(t) => t,
        Err(e) => return Verdict::Inconclusive(format!("target setup: {}", e.split(':').next().unwrap_or(""))),
    };
    if !t.wait_settled(&bt.spec) {
        return Verdict::Inconclusive("target did not settle".into());
    }
    let opts = crate::props::c01::opts_of(&c.scenario, &bt, &t);
    let p0 = match c.p0 {
        P0::Zero => 0,
        P0::One => 1.min(c.prefill.len() as u64),
        P0::Mid => c.prefill.len() as u64 / 2,
        P0::Len => c.prefill.len() as u64,
        P0::Beyond(k) => c.prefill.len() as u64 + k as u64 + 1,
    };
    let orig = c.prefill.clone();
    let mut w = make_writer(t.pid, &opts);
    let fault = c.fail_at.map(|k| Fault::ErrAt(k as u64)).unwrap_or(Fault::None);
    let mut dest = Dest::new(orig.clone(), p0).with_fault(fault).with_max_write(c.chunk.map(|n| n as usize)).with_bias(origin_of(c.origin));
    let out = run_dump(&mut w, &mut dest);
    let data = dest.data();
    macro_rules! bad {
        ($sig:expr, $($arg:tt)*) => { return Verdict::viol(format!("C09:dump:{}", $sig), format!($($arg)*)) };
    }
    let keep = (p0 as usize).min(orig.len());
    if data.len() < keep || data[..keep] != orig[..keep] {
        bad!("bytes-before-start-modified", "bytes before the starting position {p0} changed");
    }
    if let Some((at, len)) = dest.low_writes().first() {
        bad!("bytes-before-start-modified", "{len} bytes were written at absolute position {at:#x}, below the destination's origin {:#x}", origin_of(c.origin));
    }
    if (p0 as usize) > orig.len() && data.len() > orig.len() && data[orig.len()..(p0 as usize).min(data.len())].iter().any(|b| *b != 0) {
        bad!("bytes-before-start-modified", "gap before the starting position is not zero");
    }
    let mut classes = vec![];
    match out {
        DumpOutcome::Panic(l, m) => return panic_verdict(&l, &m),
        DumpOutcome::Ok(img) => {
            let lo = p0 as usize;
            if data.len() < lo + img.len() || data[lo..lo + img.len()] != img[..] {
                let at = (0..img.len()).find(|i| data.get(lo + i) != Some(&img[*i])).unwrap_or(0);
                bad!("destination-differs-from-image", "destination[p0+{at}] differs from the returned image (p0 {p0}, image {} bytes)", img.len());
            }
            let end = lo + img.len();
            if data.len() > end && !(end < orig.len() && data.len() == orig.len() && data[end..] == orig[end..]) {
                bad!("bytes-beyond-image-modified", "destination changed beyond p0 + image length");
            }
            if dest.pos() != (lo + img.len()) as u64 {
                bad!("final-position", "destination position {} expected {}", dest.pos(), lo + img.len());
            }
            classes.push("success".to_string());
            if c.empty_env {
                classes.push("empty-raw-streams".to_string());
            }
        }
        DumpOutcome::Err(_) => {
            // aborted: what was written (from p0 on) must be a prefix-consistent image (C10's predicate)
            if data.len() > p0 as usize {
                let written = &data[p0 as usize..];
                // only the part actually written by the writer: up to the furthest write
                let inner = dest.0.borrow();
                let far = inner.log.iter().filter_map(|o| if let crate::vcore::dest::DestOp::Write { at, len } = o { Some(at + len) } else { None }).max().unwrap_or(p0);
                let written = &written[..((far - p0) as usize).min(written.len())];
                // with a destination that takes data in pieces an injected error can cut a flush in the
                // middle; the consistency predicate is about completed flushes (C10) and is not applied then
                if far > p0 && c.chunk.is_none() {
                    if let Some(p) = crate::props::c10::snapshot_problem(written) {
                        bad!(format!("aborted-image:{}", p.sig), "after an aborted dump the destination from p0 on is not a consistent truncated minidump: {}", p.detail);
                    }
                }
                if (far as usize) < data.len() {
                    let end = far as usize;
                    if !(data.len() == orig.len() && data[end..] == orig[end..]) {
                        bad!("bytes-beyond-image-modified", "aborted dump: destination changed beyond what was written");
                    }
                }
            }
            classes.push("aborted".into());
        }
    }
    let nt = p0 > 0;
    Verdict::pass_c(if nt { Some(fp_json(c)) } else { None }, classes)
}

pub fn run(ctx: &mut LaneCtx) {
    ctx.run_sub(
        SubSpec {
            name: "dump-level",
            cases: (720, 10_000),
            rule: "whole dumps of generated targets (C01 scenarios) into a destination pre-filled with random bytes and positioned at 0/1/mid/len/beyond - also when that position is around or above 4 GiB in the destination (sparse origin) - and optionally accepting only a bounded number of bytes per write call, fault free or with an I/O error injected at a generated destination call; oracle = on success destination[p0..p0+len) equals the returned image, nothing before p0 or beyond the image changes, final position p0+len; on abort nothing before p0 changes and what was written is a consistent truncated image; non-trivial = p0 > 0; distinct = hash of case",
            strategy: (crate::props::c01::case_strategy(6), proptest::collection::vec(any::<u8>(), 0..5000), prop_oneof![Just(P0::Zero), Just(P0::One), Just(P0::Mid), Just(P0::Len), (0u8..40).prop_map(P0::Beyond)], proptest::option::weighted(0.4, any::<u8>()), any::<bool>(), proptest::option::weighted(0.35, prop_oneof![1u16..64, 64u16..5000]), 0u8..8)
                .prop_map(|(scenario, prefill, p0, fail_at, empty_env, chunk, origin)| DumpCase { scenario, prefill, p0, fail_at, empty_env, chunk, origin })
                .boxed(),
            max_shrink_iters: 100,
            log_current: true,
        },
        check_dump,
    );
    ctx.assume("one history in eight goes on emitting entries after the directory is full (the writer may reject them; what it accepts must reach image and destination alike); image only grows by appends between flushes");
    ctx.run_sub(
        SubSpec {
            name: "dirsection-history",
            cases: (40_000, 2_000_000),
            rule: "histories (<=40 ops) of grow / flush / flush-with-entry / entry-only on DirSection over an in-memory Write+Seek destination (optionally accepting only 1..300 bytes per write call) pre-filled with random bytes and positioned at 0, 1, mid, len or beyond len (plus an origin of 0, 2^32-8, 2^32, 2^32+4096, 3*2^32+12345 or 2^40 bytes already in the destination); file model checked after every op; non-trivial = starting position > 0 and a directory entry emitted after >= 2 flushes; distinct = hash of case",
            strategy: case_strategy().boxed(),
            max_shrink_iters: 4096,
            log_current: false,
        },
        check,
    );
}

pub fn replay(sub: &str, case: &Value) -> Verdict {
    match sub {
        "dirsection-history" => replay_case::<Case>(case, check),
        "dump-level" => replay_case::<DumpCase>(case, check_dump),
        _ => Verdict::Inconclusive(format!("unknown sub {sub}")),
    }
}
