//! C07 – the memory list is faithful and complete.

use crate::fw::*;
use crate::props::fid::*;
use crate::vcore::regs::REG_RIP;
use crate::vcore::target::*;
use proptest::prelude::*;
use serde_json::Value;

pub const LEVEL: &str = "exploration";

pub fn judge_live(c: &FCase) -> Verdict {
    let o = match run_case(c) {
        Ok(o) => o,
        Err(e) => return run_err_verdict(e),
    };
    macro_rules! bad {
        ($sig:expr, $($arg:tt)*) => { return Verdict::viol(format!("C07:{}", $sig), format!($($arg)*)) };
    }
    let Some(mem) = o.d.memory.as_ref() else { bad!("no-memory-list", "memory list missing: {:?}", o.d.problems.first()) };
    let threads = o.d.threads.clone().unwrap_or_default();
    // volatile ranges: spinner slots, spinner app words, stacks of glibc threads (TCB/rseq) and sleepers
    let mut volatile: Vec<(u64, u64)> = vec![];
    for (_, tid, k) in &o.case_threads {
        if *k == K_SPINNER {
            if let Some(sp) = o.planned_sp.get(tid) {
                volatile.push((sp + 8, sp + 16));
            }
            if let Some(a) = o.spinner_aux.get(tid) {
                volatile.push((*a, a + 8));
            }
        }
    }
    for t in &threads {
        let k = o.kind_of(t.tid as i32);
        let crash_thread = o.crash.is_some() && t.tid as i32 == o.blamed;
        if !crash_thread && matches!(k, Some(K_SLEEPER) | Some(K_EXITER) | Some(K_NULLSP)) {
            volatile.push((t.stack_start, t.stack_start + t.stack.size as u64));
        }
    }
    let mut compared = 0u64;
    for (i, m) in mem.iter().enumerate() {
        let size = m.loc.size as u64;
        if size == 0 {
            continue;
        }
        let Some(truth) = o.target.read_mem(m.start, size as usize) else {
            bad!("region-unreadable", "memory-list region {i} [{:#x},+{size:#x}) cannot be read from the target", m.start);
        };
        let got = o.bytes(m.loc);
        if let Some(j) = (0..size as usize).find(|j| {
            let a = m.start + *j as u64;
            got[*j] != truth[*j] && !volatile.iter().any(|(s, e)| a >= *s && a < *e)
        }) {
            bad!("bytes-differ", "memory-list region {i} [{:#x},+{size:#x}): byte at {:#x} is {:#x}, target memory holds {:#x}", m.start, m.start + j as u64, got[j], truth[j]);
        }
        compared += size;
    }
    count("memory-bytes-compared", compared);
    // application regions
    for (ptr, len) in &o.app_regions {
        if !mem.iter().any(|m| m.start == *ptr && m.loc.size as u64 == *len) {
            bad!("app-region-missing", "requested region ({ptr:#x},+{len:#x}) is not in the memory list: {:?}", mem.iter().map(|m| (m.start, m.loc.size)).collect::<Vec<_>>());
        }
    }
    // thread stacks
    let mut stacks = 0;
    for t in &threads {
        if t.stack.size == 0 {
            // a parked thread of the generated target has a stack (the checker built it): its stack pointer
            // lies in a readable mapping, so "non-empty thread stack" applies to it and an empty descriptor
            // means the stack is missing from the memory list
            // (with skip-unreferenced requested whether a stack is kept is C20's subject)
            if let (Some(K_PARKED), Some(sp), None) = (o.kind_of(t.tid as i32), o.planned_sp.get(&(t.tid as i32)), c.skip_principal) {
                if let Some(l) = o.maps_before.iter().find(|l| l.start <= *sp && *sp < l.end && l.perms & 1 != 0) {
                    bad!("stack-of-live-thread-missing", "parked thread {} has its stack pointer {sp:#x} in the readable mapping [{:#x},{:#x}) but its stack is not in the memory list (empty descriptor)", t.tid, l.start, l.end);
                }
            }
            continue;
        }
        stacks += 1;
        if !mem.iter().any(|m| m.start == t.stack_start && m.loc == t.stack) {
            bad!("stack-missing", "stack of thread {} ({:#x},+{:#x}) is not in the memory list", t.tid, t.stack_start, t.stack.size);
        }
    }
    // instruction-pointer window
    let mut classes = vec![];
    let mut expect = o.app_regions.len() + stacks;
    if let Some(cr) = &o.crash {
        let listed = threads.iter().any(|t| t.tid as i32 == o.blamed);
        let rip = cr.gregs[REG_RIP] as u64;
        let (a, b) = o.ip_map;
        if listed && rip >= a && rip < b {
            let ws = a.max(rip.saturating_sub(128));
            let we = b.min(rip + 128);
            if !mem.iter().any(|m| m.start == ws && m.loc.size as u64 == we - ws) {
                bad!("ip-window", "crash rip {rip:#x} in mapping [{a:#x},{b:#x}): expected window [{ws:#x},{we:#x}) in the memory list, have {:?}", mem.iter().map(|m| (m.start, m.loc.size)).collect::<Vec<_>>());
            }
            expect += 1;
            if (rip == a && c.ip_neighbors.0) || (rip == b - 1 && c.ip_neighbors.1) {
                classes.push("ip-at-edge-next-to-another-mapping".to_string());
            }
            if rip - a < 128 || b - rip <= 128 {
                classes.push("ip-window-clipped".to_string());
            } else {
                classes.push("ip-window-full".to_string());
            }
        } else if listed {
            classes.push("ip-outside-mappings".to_string());
        }
    }
    if mem.len() != expect {
        bad!("unexpected-region-count", "memory list has {} regions, expected {} (app {}, stacks {stacks})", mem.len(), expect, o.app_regions.len());
    }
    let odd = o.app_regions.iter().any(|(p, l)| p % 8 != 0 || l % 8 != 0);
    if odd {
        classes.push("unaligned-app-region".into());
    }
    let nt = odd || classes.iter().any(|c| c == "ip-window-clipped") || c.app.iter().any(|a| a.to_end);
    Verdict::pass_c(if nt { Some(fp_json(c)) } else { None }, classes)
}

pub fn run(ctx: &mut LaneCtx) {
    ctx.assume("ground truth = /proc/pid/mem read by the checker after the dump while the target's controlled threads are blocked; volatile ranges (spinner slots/words, stacks of glibc threads whose TCB rseq area the kernel rewrites, sleepers) are masked; 'the mapping' of the crash instruction pointer is an isolated executable mapping surrounded by holes");
    ctx.run_sub(
        SubSpec {
            name: "live-memory",
            cases: (1_440, 30_000),
            rule: "generated targets with 0..8 application regions (any alignment, length 1..1 MiB, optionally ending at the last byte before an unmapped or PROT_NONE page) inside pattern-filled mappings (one of which may have been made PROT_NONE afterwards, so that the fast read path fails and the /proc/pid/mem fallback is used), crash instruction pointer at start/+1/+127/+128/+129/mid/end-129..end-1 of an isolated mapping or outside every mapping, 1..33 threads (a fifth of the cases has more than 20, so that a triggered size limit shortens stacks); oracle = every descriptor's bytes equal the target's memory, (in some cases with skip-unreferenced requested and a principal mapping that every parked stack references, so that kept stacks must be byte-faithful under that option too) requested regions / non-empty stacks (every parked thread whose stack pointer lies in a readable mapping has one) / clipped 128-byte window present, no other region; non-trivial = unaligned or boundary-adjacent app region or clipped window; distinct = hash of case",
            strategy: (prop_oneof![4 => case_strategy(if ctx.tier == Tier::Quick { 12 } else { 33 }, 0), 1 => case_strategy(34, 21)], proptest::option::weighted(0.3, (any::<u8>(), any::<u32>(), prop_oneof![1 => 0u32..64, 3 => any::<u32>()])))
                .prop_map(|(mut c, s)| {
                    c.sealed_app = s;
                    // one case in five asks for skip-unreferenced (and nothing else that alters bytes)
                    // with a principal mapping every parked stack points into
                    if let Some((a, bb, _)) = s {
                        if (a as u32 + bb) % 5 < 2 {
                            c.skip_principal = Some(a);
                        }
                    }
                    c
                })
                .boxed(),
            max_shrink_iters: 150,
            log_current: true,
        },
        judge_live,
    );
}

pub fn replay(sub: &str, case: &Value) -> Verdict {
    match sub {
        "live-memory" => replay_case::<FCase>(case, judge_live),
        _ => Verdict::Inconclusive(format!("unknown sub {sub}")),
    }
}
