//! Entry points shared by the cargo-fuzz targets (E4) and by the replay of
//! their crash artifacts: byte strings -> the same oracles the proptest
//! sub-checks use.  Known findings are tolerated in-target (so that a campaign
//! does not rediscover one crash forever); replay is strict.

use crate::fw::*;
use serde::{Deserialize, Serialize};

#[derive(Debug, Clone, PartialEq, Eq, Hash, Serialize, Deserialize)]
pub struct Bytes {
    pub bytes: Vec<u8>,
}

fn judge(prop: &str, v: Verdict) {
    if let Verdict::Violation { signature, detail } = v {
        let known = KnownFindings::load();
        if known.matches(prop, &signature).is_some() {
            return;
        }
        eprintln!("VIOLATION in fuzz target: {signature}: {detail}");
        std::process::abort();
    }
}

fn guarded(prop: &str, f: impl FnOnce() -> Verdict) {
    let v = match catch(f) {
        Ok(v) => v,
        Err((loc, msg)) => panic_verdict(&loc, &msg),
    };
    judge(prop, v);
}

pub fn check_elf(data: &[u8]) -> Verdict {
    crate::props::c14::check_random(&crate::props::c14::RandCase { bytes: data.to_vec(), elf_magic: false })
}

/// Structure-aware decoding of fuzz bytes into a kernel-shaped memory map (the
/// same case type as C13's proptest generator, names drawn from the byte
/// stream), judged by the full C13 oracle.
pub fn decode_maps(data: &[u8]) -> crate::props::c13::Case {
    use crate::props::c13::*;
    let mut it = data.iter().copied();
    let mut next = || it.next();
    let base_page = u32::from_le_bytes([next().unwrap_or(0), next().unwrap_or(0), next().unwrap_or(0), 0]);
    let gate = match next().unwrap_or(0) % 5 {
        0 => Gate::None,
        1 => Gate::Elsewhere(0x1234_5000),
        4 => Gate::Inside((next().unwrap_or(0) as u16) << 8, u32::from_le_bytes([next().unwrap_or(0), next().unwrap_or(0), 0, 0])),
        _ => Gate::LineStart((next().unwrap_or(0) as u16) << 8),
    };
    let mut lines = vec![];
    while let Some(b0) = next() {
        if lines.len() >= 40 {
            break;
        }
        let gap = match b0 % 4 {
            0 | 1 => 0,
            2 => 1,
            _ => next().unwrap_or(0) as u16 + 2,
        };
        let pages = (next().unwrap_or(0) as u16 % 8) + 1;
        let perms = next().unwrap_or(0) % 16;
        let off = match next().unwrap_or(0) % 4 {
            0 => Off::Zero,
            1 => if b0 & 0x80 != 0 { Off::PrevFileEnd } else { Off::PrevEnd },
            2 => Off::Pages(next().unwrap_or(0) as u32),
            _ => Off::Arbitrary((next().unwrap_or(0) as u64) << 12),
        };
        let name = match next().unwrap_or(0) % 8 {
            0 | 1 => Name::None,
            2 => Name::Path(next().unwrap_or(0) % 6),
            3 => Name::PathDeleted(next().unwrap_or(0) % 6),
            4 => Name::Pseudo(next().unwrap_or(0) % 9),
            _ => {
                let n = next().unwrap_or(0) as usize % 24;
                let raw: Vec<u8> = (0..n).filter_map(|_| next()).filter(|b| *b != b'\n' && *b != 0).collect();
                Name::RawPath(String::from_utf8_lossy(&raw).into_owned())
            }
        };
        lines.push(Line { gap, pages, perms, off, name });
    }
    Case { base_page, lines, gate }
}

pub fn check_maps(data: &[u8]) -> Verdict {
    let c = decode_maps(data);
    // paths beginning with /SYSV are folded into "shared memory key" by the parser dependency (lossy,
    // see the C02 known finding): the statement's "same name" cannot be judged through it
    if c.lines.iter().any(|l| matches!(&l.name, crate::props::c13::Name::RawPath(p) if p.trim_start().starts_with("SYSV") || p.trim().is_empty() || p.trim().starts_with('['))) {
        return Verdict::pass();
    }
    // names that parse into one of the parser's special classes by accident are outside this decoder's
    // domain (e.g. a raw path that is exactly "SYSV..." is C02's subject, handled there as a known finding)
    match crate::props::c13::check(&c) {
        Verdict::Inconclusive(_) => Verdict::pass(),
        v => v,
    }
}

pub fn check_name(data: &[u8]) -> Verdict {
    use std::os::unix::ffi::OsStringExt;
    let (flags, name) = data.split_first().map(|(f, n)| (*f, n)).unwrap_or((0, &[][..]));
    let mut m = crate::vcore::dumper::mapping(0x10000, 0x4000, if flags & 1 != 0 { 5 } else { 1 }, None, (flags as usize >> 1 & 3) * 4096);
    m.name = Some(std::ffi::OsString::from_vec(name.to_vec()));
    let soname = if flags & 8 != 0 { Some(String::from_utf8_lossy(&name[name.len() / 2..]).into_owned()) } else { None };
    let _ = m.get_mapping_effective_path_name_and_version(soname);
    let _ = m.is_interesting();
    Verdict::pass()
}

pub fn elf_ident(data: &[u8]) {
    guarded("C14", || check_elf(data));
}
pub fn maps_text(data: &[u8]) {
    guarded("C13", || check_maps(data));
}
pub fn so_name(data: &[u8]) {
    guarded("C02", || check_name(data));
}

/// Sub-checks whose case type is total - every decodable value is a valid input because the
/// interpreter reduces selectors itself - and which the generic target may therefore drive
/// (audited with `vcheck bytede-audit`: no alarm, no harness panic on the unchanged tree).
pub const GENERIC_SUBS: &[(&str, &str)] = &[
    ("C01", "dso-stream"),
    ("C02", "dso-direct"),
    ("C02", "arena-hostile-elf"),
    ("C06", "pure-geometry"),
    ("C09", "dirsection-history"),
    ("C12", "pure-sanitize"),
    ("C14", "kit-images"),
    ("C15", "generated-lists"),
    ("C16", "history"),
    ("C17", "strategies"),
    ("C20", "pure-scan"),
];

/// Generic E4 entry: the fuzz bytes are decoded structure-aware (vcore::bytede) into the case
/// type of a proptest sub-check and judged by that sub-check's oracle, so libFuzzer's coverage
/// feedback steers the *same oracles*.  Property and sub-check come from VERIF_FUZZ_PROP /
/// VERIF_FUZZ_SUB.
pub fn generic_verdict(prop: &str, sub: &str, data: &[u8]) -> Option<(serde_json::Value, Verdict)> {
    let mut ctx = LaneCtx::for_fuzz(prop, sub, data, KnownFindings::default());
    crate::props::run(prop, &mut ctx);
    ctx.fuzz_out.take()
}

pub fn generic(data: &[u8]) {
    use std::sync::OnceLock;
    static SEL: OnceLock<(String, String)> = OnceLock::new();
    let (prop, sub) = SEL.get_or_init(|| {
        let sel = (std::env::var("VERIF_FUZZ_PROP").expect("VERIF_FUZZ_PROP"), std::env::var("VERIF_FUZZ_SUB").expect("VERIF_FUZZ_SUB"));
        assert!(GENERIC_SUBS.iter().any(|(p, s)| *p == sel.0 && *s == sel.1), "sub-check {sel:?} is not audited for the generic target");
        sel
    });
    if let Some((_, v)) = generic_verdict(prop, sub, data) {
        judge(prop, v);
    }
}

pub fn replay_generic(prop: &str, sub: &str, b: &Bytes) -> Verdict {
    match generic_verdict(prop, sub, &b.bytes) {
        Some((case, Verdict::Violation { signature, detail })) => Verdict::Violation { signature, detail: format!("{detail}; generated case: {case}") },
        Some((_, v)) => v,
        None => Verdict::pass(),
    }
}

/// Replay of a crash artifact (strict).
pub fn replay(target: &str, b: &Bytes) -> Verdict {
    match target {
        "fuzz-elf" => check_elf(&b.bytes),
        "fuzz-maps" => check_maps(&b.bytes),
        "fuzz-name" => check_name(&b.bytes),
        _ => Verdict::Inconclusive(format!("unknown fuzz target {target}")),
    }
}
