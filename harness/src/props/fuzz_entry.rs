//! Entry points shared by the cargo-fuzz targets (E4) and by the replay of
//! their crash artifacts: byte strings -> the same oracles the proptest
//! sub-checks use.  Known findings are tolerated in-target (so that a campaign
//! does not rediscover one crash forever); replay is strict.

use crate::fw::*;
use serde::{Deserialize, Serialize};

#[derive(Debug, Clone, PartialEq, Eq, Hash, Serialize, Deserialize)]
pub struct Bytes {
    pub bytes: Vec<u8>,
}

fn judge(prop: &str, v: Verdict) {
    if let Verdict::Violation { signature, detail } = v {
        let known = KnownFindings::load();
        if known.matches(prop, &signature).is_some() {
            return;
        }
        eprintln!("VIOLATION in fuzz target: {signature}: {detail}");
        std::process::abort();
    }
}

fn guarded(prop: &str, f: impl FnOnce() -> Verdict) {
    let v = match catch(f) {
        Ok(v) => v,
        Err((loc, msg)) => panic_verdict(&loc, &msg),
    };
    judge(prop, v);
}

pub fn check_elf(data: &[u8]) -> Verdict {
    crate::props::c14::check_random(&crate::props::c14::RandCase { bytes: data.to_vec(), elf_magic: false })
}

/// Memory-map text: totality always; C13's invariants when the text is
/// kernel-shaped (ascending, non-overlapping, non-empty ranges).
pub fn check_maps(data: &[u8]) -> Verdict {
    use procfs_core::FromRead;
    let Ok(maps) = procfs_core::process::MemoryMaps::from_read(data) else { return Verdict::pass() };
    let lines: Vec<(u64, u64)> = maps.iter().map(|m| m.address).collect();
    let shaped = lines.iter().all(|(s, e)| s < e && *e <= 0x0000_7fff_ffff_f000) && lines.windows(2).all(|w| w[0].1 <= w[1].0);
    let gate = lines.first().map(|l| l.0);
    let out = match minidump_writer::maps_reader::MappingInfo::aggregate(maps, gate) {
        Ok(o) => o,
        Err(_) => return Verdict::pass(),
    };
    if !shaped {
        return Verdict::pass();
    }
    // order, exact cover, hull (merge justification needs names/permissions: left to the proptest form)
    for w in out.windows(2) {
        if w[0].start_address + w[0].size > w[1].start_address {
            return Verdict::viol("C13:order-or-overlap", format!("{:#x}+{:#x} vs {:#x}", w[0].start_address, w[0].size, w[1].start_address));
        }
    }
    for (s, e) in &lines {
        let n = out.iter().filter(|m| m.start_address as u64 <= *s && *e <= (m.start_address + m.size) as u64).count();
        if n != 1 {
            return Verdict::viol(if n == 0 { "C13:line-not-covered" } else { "C13:line-in-two" }, format!("line [{s:#x},{e:#x}) is in {n} derived mappings"));
        }
    }
    for m in &out {
        let mine: Vec<&(u64, u64)> = lines.iter().filter(|(s, e)| m.start_address as u64 <= *s && *e <= (m.start_address + m.size) as u64).collect();
        if mine.is_empty() || mine[0].0 != m.start_address as u64 || mine.last().unwrap().1 != (m.start_address + m.size) as u64 {
            return Verdict::viol("C13:hull", format!("derived mapping [{:#x},+{:#x}) is not the hull of its lines", m.start_address, m.size));
        }
        if mine.windows(2).any(|w| w[0].1 != w[1].0) {
            return Verdict::viol("C13:merged-non-contiguous", format!("derived mapping [{:#x},+{:#x}) spans a hole", m.start_address, m.size));
        }
    }
    Verdict::pass()
}

pub fn check_name(data: &[u8]) -> Verdict {
    use std::os::unix::ffi::OsStringExt;
    let (flags, name) = data.split_first().map(|(f, n)| (*f, n)).unwrap_or((0, &[][..]));
    let mut m = crate::vcore::dumper::mapping(0x10000, 0x4000, if flags & 1 != 0 { 5 } else { 1 }, None, (flags as usize >> 1 & 3) * 4096);
    m.name = Some(std::ffi::OsString::from_vec(name.to_vec()));
    let soname = if flags & 8 != 0 { Some(String::from_utf8_lossy(&name[name.len() / 2..]).into_owned()) } else { None };
    let _ = m.get_mapping_effective_path_name_and_version(soname);
    let _ = m.is_interesting();
    Verdict::pass()
}

pub fn elf_ident(data: &[u8]) {
    guarded("C14", || check_elf(data));
}
pub fn maps_text(data: &[u8]) {
    guarded("C13", || check_maps(data));
}
pub fn so_name(data: &[u8]) {
    guarded("C02", || check_name(data));
}

/// Replay of a crash artifact (strict).
pub fn replay(target: &str, b: &Bytes) -> Verdict {
    match target {
        "fuzz-elf" => check_elf(&b.bytes),
        "fuzz-maps" => check_maps(&b.bytes),
        "fuzz-name" => check_name(&b.bytes),
        _ => Verdict::Inconclusive(format!("unknown fuzz target {target}")),
    }
}
