//! C05 – crash attribution matches what the caller supplied.
//!
//! Pure part: `CrashContext::fill_cpu_context` on arbitrary ucontext /
//! float state vs an independent greg -> context table.

use crate::fw::*;
use crate::vcore::md;
use crate::vcore::regs::*;
use minidump_writer::crash_context::CrashContext;
use minidump_writer::minidump_cpu::RawContextCPU;
use proptest::prelude::*;
use serde::{Deserialize, Serialize};
use serde_json::Value;

pub const LEVEL: &str = "exploration";

#[derive(Debug, Clone, PartialEq, Eq, Hash, Serialize, Deserialize)]
pub struct UcCase {
    /// 23 gregs
    pub gregs: Vec<i64>,
    pub fp: FpState,
    pub signo: u32,
    pub code: i32,
    pub addr: u64,
    pub errno: i32,
}

pub fn build_crash_context(c: &UcCase, pid: i32, tid: i32) -> CrashContext {
    let mut inner: crash_context::CrashContext = unsafe { std::mem::zeroed() };
    for i in 0..23 {
        inner.context.uc_mcontext.gregs[i] = c.gregs[i];
    }
    inner.float_state.cwd = c.fp.cwd;
    inner.float_state.swd = c.fp.swd;
    inner.float_state.ftw = c.fp.ftw;
    inner.float_state.fop = c.fp.fop;
    inner.float_state.rip = c.fp.rip;
    inner.float_state.rdp = c.fp.rdp;
    inner.float_state.mxcsr = c.fp.mxcsr;
    inner.float_state.mxcr_mask = c.fp.mxcr_mask;
    inner.float_state.st_space.copy_from_slice(&c.fp.st_space);
    inner.float_state.xmm_space.copy_from_slice(&c.fp.xmm_space);
    inner.siginfo.ssi_signo = c.signo;
    inner.siginfo.ssi_code = c.code;
    inner.siginfo.ssi_addr = c.addr;
    inner.siginfo.ssi_errno = c.errno;
    inner.pid = pid;
    inner.tid = tid;
    CrashContext { inner }
}

pub fn gprs_of(gregs: &[i64]) -> Gprs {
    Gprs {
        rax: gregs[REG_RAX] as u64,
        rcx: gregs[REG_RCX] as u64,
        rdx: gregs[REG_RDX] as u64,
        rbx: gregs[REG_RBX] as u64,
        rsp: gregs[REG_RSP] as u64,
        rbp: gregs[REG_RBP] as u64,
        rsi: gregs[REG_RSI] as u64,
        rdi: gregs[REG_RDI] as u64,
        r8: gregs[REG_R8] as u64,
        r9: gregs[REG_R9] as u64,
        r10: gregs[REG_R10] as u64,
        r11: gregs[REG_R11] as u64,
        r12: gregs[REG_R12] as u64,
        r13: gregs[REG_R13] as u64,
        r14: gregs[REG_R14] as u64,
        r15: gregs[REG_R15] as u64,
        rip: gregs[REG_RIP] as u64,
        eflags: gregs[REG_EFL] as u64,
    }
}

/// Compares a decoded context with the supplied ucontext; returns the first
/// differing field (ss/ds/es are not part of a ucontext: don't-care).
pub fn ucontext_mismatch(ctx: &md::Ctx, c: &UcCase) -> Option<String> {
    if let Some(r) = gpr_mismatch(ctx, &gprs_of(&c.gregs)) {
        return Some(r);
    }
    let csgsfs = c.gregs[REG_CSGSFS] as u64;
    if ctx.cs != (csgsfs & 0xffff) as u16 {
        return Some("cs".into());
    }
    if ctx.gs != ((csgsfs >> 16) & 0xffff) as u16 {
        return Some("gs".into());
    }
    if ctx.fs != ((csgsfs >> 32) & 0xffff) as u16 {
        return Some("fs".into());
    }
    if let Some(f) = float_mismatch(ctx, &c.fp) {
        return Some(f);
    }
    let need = CTX_CONTROL | CTX_INTEGER | CTX_FLOAT;
    if ctx.context_flags & need != need {
        return Some("context_flags".into());
    }
    None
}

pub fn check_uc(c: &UcCase) -> Verdict {
    let cc = build_crash_context(c, 1, 1);
    let mut cpu = RawContextCPU::default();
    cc.fill_cpu_context(&mut cpu);
    let bytes = crate::props::c04::ctx_bytes(cpu);
    let Some(ctx) = md::parse_ctx(&bytes) else {
        return Verdict::viol("C05:context-size", format!("{} bytes", bytes.len()));
    };
    if let Some(f) = ucontext_mismatch(&ctx, c) {
        return Verdict::viol(format!("C05:reg:{f}"), format!("context field {f} does not equal the supplied crash context"));
    }
    if cc.get_instruction_pointer() != c.gregs[REG_RIP] as usize || cc.get_stack_pointer() != c.gregs[REG_RSP] as usize {
        return Verdict::viol("C05:reg:accessor", "instruction/stack pointer accessor".to_string());
    }
    Verdict::pass_nt(fp_json(c), vec![])
}

pub fn uc_strategy() -> impl Strategy<Value = UcCase> {
    (
        proptest::collection::vec(any::<i64>(), 23),
        crate::props::c04::fp_strategy(),
        any::<u32>(),
        any::<i32>(),
        any::<u64>(),
        any::<i32>(),
    )
        .prop_map(|(gregs, fp, signo, code, addr, errno)| UcCase { gregs, fp, signo, code, addr, errno })
}

/// Live judge: exception stream vs the supplied crash context / blamed thread.
pub fn judge_live(c: &crate::props::fid::FCase) -> Verdict {
    use crate::props::fid::*;
    let o = match run_case(c) {
        Ok(o) => o,
        Err(e) => return run_err_verdict(e),
    };
    macro_rules! bad {
        ($sig:expr, $($arg:tt)*) => { return Verdict::viol(format!("C05:{}", $sig), format!($($arg)*)) };
    }
    let Some(exc) = o.d.exception.as_ref() else { bad!("no-exception-stream", "exception stream missing: {:?}", o.d.problems.first()) };
    let threads = o.d.threads.clone().unwrap_or_default();
    let listed = threads.iter().find(|t| t.tid as i32 == o.blamed);
    if exc.tid as i32 != o.blamed {
        bad!("thread-id", "exception names thread {} but {} was blamed", exc.tid, o.blamed);
    }
    let quadrant;
    if let Some(cr) = &o.crash {
        quadrant = if listed.is_some() { "context+present" } else { "context+absent" };
        if exc.code != cr.signo {
            bad!("signal-number", "exception_code {:#x} != signo {:#x}", exc.code, cr.signo);
        }
        if exc.flags != cr.code as u32 {
            bad!("signal-code", "exception_flags {:#x} != si_code {:#x}", exc.flags, cr.code as u32);
        }
        if exc.address != cr.addr {
            bad!("fault-address", "exception_address {:#x} != si_addr {:#x}", exc.address, cr.addr);
        }
        let uc = UcCase { gregs: cr.gregs.clone(), fp: cr.fp.clone(), signo: cr.signo, code: cr.code, addr: cr.addr, errno: 0 };
        match listed {
            Some(t) => {
                let Some(ctx) = o.ctx_of(exc.ctx) else { bad!("context-missing", "exception stream has no decodable context") };
                if let Some(f) = ucontext_mismatch(&ctx, &uc) {
                    bad!(format!("reg:{f}"), "exception context field {f} differs from the supplied crash context");
                }
                if t.ctx != exc.ctx {
                    bad!("blamed-thread-context", "blamed thread's entry uses context {:?}, exception uses {:?}", t.ctx, exc.ctx);
                }
            }
            None => {
                // absent blamed thread: no context, or exactly the supplied one -- never another thread's
                if exc.ctx.size != 0 {
                    let Some(ctx) = o.ctx_of(exc.ctx) else { bad!("context-missing", "exception context not decodable") };
                    if let Some(f) = ucontext_mismatch(&ctx, &uc) {
                        bad!("foreign-context", "blamed thread is not listed but the exception carries a context that is not the supplied one (field {f})");
                    }
                }
            }
        }
    } else {
        quadrant = if listed.is_some() { "request+present" } else { "request+absent" };
        if exc.code != 0xFFFF_FFFF {
            bad!("dump-requested-code", "exception_code {:#x}, expected DUMP_REQUESTED", exc.code);
        }
        match listed {
            Some(t) => {
                let Some(ctx) = o.ctx_of(t.ctx) else { bad!("context-missing", "blamed thread has no context") };
                if exc.ctx != t.ctx {
                    bad!("blamed-thread-context", "exception context {:?} is not the blamed thread's captured context {:?}", exc.ctx, t.ctx);
                }
                if exc.address != ctx.rip {
                    bad!("instruction-pointer", "exception_address {:#x} != blamed thread's rip {:#x}", exc.address, ctx.rip);
                }
                // "that thread's ... captured context": for a parked thread the true state is known
                if o.kind_of(o.blamed) == Some(crate::vcore::target::K_PARKED) {
                    if let (Some((regs, _)), Some(sp)) = (o.planned_regs.get(&o.blamed), o.planned_sp.get(&o.blamed)) {
                        for (i, name) in crate::vcore::md::GPR_NAMES.iter().enumerate() {
                            if matches!(*name, "rax" | "rcx" | "r11" | "rsp") {
                                continue;
                            }
                            if ctx.gpr[i] != regs[i] {
                                bad!(format!("request-context:{name}"), "exception context of the blamed (parked) thread {}: {name} = {:#x}, the thread holds {:#x}", o.blamed, ctx.gpr[i], regs[i]);
                            }
                        }
                        if ctx.gpr[4] != *sp {
                            bad!("request-context:rsp", "exception context of the blamed thread {}: rsp {:#x}, the thread holds {:#x}", o.blamed, ctx.gpr[4], sp);
                        }
                        // a 64-bit thread of this target runs with the flat user segments; a thread-specific
                        // FS/GS *base* (TLS, or one set with arch_prctl) does not change the selectors
                        if (ctx.cs, ctx.ss, ctx.ds, ctx.es, ctx.fs, ctx.gs) != (0x33, 0x2b, 0, 0, 0, 0) {
                            bad!("request-context:segment", "exception context of the blamed (parked) thread {}: cs {:#x} ss {:#x} ds {:#x} es {:#x} fs {:#x} gs {:#x}, the thread holds 0x33 0x2b 0 0 0 0", o.blamed, ctx.cs, ctx.ss, ctx.ds, ctx.es, ctx.fs, ctx.gs);
                        }
                        if ctx.rip != o.syms["park_syscall_insn"] + 2 {
                            bad!("request-context:rip", "exception context of the blamed thread {}: rip {:#x}, the thread is parked at {:#x}", o.blamed, ctx.rip, o.syms["park_syscall_insn"] + 2);
                        }
                    }
                }
            }
            None => {
                if exc.ctx.size != 0 {
                    bad!("foreign-context", "blamed thread is not listed but the exception carries a context {:?}", exc.ctx);
                }
            }
        }
    }
    Verdict::pass_c(Some(fp_json(c)), vec![quadrant.to_string()])
}

pub fn run(ctx: &mut LaneCtx) {
    ctx.run_sub(
        SubSpec {
            name: "live-exception",
            cases: (960, 30_000),
            rule: "generated targets x {crash context on/off} x blamed thread {main, any other listed thread, a thread id outside the target}; oracle = exception record fields, context equality with the supplied ucontext via the independent table, shared context location with the blamed thread's entry; every case non-trivial, classes = the four (context, presence) quadrants; distinct = hash of case",
            strategy: crate::props::fid::case_strategy(if ctx.tier == Tier::Quick { 12 } else { 64 }, 0).boxed(),
            max_shrink_iters: 150,
            log_current: true,
        },
        judge_live,
    );
    ctx.assume("ss, ds, es are not part of a ucontext and are don't-care on the crash-context path; error_offset/data_offset hold the low 32 bits of FIP/FDP (32-bit format fields)");
    ctx.run_sub(
        SubSpec {
            name: "pure-ucontext",
            cases: (30_000, 2_000_000),
            rule: "arbitrary gregs[23] + fpregs through CrashContext::fill_cpu_context vs the independent greg table (glibc REG_* indices hard-coded); every case non-trivial; distinct = hash of case",
            strategy: uc_strategy().boxed(),
            max_shrink_iters: 2048,
            log_current: false,
        },
        check_uc,
    );
}

pub fn replay(sub: &str, case: &Value) -> Verdict {
    match sub {
        "pure-ucontext" => replay_case::<UcCase>(case, check_uc),
        "live-exception" => replay_case::<crate::props::fid::FCase>(case, judge_live),
        _ => Verdict::Inconclusive(format!("unknown sub {sub}")),
    }
}
