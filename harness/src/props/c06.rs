//! C06 – captured stacks contain the live stack.
//!
//! Pure part: `PtraceDumper::get_stack_info` on generated mapping layouts and
//! stack pointers vs the reference geometry written from the statement.

use crate::fw::*;
use crate::vcore::dumper::{mapping, with_dumper};
use crate::vcore::layout::*;
use proptest::prelude::*;
use serde::{Deserialize, Serialize};
use serde_json::Value;

pub const LEVEL: &str = "exploration";
pub const GUARD: u64 = 1024 * 1024;

#[derive(Debug, Clone, PartialEq, Eq, Hash, Serialize, Deserialize)]
pub enum Sp {
    InMapping { map: u16, page: u32, inpage: u16 },
    Below { map: u16, pages_below: u16, inpage: u16 },
    Abs(u64),
}

#[derive(Debug, Clone, PartialEq, Eq, Hash, Serialize, Deserialize)]
pub struct GeoCase {
    pub layout: Layout,
    pub sp: Sp,
}

#[derive(Debug, PartialEq, Eq)]
pub enum Expect {
    Exact(u64, u64),
    Empty,
    DontCare(&'static str),
}

/// Reference geometry from the statement.
pub fn reference(regions: &[Region], sp: u64) -> Expect {
    let page = sp & !(PAGE - 1);
    if let Some(m) = regions.iter().find(|r| r.contains(page)) {
        if m.perms & 1 != 0 {
            return Expect::Exact(page, m.end - page);
        }
        if m.perms & 2 != 0 {
            return Expect::DontCare("stack pointer in a write-only mapping");
        }
        if m.perms & 4 != 0 {
            return Expect::DontCare("stack pointer in an execute-only mapping");
        }
        // permission-less: guard page, fall through
    }
    // guard page or unmapped: first plausible (readable or writable) mapping above
    for r in regions.iter().filter(|r| r.start > page && (r.perms & 3 != 0)) {
        let d = r.start - page;
        if d <= GUARD {
            if r.perms & 1 == 0 {
                return Expect::DontCare("first mapping above is write-only");
            }
            return Expect::Exact(r.start, r.end - r.start);
        } else if d <= GUARD + PAGE {
            return Expect::DontCare("first plausible mapping starts within one page beyond the guard distance");
        } else {
            return Expect::Empty;
        }
    }
    Expect::Empty
}

fn sp_value(s: &Sp, regions: &[Region]) -> u64 {
    match s {
        Sp::Abs(a) => *a,
        Sp::InMapping { map, page, inpage } => {
            if regions.is_empty() {
                return 0x7000_0000 + (*inpage as u64 % PAGE);
            }
            let r = regions[pick(*map, regions.len())];
            let pages = (r.end - r.start) / PAGE;
            r.start + (*page as u64 % pages) * PAGE + (*inpage as u64 % PAGE)
        }
        Sp::Below { map, pages_below, inpage } => {
            if regions.is_empty() {
                return 0x7000_0000;
            }
            let r = regions[pick(*map, regions.len())];
            r.start.saturating_sub((*pages_below as u64 + 1) * PAGE) + (*inpage as u64 % PAGE)
        }
    }
}

pub fn check_geo(c: &GeoCase) -> Verdict {
    let regions = c.layout.resolve();
    let sp = sp_value(&c.sp, &regions);
    let got = with_dumper(|d, _| {
        d.mappings = regions
            .iter()
            .map(|r| mapping(r.start as usize, (r.end - r.start) as usize, r.perms, None, 0))
            .collect();
        d.get_stack_info(sp as usize)
    });
    let want = reference(&regions, sp);
    let page = sp & !(PAGE - 1);
    let in_map = regions.iter().find(|r| r.contains(page)).copied();
    let mut classes = vec![];
    match &in_map {
        Some(m) if m.perms & 3 != 0 => classes.push("sp-in-rw-mapping".to_string()),
        Some(m) if m.perms & 7 == 0 => classes.push("sp-in-guard".to_string()),
        Some(_) => classes.push("sp-in-exec-only".to_string()),
        None => classes.push("sp-unmapped".to_string()),
    }
    if sp % PAGE >= 2048 {
        classes.push("inpage>=2048".into());
    }
    if sp >= 0xffff_ffff_ffff_f000 - GUARD {
        classes.push("sp-top-of-address-space".into());
    }
    match (want, got) {
        (Expect::DontCare(w), _) => Verdict::DontCare(w.to_string()),
        (Expect::Exact(s, l), Ok((gs, gl))) => {
            if gs as u64 == s && gl as u64 == l {
                let nt = if classes.iter().any(|c| c != "sp-in-rw-mapping") { Some(fp_json(c)) } else { None };
                Verdict::pass_c(nt.or_else(|| if sp % PAGE != 0 { Some(fp_json(c)) } else { None }), classes)
            } else {
                let sig = if gs as u64 != s { "C06:geo:wrong-start" } else { "C06:geo:wrong-length" };
                Verdict::viol(sig, format!("sp={sp:#x}: got ({gs:#x},{gl:#x}) want ({s:#x},{l:#x}); regions {regions:x?}"))
            }
        }
        (Expect::Exact(s, l), Err(e)) => Verdict::viol("C06:geo:missing-region", format!("sp={sp:#x}: got Err({e:?}) want ({s:#x},{l:#x}); regions {regions:x?}")),
        (Expect::Empty, Ok((gs, gl))) => Verdict::viol("C06:geo:region-beyond-guard-distance", format!("sp={sp:#x}: got ({gs:#x},{gl:#x}) want none; regions {regions:x?}")),
        (Expect::Empty, Err(_)) => {
            classes.push("empty".into());
            Verdict::pass_c(Some(fp_json(c)), classes)
        }
    }
}

pub fn geo_strategy() -> impl Strategy<Value = GeoCase> {
    let inpage = prop_oneof![
        3 => 0u16..4096,
        1 => 2040u16..2057,
        1 => 4088u16..4096,
        1 => Just(0u16),
    ];
    let abs = prop_oneof![
        Just(0u64),
        Just(1u64),
        Just(4095u64),
        Just(0x7fff_ffff_fff8u64),
        Just(0x8000_0000_0000u64),
        Just(0xffff_8000_0000_0000u64),
        (0u64..0x20_0000).prop_map(|d| u64::MAX - d),
        Just(u64::MAX - 4095),
        Just(u64::MAX - 7),
        Just(u64::MAX),
        any::<u64>(),
    ];
    (
        layout_strategy(20, 601),
        prop_oneof![
            5 => (any::<u16>(), any::<u32>(), inpage.clone()).prop_map(|(map, page, inpage)| Sp::InMapping { map, page, inpage }),
            4 => (any::<u16>(), prop_oneof![0u16..300, 250u16..262], inpage).prop_map(|(map, pages_below, inpage)| Sp::Below { map, pages_below, inpage }),
            2 => abs.prop_map(Sp::Abs),
        ],
    )
        .prop_map(|(layout, sp)| GeoCase { layout, sp })
}

pub fn run(ctx: &mut LaneCtx) {
    ctx.assume("guard distance = 1 MiB above the page of the stack pointer; a plausible stack mapping is one that is readable or writable; write-only / execute-only mappings and the one-page band just beyond the guard distance are don't-care");
    ctx.run_sub(
        SubSpec {
            name: "pure-geometry",
            cases: (60_000, 5_000_000),
            rule: "generated layouts (<=20 mappings, all permission combinations, holes 0..100000 pages) x stack pointer {inside a mapping at any in-page offset, 1..300 pages below a mapping (around the 256-page guard distance), absolute boundary values incl. the top MiB of the address space}; oracle = reference geometry; non-trivial = sp not page aligned, or in a guard/hole/exec-only page, or expected empty; distinct = hash of case",
            strategy: geo_strategy().boxed(),
            max_shrink_iters: 4096,
            log_current: false,
        },
        check_geo,
    );
}

pub fn replay(sub: &str, case: &Value) -> Verdict {
    match sub {
        "pure-geometry" => replay_case::<GeoCase>(case, check_geo),
        _ => Verdict::Inconclusive(format!("unknown sub {sub}")),
    }
}
