//! C06 – captured stacks contain the live stack.
//!
//! Pure part: `PtraceDumper::get_stack_info` on generated mapping layouts and
//! stack pointers vs the reference geometry written from the statement.

use crate::fw::*;
use crate::vcore::dumper::{mapping, with_dumper};
use crate::vcore::layout::*;
use proptest::prelude::*;
use serde::{Deserialize, Serialize};
use serde_json::Value;

pub const LEVEL: &str = "exploration";
pub const GUARD: u64 = 1024 * 1024;

#[derive(Debug, Clone, PartialEq, Eq, Hash, Serialize, Deserialize)]
pub enum Sp {
    InMapping { map: u16, page: u32, inpage: u16 },
    Below { map: u16, pages_below: u16, inpage: u16 },
    Abs(u64),
}

#[derive(Debug, Clone, PartialEq, Eq, Hash, Serialize, Deserialize)]
pub struct GeoCase {
    pub layout: Layout,
    pub sp: Sp,
}

#[derive(Debug, PartialEq, Eq)]
pub enum Expect {
    Exact(u64, u64),
    Empty,
    DontCare(&'static str),
}

/// Reference geometry from the statement.
pub fn reference(regions: &[Region], sp: u64) -> Expect {
    let page = sp & !(PAGE - 1);
    if let Some(m) = regions.iter().find(|r| r.contains(page)) {
        if m.perms & 1 != 0 {
            return Expect::Exact(page, m.end - page);
        }
        if m.perms & 2 != 0 {
            return Expect::DontCare("stack pointer in a write-only mapping");
        }
        if m.perms & 4 != 0 {
            return Expect::DontCare("stack pointer in an execute-only mapping");
        }
        // permission-less: guard page, fall through
    }
    // guard page or unmapped: first plausible (readable or writable) mapping above
    for r in regions.iter().filter(|r| r.start > page && (r.perms & 3 != 0)) {
        let d = r.start - page;
        if d <= GUARD {
            if r.perms & 1 == 0 {
                return Expect::DontCare("first mapping above is write-only");
            }
            return Expect::Exact(r.start, r.end - r.start);
        } else if d <= GUARD + PAGE {
            return Expect::DontCare("first plausible mapping starts within one page beyond the guard distance");
        } else {
            return Expect::Empty;
        }
    }
    Expect::Empty
}

fn sp_value(s: &Sp, regions: &[Region]) -> u64 {
    match s {
        Sp::Abs(a) => *a,
        Sp::InMapping { map, page, inpage } => {
            if regions.is_empty() {
                return 0x7000_0000 + (*inpage as u64 % PAGE);
            }
            let r = regions[pick(*map, regions.len())];
            let pages = (r.end - r.start) / PAGE;
            r.start + (*page as u64 % pages) * PAGE + (*inpage as u64 % PAGE)
        }
        Sp::Below { map, pages_below, inpage } => {
            if regions.is_empty() {
                return 0x7000_0000;
            }
            let r = regions[pick(*map, regions.len())];
            r.start.saturating_sub((*pages_below as u64 + 1) * PAGE) + (*inpage as u64 % PAGE)
        }
    }
}

pub fn check_geo(c: &GeoCase) -> Verdict {
    let regions = c.layout.resolve();
    let sp = sp_value(&c.sp, &regions);
    let got = with_dumper(|d, _| {
        d.mappings = regions
            .iter()
            .map(|r| mapping(r.start as usize, (r.end - r.start) as usize, r.perms, None, 0))
            .collect();
        d.get_stack_info(sp as usize)
    });
    let want = reference(&regions, sp);
    let page = sp & !(PAGE - 1);
    let in_map = regions.iter().find(|r| r.contains(page)).copied();
    let mut classes = vec![];
    match &in_map {
        Some(m) if m.perms & 3 != 0 => classes.push("sp-in-rw-mapping".to_string()),
        Some(m) if m.perms & 7 == 0 => classes.push("sp-in-guard".to_string()),
        Some(_) => classes.push("sp-in-exec-only".to_string()),
        None => classes.push("sp-unmapped".to_string()),
    }
    if sp % PAGE >= 2048 {
        classes.push("inpage>=2048".into());
    }
    if sp >= 0xffff_ffff_ffff_f000 - GUARD {
        classes.push("sp-top-of-address-space".into());
    }
    match (want, got) {
        (Expect::DontCare(w), _) => Verdict::DontCare(w.to_string()),
        (Expect::Exact(s, l), Ok((gs, gl))) => {
            if gs as u64 == s && gl as u64 == l {
                let nt = if classes.iter().any(|c| c != "sp-in-rw-mapping") { Some(fp_json(c)) } else { None };
                Verdict::pass_c(nt.or_else(|| if sp % PAGE != 0 { Some(fp_json(c)) } else { None }), classes)
            } else {
                let sig = if gs as u64 != s { "C06:geo:wrong-start" } else { "C06:geo:wrong-length" };
                Verdict::viol(sig, format!("sp={sp:#x}: got ({gs:#x},{gl:#x}) want ({s:#x},{l:#x}); regions {regions:x?}"))
            }
        }
        (Expect::Exact(s, l), Err(e)) => Verdict::viol("C06:geo:missing-region", format!("sp={sp:#x}: got Err({e:?}) want ({s:#x},{l:#x}); regions {regions:x?}")),
        (Expect::Empty, Ok((gs, gl))) => Verdict::viol("C06:geo:region-beyond-guard-distance", format!("sp={sp:#x}: got ({gs:#x},{gl:#x}) want none; regions {regions:x?}")),
        (Expect::Empty, Err(_)) => {
            classes.push("empty".into());
            Verdict::pass_c(Some(fp_json(c)), classes)
        }
    }
}

pub fn geo_strategy() -> impl Strategy<Value = GeoCase> {
    let inpage = prop_oneof![
        3 => 0u16..4096,
        1 => 2040u16..2057,
        1 => 4088u16..4096,
        1 => Just(0u16),
    ];
    let abs = prop_oneof![
        Just(0u64),
        Just(1u64),
        Just(4095u64),
        Just(0x7fff_ffff_fff8u64),
        Just(0x8000_0000_0000u64),
        Just(0xffff_8000_0000_0000u64),
        (0u64..0x20_0000).prop_map(|d| u64::MAX - d),
        Just(u64::MAX - 4095),
        Just(u64::MAX - 7),
        Just(u64::MAX),
        any::<u64>(),
    ];
    (
        layout_strategy(20, 601),
        prop_oneof![
            5 => (any::<u16>(), any::<u32>(), inpage.clone()).prop_map(|(map, page, inpage)| Sp::InMapping { map, page, inpage }),
            4 => (any::<u16>(), prop_oneof![0u16..300, 250u16..262], inpage).prop_map(|(map, pages_below, inpage)| Sp::Below { map, pages_below, inpage }),
            2 => abs.prop_map(Sp::Abs),
        ],
    )
        .prop_map(|(layout, sp)| GeoCase { layout, sp })
}

/// Live judge: geometry and bytes of every captured stack.
pub fn judge_live(c: &crate::props::fid::FCase) -> Verdict {
    use crate::props::fid::*;
    use crate::vcore::target::*;
    let o = match run_case(c) {
        Ok(o) => o,
        Err(e) => return run_err_verdict(e),
    };
    macro_rules! bad {
        ($sig:expr, $($arg:tt)*) => { return Verdict::viol(format!("C06:{}", $sig), format!($($arg)*)) };
    }
    let Some(threads) = o.d.threads.as_ref() else { bad!("no-thread-list", "thread list missing") };
    let Some(tl) = o.d.stream(crate::vcore::md::ST_THREAD_LIST) else { bad!("no-thread-list", "thread list missing") };
    let n = threads.len() as u64;
    let triggered = match o.limit {
        Some(l) => (tl.loc.rva as u64 + tl.loc.size as u64) + 8192 * n + 65536 > l,
        None => false,
    };
    let regions: Vec<Region> = o.maps_before.iter().map(|m| Region { start: m.start, end: m.end, perms: m.perms & 7 }).collect();
    let mut classes = vec![];
    let mut shortened_seen = 0;
    for (idx, t) in threads.iter().enumerate() {
        let tid = t.tid as i32;
        let is_crash_thread = o.crash.is_some() && tid == o.blamed;
        let kind = o.kind_of(tid);
        let sp = if is_crash_thread {
            o.crash.as_ref().unwrap().gregs[crate::vcore::regs::REG_RSP] as u64
        } else if let Some(sp) = o.planned_sp.get(&tid) {
            *sp
        } else {
            // main / sleeper / exiter: take the stack pointer the dump recorded for the thread
            match o.ctx_of(t.ctx) {
                Some(ctx) => ctx.gpr[4],
                None => continue,
            }
        };
        let (start, len) = (t.stack_start, t.stack.size as u64);
        let may_shorten = triggered && idx >= 20 && !is_crash_thread;
        let want = reference(&regions, sp);
        match want {
            Expect::DontCare(_) => continue,
            Expect::Empty => {
                if len != 0 {
                    bad!("region-for-unmapped-sp", "thread {tid}: sp {sp:#x} has no plausible stack within the guard distance but a region ({start:#x},+{len:#x}) was captured");
                }
                classes.push("sp-unmapped-empty".to_string());
                continue;
            }
            Expect::Exact(s, l) => {
                if len == 0 {
                    bad!("missing-stack", "thread {tid}: sp {sp:#x} lies in/below readable memory [{s:#x},+{l:#x}) but no stack was captured");
                }
                let sp_inside = sp >= s;
                if !may_shorten || l <= 2048 {
                    if start != s || len != l {
                        let sig = if may_shorten { "geometry" } else if len < l { "shortened-wrongly" } else { "geometry" };
                        bad!(sig, "thread {tid} (list position {idx}, limit triggered {triggered}, crash thread {is_crash_thread}): region ({start:#x},+{len:#x}) expected ({s:#x},+{l:#x}), sp {sp:#x}");
                    }
                } else if (start, len) != (s, l) {
                    // shortened
                    shortened_seen += 1;
                    if len > 2048 {
                        bad!("shortened-too-long", "thread {tid}: shortened region has {len} bytes");
                    }
                    if sp_inside {
                        if !(start <= sp && sp < start + len) {
                            bad!("shortened-misses-sp", "thread {tid} (position {idx}): shortened region [{start:#x},+{len:#x}) does not contain the stack pointer {sp:#x} (in-page offset {})", sp % 4096);
                        }
                        if start < s {
                            bad!("geometry", "thread {tid}: shortened region starts below the page of the stack pointer");
                        }
                    } else if start != s {
                        bad!("geometry", "thread {tid}: sp below the stack mapping, shortened region must begin at the mapping start {s:#x}, got {start:#x}");
                    }
                    if start + len > s + l {
                        bad!("geometry", "thread {tid}: shortened region runs past the mapping end");
                    }
                }
                if sp_inside && !(start <= sp && sp < start + len) {
                    bad!("region-misses-sp", "thread {tid}: region [{start:#x},+{len:#x}) does not contain sp {sp:#x}");
                }
                // bytes from the stack pointer upward (volatile threads are skipped)
                // glibc thread stacks hold the TCB whose rseq area the kernel rewrites on every
                // resume (cpu id), and sleepers run: only custom stacks and the main stack are stable
                if kind == Some(K_SLEEPER) || kind == Some(K_EXITER) || kind == Some(K_NULLSP) {
                    continue;
                }
                let from = sp.max(start);
                let upto = start + len;
                if from < upto {
                    let Some(mem) = o.target.read_mem(from, (upto - from) as usize) else { continue };
                    let got = &o.bytes(t.stack)[(from - start) as usize..];
                    // every spinner keeps rewriting its own slot [sp+8, sp+16)
                    let slots: Vec<u64> = o.case_threads.iter().filter(|(_, _, k)| *k == K_SPINNER).filter_map(|(_, t, _)| o.planned_sp.get(t).copied()).collect();
                    let diff = (0..mem.len()).find(|i| {
                        let a = from + *i as u64;
                        mem[*i] != got[*i] && !slots.iter().any(|s| a >= s + 8 && a < s + 16)
                    });
                    if let Some(i) = diff {
                        bad!("bytes-differ", "thread {tid} (kind {kind:?}, sp {sp:#x}, region {start:#x}+{len:#x}): captured stack byte at {:#x} is {:#x}, target memory holds {:#x}", from + i as u64, got[i], mem[i]);
                    }
                    crate::fw::count("stack-bytes-compared", mem.len() as u64);
                }
                if sp % 4096 >= 2048 {
                    classes.push("inpage>=2048".to_string());
                }
                if !sp_inside {
                    classes.push("sp-in-guard-or-hole".to_string());
                }
            }
        }
    }
    if triggered {
        classes.push("limit-triggered".into());
    }
    if shortened_seen > 0 {
        classes.push("shortened-stacks".into());
        crate::fw::count("shortened-stacks", shortened_seen);
    }
    classes.sort();
    classes.dedup();
    let nt = (triggered && threads.len() >= 21) || classes.iter().any(|c| c == "sp-in-guard-or-hole" || c == "inpage>=2048" || c == "sp-unmapped-empty");
    Verdict::pass_c(if nt { Some(fp_json(c)) } else { None }, classes)
}

pub fn run(ctx: &mut LaneCtx) {
    ctx.assume("live part: 'containing mapping' = the /proc/pid/maps line (custom stacks are anonymous mappings separated by holes/guard pages so kernel, writer and checker agree); the size-limit trigger is recomputed from the image (end of the thread list + 8192*n + 65536 > limit); bytes are compared for threads on custom stacks and the main thread; glibc thread stacks (sleepers, exiters) contain the TCB whose rseq area the kernel rewrites on resume and are not byte-compared");
    ctx.run_sub(
        SubSpec {
            name: "live-stacks",
            cases: (640, 20_000),
            rule: "generated targets with 1..24 parked/spinner/sleeper threads on custom stacks (1..64 pages, with/without guard page), sp at any in-page offset / in the guard page / in a hole below, optionally one more thread whose stack lies in a file mapped as [rw][PROT_NONE][rw] (merged into one module; the readable run ends at the PROT_NONE page); crash context on the blamed thread; oracle = reference geometry over /proc/pid/maps + bytes from sp upward equal /proc/pid/mem; non-trivial = sp in guard/hole, in-page offset >= 2048, or limit triggered with >= 21 threads; distinct = hash of case",
            strategy: (crate::props::fid::case_strategy(24, 1), proptest::option::weighted(0.3, (any::<u8>(), any::<bool>())))
                .prop_map(|(mut c, fs)| {
                    c.file_stack = fs;
                    c
                })
                .boxed(),
            max_shrink_iters: 150,
            log_current: true,
        },
        judge_live,
    );
    ctx.run_sub(
        SubSpec {
            name: "live-stacks-limit",
            cases: (288, 8_000),
            rule: "as live-stacks but 22..48 threads and a size limit around the estimate threshold (+-3), tiny (so that threads at list position >= 20 are shortened) or at the top of the value range (u64::MAX, 2^63 +- ...: never triggered); oracle additionally: only positions >= 20 and never the crash-context thread are shortened, to <= 2048 bytes containing sp",
            strategy: (crate::props::fid::case_strategy(48, 22), prop_oneof![4 => (-3i32..4).prop_map(crate::props::fid::LimitG::Around), 2 => Just(crate::props::fid::LimitG::Tiny), 1 => any::<u8>().prop_map(crate::props::fid::LimitG::Top)])
                .prop_map(|(mut c, l)| {
                    c.limit = l;
                    c
                })
                .boxed(),
            max_shrink_iters: 100,
            log_current: true,
        },
        judge_live,
    );
    ctx.assume("guard distance = 1 MiB above the page of the stack pointer; a plausible stack mapping is one that is readable or writable; write-only / execute-only mappings and the one-page band just beyond the guard distance are don't-care");
    ctx.run_sub(
        SubSpec {
            name: "pure-geometry",
            cases: (60_000, 5_000_000),
            rule: "generated layouts (<=20 mappings, all permission combinations, holes 0..100000 pages) x stack pointer {inside a mapping at any in-page offset, 1..300 pages below a mapping (around the 256-page guard distance), absolute boundary values incl. the top MiB of the address space}; oracle = reference geometry; non-trivial = sp not page aligned, or in a guard/hole/exec-only page, or expected empty; distinct = hash of case",
            strategy: geo_strategy().boxed(),
            max_shrink_iters: 4096,
            log_current: false,
        },
        check_geo,
    );
}

pub fn replay(sub: &str, case: &Value) -> Verdict {
    match sub {
        "pure-geometry" => replay_case::<GeoCase>(case, check_geo),
        "live-stacks" | "live-stacks-limit" => replay_case::<crate::props::fid::FCase>(case, judge_live),
        _ => Verdict::Inconclusive(format!("unknown sub {sub}")),
    }
}
