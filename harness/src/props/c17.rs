//! C17 – all remote-memory read strategies return the target's bytes.

use crate::fw::*;
use crate::vcore::arena::*;
use crate::vcore::target::pat;
use minidump_writer::mem_reader::MemReader;
use minidump_writer::ptrace_dumper::PtraceDumper;
use proptest::prelude::*;
use serde::{Deserialize, Serialize};
use serde_json::Value;

pub const LEVEL: &str = "exploration";

#[derive(Debug, Clone, Copy, PartialEq, Eq, Hash, Serialize, Deserialize)]
pub enum Style {
    VirtualMem,
    File,
    Ptrace,
    Auto,
    CopyFromProcess,
}

#[derive(Debug, Clone, PartialEq, Eq, Hash, Serialize, Deserialize)]
pub enum Range {
    /// start offset in the view, length
    Inside { start: u32, len: u32 },
    /// ends `back` bytes before the end of the view (0 = exactly at the end)
    EndingAt { back: u8, len: u32 },
    /// crosses the end of the view by `over` bytes
    Crossing { over: u16, len: u32 },
    /// starts within the first 16 bytes of the view (nothing is mapped below it)
    AtStart { start: u8, len: u8 },
    /// inside the 40-page view: up to 64 KiB + 8 at any alignment, so that 17 and more pages are touched
    Big { start: u32, len: u32 },
}

#[derive(Debug, Clone, PartialEq, Eq, Hash, Serialize, Deserialize)]
pub struct Case {
    pub style: Style,
    /// read-only view (followed by unmapped memory) instead of the rw view (followed by a PROT_NONE page)
    pub ro: bool,
    pub range: Range,
    /// read_to_vec instead of read
    pub to_vec: bool,
    /// the dumper has more than one target: immediately before the judged read the same thread reads
    /// a few bytes from ANOTHER process (an idle helper) through the same entry point
    #[serde(default)]
    pub other_target_first: bool,
}

thread_local! {
    static DECOY: std::cell::Cell<Option<(i32, usize, [u8; 8])>> = const { std::cell::Cell::new(None) };
}

/// An unrelated live process and a readable address in it (start of its first readable mapping).
fn decoy() -> Option<(i32, usize, [u8; 8])> {
    if let Some(d) = DECOY.with(|d| d.get()) {
        return Some(d);
    }
    let pid = crate::vcore::helpers::spawn_idle();
    let maps = crate::props::fid::parse_maps(&std::fs::read(format!("/proc/{pid}/maps")).ok()?);
    let addr = maps.iter().find(|l| l.perms & 1 != 0 && !l.name.starts_with('['))?.start as usize;
    use std::os::unix::fs::FileExt;
    let mut truth = [0u8; 8];
    std::fs::File::open(format!("/proc/{pid}/mem")).ok()?.read_exact_at(&mut truth, addr as u64).ok()?;
    DECOY.with(|d| d.set(Some((pid, addr, truth))));
    Some((pid, addr, truth))
}

/// Reads 8 bytes of the other process the way the case's style reads; Some(problem) if they are wrong.
fn read_other_target(style: Style) -> Option<String> {
    let (pid, addr, truth) = decoy()?;
    let got: Result<Vec<u8>, String> = match style {
        Style::CopyFromProcess => PtraceDumper::copy_from_process(pid, addr, 8).map_err(|e| format!("{e:?}")),
        Style::Auto => MemReader::new(pid).read_to_vec(addr, std::num::NonZeroUsize::new(8).unwrap()).map_err(|e| format!("{e:?}")),
        Style::VirtualMem => MemReader::for_virtual_mem(pid).read_to_vec(addr, std::num::NonZeroUsize::new(8).unwrap()).map_err(|e| format!("{e:?}")),
        Style::File => MemReader::for_file(pid).ok()?.read_to_vec(addr, std::num::NonZeroUsize::new(8).unwrap()).map_err(|e| format!("{e:?}")),
        // word-by-word ptrace needs a stopped tracee: the other process is not traced
        Style::Ptrace => return None,
    };
    match got {
        Ok(v) if v == truth => None,
        Ok(v) => Some(format!("8 bytes at {addr:#x} of process {pid}: got {v:02x?}, it holds {truth:02x?}")),
        Err(e) => Some(format!("8 bytes at {addr:#x} of process {pid} (readable): {e}")),
    }
}

const SEED: u64 = 0xC17;

pub fn check(c: &Case) -> Verdict {
    if c.other_target_first {
        // make sure the arena helper exists (and was read before) in half of these cases, so that both
        // orders - other process first / arena first - occur within one lane
        if let Some(p) = read_other_target(c.style) {
            return Verdict::viol(format!("C17:{:?}:other-target:wrong-bytes-or-failure", c.style), p);
        }
    }
    let r = with_arena(|a| {
        // (re)fill with the address-derived pattern once
        if a.bytes()[0] != pat(0, SEED) || a.bytes()[4097] != pat(4097, SEED) {
            for (i, b) in a.bytes().iter_mut().enumerate() {
                *b = pat(i as u64, SEED);
            }
        }
        if !a.ensure_traced() {
            return Err("cannot ptrace the arena helper".to_string());
        }
        if let Range::Big { start, len } = c.range {
            // judged on its own: the big view has a fixed pattern and is entirely readable
            let start = start as u64 % (ARENA_BIG_SIZE - 65536 - 8);
            let len = 1 + (len as u64 % (65536 + 8));
            let len = if len % 7 == 0 { 65536 - (len % 4096) } else { len }; // bias towards the top 4 KiB of the range
            let addr = (ARENA_BIG + start) as usize;
            let pid = a.pid();
            let mut dst = vec![0xA5u8; len as usize];
            let res: Result<Vec<u8>, String> = match c.style {
                Style::CopyFromProcess => PtraceDumper::copy_from_process(pid, addr, len as usize).map_err(|e| format!("{e:?}")),
                st => {
                    let mut rd = match st {
                        Style::VirtualMem => MemReader::for_virtual_mem(pid),
                        Style::File => match MemReader::for_file(pid) {
                            Ok(r) => r,
                            Err(e) => return Err(format!("for_file: {e}")),
                        },
                        Style::Ptrace => MemReader::for_ptrace(pid),
                        _ => MemReader::new(pid),
                    };
                    if c.to_vec {
                        rd.read_to_vec(addr, std::num::NonZeroUsize::new(len as usize).unwrap()).map_err(|e| format!("{e:?}"))
                    } else {
                        rd.read(addr, &mut dst).map(|n| dst[..n].to_vec()).map_err(|e| format!("{e:?}"))
                    }
                }
            };
            let truth: Vec<u8> = (start..start + len).map(|o| pat(o, BIG_SEED)).collect();
            return Ok((u64::MAX, len, res, truth));
        }
        let base = if c.ro { ARENA_RO } else { ARENA };
        let (start, len) = match c.range {
            Range::Inside { start, len } => {
                let start = start as u64 % ARENA_SIZE;
                let len = 1 + (len as u64 % (ARENA_SIZE - start));
                (start, len)
            }
            Range::EndingAt { back, len } => {
                let end = ARENA_SIZE - (back as u64 % 9);
                let len = 1 + (len as u64 % end);
                (end - len, len)
            }
            Range::AtStart { start, len } => ((start % 16) as u64, 1 + (len % 24) as u64),
            Range::Big { .. } => unreachable!(),
            Range::Crossing { over, len } => {
                let end = ARENA_SIZE + 1 + (over as u64 % 6000);
                let len = (1 + (len as u64 % 65536)).min(end).max(end - ARENA_SIZE + 1);
                (end - len, len)
            }
        };
        let addr = (base + start) as usize;
        let pid = a.pid();
        let mut dst = vec![0xA5u8; len as usize];
        let res: Result<Vec<u8>, String> = match c.style {
            Style::CopyFromProcess => PtraceDumper::copy_from_process(pid, addr, len as usize).map_err(|e| format!("{e:?}")),
            st => {
                let mut rd = match st {
                    Style::VirtualMem => MemReader::for_virtual_mem(pid),
                    Style::File => match MemReader::for_file(pid) {
                        Ok(r) => r,
                        Err(e) => return Err(format!("for_file: {e}")),
                    },
                    Style::Ptrace => MemReader::for_ptrace(pid),
                    _ => MemReader::new(pid),
                };
                if c.to_vec {
                    rd.read_to_vec(addr, std::num::NonZeroUsize::new(len as usize).unwrap()).map_err(|e| format!("{e:?}"))
                } else {
                    rd.read(addr, &mut dst).map(|n| dst[..n].to_vec()).map_err(|e| format!("{e:?}"))
                }
            }
        };
        let view = a.bytes().to_vec();
        Ok((start, len, res, view))
    });
    let (start, len, res, view) = match r {
        Ok(Ok(x)) => x,
        Ok(Err(e)) => return Verdict::Inconclusive(e),
        Err(e) => return Verdict::Inconclusive(format!("arena: {e}")),
    };
    if start == u64::MAX {
        // Range::Big: `view` is the expected content of an entirely readable range
        let sig = |s: &str| format!("C17:{:?}:{s}", c.style);
        return match res {
            Ok(got) if got == view => Verdict::pass_c(Some(fp_json(c)), vec![format!("{:?}", c.style), if len > 61440 { "big:>=16-pages".to_string() } else { "big".to_string() }]),
            Ok(got) if got.len() as u64 != len => Verdict::viol(sig("short-read-of-readable-range"), format!("{len} bytes inside the 40-page view, entirely readable, but {} bytes were returned", got.len())),
            Ok(_) => Verdict::viol(sig("wrong-bytes"), format!("{len} bytes inside the 40-page view: content differs")),
            Err(e) => Verdict::viol(sig("readable-range-fails"), format!("{len} bytes inside the 40-page view: {e}")),
        };
    }
    let end = start + len;
    let readable_end = end.min(ARENA_SIZE);
    let truth = &view[start as usize..readable_end as usize];
    let entirely_readable = end <= ARENA_SIZE;
    let mut classes = vec![format!("{:?}", c.style)];
    let sig = |s: &str| format!("C17:{:?}:{s}", c.style);
    match res {
        Ok(got) => {
            if got.len() as u64 > len {
                return Verdict::viol(sig("too-many-bytes"), format!("asked for {len} bytes, got {}", got.len()));
            }
            let n = got.len().min(truth.len());
            if got[..n] != truth[..n] {
                let i = (0..n).find(|i| got[*i] != truth[*i]).unwrap();
                return Verdict::viol(sig("wrong-bytes"), format!("[{start:#x},+{len:#x}) ro={}: byte {i} is {:#x}, target holds {:#x}", c.ro, got[i], truth[i]));
            }
            if entirely_readable && got.len() as u64 != len {
                return Verdict::viol(sig("short-read-of-readable-range"), format!("[{start:#x},+{len:#x}) ro={} lies entirely in readable memory but only {} bytes were returned", c.ro, got.len()));
            }
            if !entirely_readable {
                if c.ro {
                    // beyond the read-only view nothing is mapped: a strict prefix at most
                    if got.len() as u64 > ARENA_SIZE - start {
                        return Verdict::viol(sig("fabricated-data"), format!("[{start:#x},+{len:#x}) runs into unmapped memory but {} bytes were returned ({} exist)", got.len(), ARENA_SIZE - start));
                    }
                } else {
                    // beyond the rw view lies one untouched PROT_NONE page (true content: zeros), then nothing
                    let extra = &got[n..];
                    let max_extra = 4096usize;
                    if extra.len() > max_extra || extra.iter().any(|b| *b != 0) {
                        return Verdict::viol(sig("fabricated-data"), format!("[{start:#x},+{len:#x}): bytes returned beyond the readable view are not the page's true content"));
                    }
                }
                classes.push("crossing:prefix".into());
            }
        }
        Err(e) => {
            if entirely_readable {
                return Verdict::viol(
                    sig(if len % 8 != 0 && end + 8 > ARENA_SIZE { "readable-range-fails:unaligned-tail-at-mapping-end" } else { "readable-range-fails" }),
                    format!("[{start:#x},+{len:#x}) ro={} lies entirely in readable memory but the read failed: {e}", c.ro),
                );
            }
            classes.push("crossing:err".into());
        }
    }
    let nt = len % 8 != 0 || end + 8 > ARENA_SIZE;
    if start < 8 && len < 8 {
        classes.push("short-read-at-low-edge-of-mapping".into());
    }
    if len % 8 != 0 {
        classes.push("len%8!=0".into());
    }
    if entirely_readable && end + 8 > ARENA_SIZE {
        classes.push("ends-within-8-of-mapping-end".into());
    }
    Verdict::pass_c(if nt { Some(fp_json(c)) } else { None }, classes)
}

// ---------------------------------------------------------------------------
// one reader, several reads, the target's memory changing in between
// ---------------------------------------------------------------------------

#[derive(Debug, Clone, PartialEq, Eq, Hash, Serialize, Deserialize)]
pub struct HStep {
    /// rewrite this window of the target's memory before the read: (start, len, xor byte)
    pub poke: Option<(u32, u16, u8)>,
    /// what the rewritten window holds: 0 = old content xor the byte, 1 = all 0xFF (a word that reads as
    /// -1, the error value of the peek interface), 2 = all zero, 3 = little-endian words equal to small
    /// negative numbers (-1..-4095: the range of error returns)
    #[serde(default)]
    pub fill: u8,
    pub start: u32,
    pub len: u32,
    pub to_vec: bool,
    /// read near the previous read (within 8 KiB) instead of at `start`
    pub near_previous: bool,
}

#[derive(Debug, Clone, PartialEq, Eq, Hash, Serialize, Deserialize)]
pub struct HCase {
    pub style: Style,
    pub ro: bool,
    pub steps: Vec<HStep>,
}

pub fn check_history(c: &HCase) -> Verdict {
    let r = with_arena(|a| {
        for (i, b) in a.bytes().iter_mut().enumerate() {
            *b = pat(i as u64, SEED);
        }
        if !a.ensure_traced() {
            return Err("cannot ptrace the arena helper".to_string());
        }
        let pid = a.pid();
        let base = if c.ro { ARENA_RO } else { ARENA };
        let mut rd = match c.style {
            Style::VirtualMem => MemReader::for_virtual_mem(pid),
            Style::File => match MemReader::for_file(pid) {
                Ok(r) => r,
                Err(e) => return Err(format!("for_file: {e}")),
            },
            Style::Ptrace => MemReader::for_ptrace(pid),
            _ => MemReader::new(pid),
        };
        let mut prev: u64 = 0;
        let mut poked = false;
        for (k, st) in c.steps.iter().enumerate() {
            if let Some((ps, pl, x)) = st.poke {
                // centred on the previous read when asked for (that is where a stale copy would be)
                let ps = if st.near_previous { prev.saturating_sub(64) } else { ps as u64 % ARENA_SIZE };
                let pl = (1 + pl as u64 % 4096).min(ARENA_SIZE - ps);
                let x = x | 1;
                let cur: Vec<u8> = match st.fill % 4 {
                    1 => vec![0xFF; pl as usize],
                    2 => vec![0; pl as usize],
                    3 => (0..pl).map(|i| ((-(1 + ((ps + i) / 8 * 977 + x as u64) as i64 % 4095)) as u64).to_le_bytes()[((ps + i) % 8) as usize]).collect(),
                    _ => a.bytes()[ps as usize..(ps + pl) as usize].iter().map(|b| b ^ x).collect(),
                };
                a.write(ps, &cur);
                poked = true;
            }
            let start = if st.near_previous { (prev + (st.start as u64 % 8192)).saturating_sub(4096).min(ARENA_SIZE - 1) } else { st.start as u64 % ARENA_SIZE };
            let len = 1 + (st.len as u64 % 65536).min(ARENA_SIZE - start - 1);
            prev = start;
            let addr = (base + start) as usize;
            let got: Result<Vec<u8>, String> = if st.to_vec {
                rd.read_to_vec(addr, std::num::NonZeroUsize::new(len as usize).unwrap()).map_err(|e| format!("{e:?}"))
            } else {
                let mut dst = vec![0xA5u8; len as usize];
                rd.read(addr, &mut dst).map(|n| dst[..n].to_vec()).map_err(|e| format!("{e:?}"))
            };
            let truth = a.bytes()[start as usize..(start + len) as usize].to_vec();
            match got {
                Err(e) => return Ok(Some((format!("C17:{:?}:history:readable-range-fails", c.style), format!("read #{k} [{start:#x},+{len:#x}) lies entirely in readable memory but failed: {e}")))),
                Ok(g) => {
                    if g != truth {
                        let i = (0..g.len().min(truth.len())).find(|i| g[*i] != truth[*i]);
                        return Ok(Some((
                            format!("C17:{:?}:history:{}", c.style, if g.len() != truth.len() { "short-read-of-readable-range" } else { "stale-or-wrong-bytes" }),
                            format!("read #{k} [{start:#x},+{len:#x}) through a reader that was used before (memory rewritten in between: {poked}): {} bytes returned, first difference at {i:?}", g.len()),
                        )));
                    }
                }
            }
        }
        Ok(None)
    });
    match r {
        Ok(Ok(None)) => {
            let nt = c.steps.len() >= 2 && c.steps.iter().skip(1).any(|s| s.poke.is_some());
            Verdict::pass_c(if nt { Some(fp_json(c)) } else { None }, vec![format!("{:?}", c.style)])
        }
        Ok(Ok(Some((sig, d)))) => Verdict::viol(sig, d),
        Ok(Err(e)) => Verdict::Inconclusive(e),
        Err(e) => Verdict::Inconclusive(format!("arena: {e}")),
    }
}

// ---------------------------------------------------------------------------
// a reader that outlives its target
// ---------------------------------------------------------------------------

#[derive(Debug, Clone, PartialEq, Eq, Hash, Serialize, Deserialize)]
pub struct DeadCase {
    pub style: Style,
    pub len: u16,
    pub to_vec: bool,
    /// the target execs another program instead of being killed (its old address space goes away too)
    pub reads_before: u8,
}

pub fn check_dead(c: &DeadCase) -> Verdict {
    if matches!(c.style, Style::Ptrace | Style::CopyFromProcess) {
        // word-by-word ptrace needs a stopped tracee; copy_from_process makes its reader per call
        return Verdict::DontCare("strategy without a reader that can outlive the target".into());
    }
    let pid = crate::vcore::helpers::spawn_idle();
    let reap = |pid: i32| unsafe {
        libc::kill(pid, libc::SIGKILL);
        let mut st = 0;
        libc::waitpid(pid, &mut st, 0);
    };
    let maps = crate::props::fid::parse_maps(&std::fs::read(format!("/proc/{pid}/maps")).unwrap_or_default());
    let Some(line) = maps.iter().find(|l| l.perms & 1 != 0 && !l.name.starts_with('[') && l.end - l.start >= 4096) else {
        reap(pid);
        return Verdict::Inconclusive("no readable mapping in the helper".into());
    };
    let addr = line.start as usize;
    let len = 1 + (c.len as usize % 4096);
    use std::os::unix::fs::FileExt;
    let mut truth = vec![0u8; len];
    if std::fs::File::open(format!("/proc/{pid}/mem")).and_then(|f| f.read_exact_at(&mut truth, addr as u64)).is_err() {
        reap(pid);
        return Verdict::Inconclusive("cannot read the helper's memory".into());
    }
    let mut rd = match c.style {
        Style::VirtualMem => MemReader::for_virtual_mem(pid),
        Style::File => match MemReader::for_file(pid) {
            Ok(r) => r,
            Err(e) => {
                reap(pid);
                return Verdict::Inconclusive(format!("for_file: {e}"));
            }
        },
        _ => MemReader::new(pid),
    };
    let sig = |s: &str| format!("C17:{:?}:outlived-target:{s}", c.style);
    for k in 0..(c.reads_before % 3) {
        let mut dst = vec![0xA5u8; len];
        match rd.read(addr, &mut dst) {
            Ok(n) if n == len && dst == truth => {}
            other => {
                reap(pid);
                return Verdict::viol(sig("live-read-wrong"), format!("read #{k} of {len} readable bytes of the live target: {other:?}"));
            }
        }
    }
    reap(pid);
    // the target is gone: nothing can be read any more; a read must fail (or return nothing), never
    // report bytes it did not read
    let got: Result<Vec<u8>, String> = if c.to_vec {
        rd.read_to_vec(addr, std::num::NonZeroUsize::new(len).unwrap()).map_err(|e| format!("{e:?}"))
    } else {
        let mut dst = vec![0xA5u8; len];
        rd.read(addr, &mut dst).map(|n| dst[..n.min(len)].to_vec()).map_err(|e| format!("{e:?}"))
    };
    match got {
        Err(_) => Verdict::pass_c(Some(fp_json(c)), vec![format!("{:?}", c.style), "error-after-death".into()]),
        Ok(v) if v.is_empty() => Verdict::pass_c(Some(fp_json(c)), vec![format!("{:?}", c.style), "nothing-after-death".into()]),
        Ok(v) => Verdict::viol(sig("fabricated-data"), format!("the target was killed and reaped, yet a read of {len} bytes through a reader opened while it lived reports {} bytes (first: {:02x?}; the reader's own buffer was filled with a5)", v.len(), &v[..v.len().min(8)])),
    }
}

pub fn case_strategy() -> impl Strategy<Value = Case> {
    (
        prop_oneof![Just(Style::VirtualMem), Just(Style::File), Just(Style::Ptrace), Just(Style::Auto), Just(Style::CopyFromProcess)],
        any::<bool>(),
        prop_oneof![
            4 => (any::<u32>(), prop_oneof![0u32..64, any::<u32>()]).prop_map(|(start, len)| Range::Inside { start, len }),
            4 => (0u8..9, prop_oneof![0u32..64, any::<u32>()]).prop_map(|(back, len)| Range::EndingAt { back, len }),
            2 => (any::<u16>(), any::<u32>()).prop_map(|(over, len)| Range::Crossing { over, len }),
            2 => (any::<u8>(), any::<u8>()).prop_map(|(start, len)| Range::AtStart { start, len }),
            2 => (any::<u32>(), any::<u32>()).prop_map(|(start, len)| Range::Big { start, len }),
        ],
        any::<bool>(),
        proptest::bool::weighted(0.3),
    )
        .prop_map(|(style, ro, range, to_vec, other_target_first)| Case { style, ro, range, to_vec, other_target_first })
}

pub fn run(ctx: &mut LaneCtx) {
    ctx.assume("the helper process is ptrace-stopped for the whole run; 'unreadable' = not mapped; a PROT_NONE page is readable to a debugger through /proc/pid/mem and PTRACE_PEEKDATA, so for it only 'no fabricated bytes' (true content) is required");
    ctx.run_sub(
        SubSpec {
            name: "strategies",
            cases: (40_000, 3_000_000),
            rule: "(strategy in {process_vm_readv, /proc/pid/mem, PTRACE_PEEKDATA, auto-probe, copy_from_process}) x view {rw followed by PROT_NONE page, read-only followed by unmapped memory} x range {anywhere inside, starting within 16 bytes of the low edge (nothing mapped below), ending 0..8 bytes before the end, crossing the end, or anywhere in a 40-page view so that 17 and more pages are touched} x length 1..64 KiB at all alignments, via read() and read_to_vec(); in three cases of ten the same thread first reads 8 bytes of ANOTHER live process through the same entry point (a dumper with more than one target), which must be that process's bytes; oracle = address-derived pattern; non-trivial = length not a multiple of 8, or range within 8 bytes of / across the mapping end; distinct = hash of case",
            strategy: case_strategy().boxed(),
            max_shrink_iters: 2048,
            log_current: true,
        },
        check,
    );
    ctx.run_sub(
        SubSpec {
            name: "reader-history",
            cases: (12_000, 600_000),
            rule: "ONE reader (each strategy, auto-probe) used for 1..6 reads of fully readable ranges (lengths 1..64 KiB, anywhere or within 8 KiB of the previous read) while the harness rewrites windows of the target's memory between the reads (also exactly where the previous read was; new content = old xor a byte, all 0xFF, all zero, or words equal to small negative numbers); oracle = every read returns the bytes the target holds at that moment; non-trivial = memory rewritten before a later read; distinct = hash of case",
            strategy: (
                prop_oneof![Just(Style::VirtualMem), Just(Style::File), Just(Style::Ptrace), Just(Style::Auto)],
                any::<bool>(),
                proptest::collection::vec(
                    (proptest::option::weighted(0.6, (any::<u32>(), any::<u16>(), any::<u8>())), any::<u32>(), prop_oneof![0u32..64, 0u32..5000, any::<u32>()], any::<bool>(), proptest::bool::weighted(0.6), prop_oneof![3 => Just(0u8), 1 => 1u8..4])
                        .prop_map(|(poke, start, len, to_vec, near_previous, fill)| HStep { poke, start, len, to_vec, near_previous, fill }),
                    1..7,
                ),
            )
                .prop_map(|(style, ro, steps)| HCase { style, ro, steps })
                .boxed(),
            max_shrink_iters: 1024,
            log_current: true,
        },
        check_history,
    );
    ctx.run_sub(
        SubSpec {
            name: "reader-outlives-target",
            cases: (320, 8_000),
            rule: "a reader (vectored read, /proc/pid/mem, auto-probe) is created on a live helper process, used for 0..2 reads of 1..4096 readable bytes (which must be exact), then the helper is killed and reaped and the same reader is used once more through read() or read_to_vec(); oracle = that read fails or returns nothing - it never reports bytes; every case non-trivial; distinct = hash of case",
            strategy: (prop_oneof![Just(Style::VirtualMem), Just(Style::File), Just(Style::Auto)], any::<u16>(), any::<bool>(), 0u8..3).prop_map(|(style, len, to_vec, reads_before)| DeadCase { style, len, to_vec, reads_before }).boxed(),
            max_shrink_iters: 64,
            log_current: true,
        },
        check_dead,
    );
}

pub fn replay(sub: &str, case: &Value) -> Verdict {
    match sub {
        "reader-outlives-target" => replay_case::<DeadCase>(case, check_dead),
        "strategies" => replay_case::<Case>(case, check),
        "reader-history" => replay_case::<HCase>(case, check_history),
        _ => Verdict::Inconclusive(format!("unknown sub {sub}")),
    }
}
