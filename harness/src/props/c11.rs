//! C11 – best-effort steps fail softly and every failure is reported.
//!
//! All 32 subsets of the five injectable fail points x generated targets, plus
//! naturally induced failures (non-UTF-8 thread names, null-SP helper threads,
//! threads exiting between enumeration and attach, garbage direct auxv).

use crate::fw::*;
use crate::props::c01::{pick, true_auxv, NameG};
use crate::vcore::dest::Dest;
use crate::vcore::md;
use crate::vcore::target::*;
use crate::vcore::world::*;
use proptest::prelude::*;
use serde::{Deserialize, Serialize};
use serde_json::Value;
use std::collections::BTreeMap;

pub const LEVEL: &str = "fault_enumeration";

#[derive(Debug, Clone, PartialEq, Eq, Hash, Serialize, Deserialize)]
pub enum AuxvPlan {
    /// no direct auxv: the kernel's is used
    Kernel,
    /// complete true values supplied directly (FillMissingAuxvInfo is then never reached)
    TrueDirect,
    /// program header address points to unmapped memory
    BadPhdr,
    /// huge program header count
    HugePhnum,
    /// caller-supplied program headers lead to an intact linker list in which one object's name is not
    /// valid UTF-8 (a library loaded through such a path)
    NonUtf8LibraryName,
}

#[derive(Debug, Clone, PartialEq, Eq, Hash, Serialize, Deserialize)]
pub struct Case {
    pub failmask: u8,
    /// (kind, name)
    pub threads: Vec<(u8, NameG)>,
    pub cue_exiters: bool,
    pub auxv: AuxvPlan,
    /// threads (bit i = i-th thread of the target, bit 0 = main) that another tracer - the harness - holds
    /// while the dump is taken, so that attaching to them fails; 0xffff = all of them
    #[serde(default)]
    pub seized: u16,
    /// a size limit is configured (1 = always exceeded, 2 = generous)
    #[serde(default)]
    pub limit: u8,
    /// the thread-group leader has exited on its own (zombie leader, the other threads live on) and a
    /// live thread is blamed: stopping the process times out, the leader cannot be attached, and the
    /// kernel's auxiliary vector cannot be opened.  Only with the kernel's auxv and at least one
    /// parked or sleeping thread.
    #[serde(default)]
    pub leader_exit: bool,
    /// name of the target's main thread (the comm field the kernel prints verbatim, blanks and
    /// parentheses included, in /proc/<pid>/stat): 0 = the program's own
    #[serde(default)]
    pub main_name: u8,
}

const MAIN_NAMES: [&[u8]; 7] = [b"", b"web content", b"a T b", b"T", b"x) T (y", b"tab\tname", b"Isolated Web Co"];

/// Flattens the soft-error JSON into a multiset of path tags.
pub fn flatten(v: &Value, prefix: &str, out: &mut BTreeMap<String, u32>) {
    match v {
        Value::Array(a) => {
            for x in a {
                flatten(x, prefix, out);
            }
        }
        Value::Object(o) => {
            for (k, x) in o {
                let p = if prefix.is_empty() { k.clone() } else { format!("{prefix}/{k}") };
                match k.as_str() {
                    // leaves with identifying payload
                    "PtraceAttachError" | "DetachSkippedThread" | "WaitPidError" | "PtraceDetachError" => {
                        let tid = match x {
                            Value::Array(a) => a.first().and_then(|t| t.as_i64()),
                            Value::Number(n) => n.as_i64(),
                            _ => None,
                        };
                        *out.entry(format!("{p}:{}", tid.unwrap_or(-1))).or_default() += 1;
                    }
                    "StopProcessFailed" => {
                        let kind = match x {
                            Value::String(s) => s.clone(),
                            Value::Object(o) => o.keys().next().cloned().unwrap_or_default(),
                            _ => String::new(),
                        };
                        *out.entry(format!("{p}:{kind}")).or_default() += 1;
                    }
                    "InitErrors" | "SuspendThreadsErrors" | "ResumeThreadsErrors" | "WriteSystemInfoErrors" | "EnumerateThreadsErrors" | "FillMissingAuxvInfoErrors" => {
                        flatten(x, &p, out);
                    }
                    _ => {
                        *out.entry(p).or_default() += 1;
                    }
                }
            }
        }
        Value::String(s) => {
            let p = if prefix.is_empty() { s.clone() } else { format!("{prefix}/{s}") };
            *out.entry(p).or_default() += 1;
        }
        _ => {
            *out.entry(format!("{prefix}/?")).or_default() += 1;
        }
    }
}

pub fn soft_errors_of(img: &[u8], d: &md::Decoded) -> Result<Value, String> {
    let loc = d.raw.get(&md::ST_MOZ_SOFT_ERRORS).ok_or("soft-error stream absent")?;
    let bytes = &img[loc.rva as usize..(loc.rva + loc.size) as usize];
    let s = std::str::from_utf8(bytes).map_err(|_| "soft-error stream is not UTF-8".to_string())?;
    let v: Value = serde_json::from_str(s).map_err(|e| format!("soft-error stream is not JSON: {e}"))?;
    if !v.is_array() {
        return Err("soft-error JSON is not a list".into());
    }
    Ok(v)
}

fn raw_bytes<'a>(img: &'a [u8], d: &md::Decoded, ty: u32) -> Option<&'a [u8]> {
    d.raw.get(&ty).map(|l| &img[l.rva as usize..(l.rva + l.size) as usize])
}

pub fn check(c: &Case) -> Verdict {
    init_scratch();
    let scratch = Target::new_scratch();
    let mut b = Builder::new();
    let mut ids = vec![];
    for (i, (kind, name)) in c.threads.iter().enumerate() {
        let st = b.add_stack(2, true, i as u64 + 1);
        let id = b.add_thread(*kind, name.bytes(), st.base + 0x800, 77 + i as u64);
        ids.push((id, *kind));
    }
    let mut synth: Option<(u64, u64)> = None;
    if c.auxv == AuxvPlan::NonUtf8LibraryName {
        use crate::vcore::arena::*;
        use crate::vcore::dso::*;
        let dc = DsoCase {
            phnum: Phnum::True,
            phdr_at: Place::Normal,
            extra_phdrs: 1,
            has_load: true,
            load_vaddr: LoadVaddr::Zero,
            has_dynamic: true,
            dyn_at: Place::Normal,
            extra_dyns: vec![(1, 1)],
            has_debug: true,
            dyn_null: true,
            rdebug_at: Place::Normal,
            r_version: 1,
            r_brk: 0x1234,
            r_state: 0,
            r_ldbase: 0x5000,
            chain: vec![
                Link { l_addr: 0x10000, l_ld: 0x10100, name: LName::Utf8("/lib/libfine.so".into()) },
                Link { l_addr: 0x20000, l_ld: 0x20100, name: LName::NonUtf8(vec![b'/', b'l', 0xff, 0xfe, b'.', b's', b'o']) },
                Link { l_addr: 0x30000, l_ld: 0x30100, name: LName::Utf8("/lib/libafter.so".into()) },
            ],
            chain_end: ChainEnd::Null,
            fill: 0,
        };
        let mut buf = BufArena(vec![0u8; ARENA_SIZE as usize]);
        let (phnum, phdr, _) = lay_out(&dc, &mut buf);
        b.add_content_at(ARENA, ARENA_PAGES, 3, buf.0);
        b.add_anon_at(ARENA + ARENA_SIZE, 1, 0, 0);
        synth = Some((phnum, phdr));
    }
    if c.main_name as usize % MAIN_NAMES.len() != 0 {
        b.spec.main_name = Some(MAIN_NAMES[c.main_name as usize % MAIN_NAMES.len()].to_vec());
    }
    let survivor = ids.iter().find(|(_, k)| *k == K_PARKED).or_else(|| ids.iter().find(|(_, k)| *k == K_SLEEPER)).map(|(id, _)| *id);
    let leader_exit = c.leader_exit && c.auxv == AuxvPlan::Kernel && survivor.is_some();
    b.spec.leader_exit = leader_exit;
    let t = match Target::spawn(&b.spec, scratch) {
        Ok(t) => t,
        Err(e) => return Verdict::Inconclusive(format!("target setup: {}", e.split(':').next().unwrap_or(""))),
    };
    if !t.wait_settled(&b.spec) {
        return Verdict::Inconclusive("target did not settle".into());
    }
    let pid = t.pid;
    let blamed = if leader_exit { t.tid(survivor.unwrap()) } else { pid };
    let auxv = match c.auxv {
        AuxvPlan::NonUtf8LibraryName => {
            let a = true_auxv(pid);
            let (phnum, phdr) = synth.unwrap();
            Some([phnum, phdr, a[2], a[3]])
        }
        AuxvPlan::Kernel => None,
        AuxvPlan::TrueDirect => Some(true_auxv(pid)),
        AuxvPlan::BadPhdr => {
            let mut a = true_auxv(pid);
            a[1] = 0x3000_0000_0000;
            Some(a)
        }
        AuxvPlan::HugePhnum => {
            let mut a = true_auxv(pid);
            a[0] = 100_000;
            Some(a)
        }
    };
    let opts = DumpOpts { blamed, direct_auxv: auxv, size_limit: match c.limit % 3 { 1 => Some(1), 2 => Some(1 << 30), _ => None }, stop_timeout_ms: if leader_exit { Some(30) } else { None }, ..Default::default() };
    // ground truth about names before any dump
    let all_tids: Vec<(i32, u8)> = std::iter::once((pid, K_SLEEPER)).chain(ids.iter().map(|(id, k)| (t.tid(*id), *k))).collect();
    let comms: BTreeMap<i32, Vec<u8>> = all_tids.iter().filter_map(|(tid, _)| comm_of(pid, *tid).map(|c| (*tid, c))).collect();

    // was the process in the stopped state when the stop step had finished?  (observed at the hook
    // that fires right after it)
    let stopped_seen = std::sync::Arc::new(std::sync::atomic::AtomicU8::new(0));
    let state_of = move |pid: i32| -> u8 {
        std::fs::read_to_string(format!("/proc/{pid}/status")).ok().and_then(|s| s.lines().find_map(|l| l.strip_prefix("State:").map(|r| r.trim().bytes().next().unwrap_or(b'?')))).unwrap_or(b'?')
    };
    let ss0 = stopped_seen.clone();
    let hook0 = Box::new(move |p: minidump_writer::verif_hooks::Point| {
        if p == minidump_writer::verif_hooks::Point::ThreadsEnumerated {
            ss0.store(state_of(pid), std::sync::atomic::Ordering::SeqCst);
        }
    });
    // reference dump (no injected failure, no thread exit)
    let mut w0 = make_writer(pid, &opts);
    let mut d0 = Dest::new(vec![], 0);
    let ref_img = match with_hook(hook0, || run_dump(&mut w0, &mut d0)) {
        DumpOutcome::Ok(v) => v,
        DumpOutcome::Err(e) => {
            return Verdict::viol(
                format!("C11:dump-failed:{}", e.split('(').take(3).collect::<Vec<_>>().join("(")),
                format!("dump without injected failure returned {e} (threads {:?})", c.threads),
            )
        }
        DumpOutcome::Panic(loc, msg) => return panic_verdict(&loc, &msg),
    };
    let ref_d = md::decode(&ref_img);
    if !t.wait_settled(&b.spec) {
        return Verdict::Inconclusive("target did not settle between the two dumps".into());
    }

    // faulted dump
    let exiters: Vec<(i32, i32)> = if c.cue_exiters && (c.failmask & FS_STOP != 0) {
        ids.iter().filter(|(_, k)| *k == K_EXITER).map(|(id, _)| (t.tid(*id), t.pipes[id].1)).collect()
    } else {
        vec![]
    };
    let ex2 = exiters.clone();
    let stopped_seen2 = std::sync::Arc::new(std::sync::atomic::AtomicU8::new(0));
    let ss2 = stopped_seen2.clone();
    let hook = Box::new(move |p: minidump_writer::verif_hooks::Point| {
        if p == minidump_writer::verif_hooks::Point::ThreadsEnumerated {
            ss2.store(state_of(pid), std::sync::atomic::Ordering::SeqCst);
            for (tid, wfd) in &ex2 {
                cue_and_wait(pid, *tid, *wfd);
            }
        }
    });
    // threads held by a foreign tracer (PTRACE_SEIZE does not stop them): attach must fail softly
    let mut seized: Vec<i32> = vec![];
    for (i, (tid, _)) in all_tids.iter().enumerate() {
        if (c.seized == 0xffff || (i < 16 && c.seized & (1 << i) != 0)) && !exiters.iter().any(|(t, _)| t == tid) {
            let r = unsafe { libc::ptrace(libc::PTRACE_SEIZE, *tid, 0, 0) };
            if r == 0 {
                seized.push(*tid);
            }
        }
    }
    if leader_exit && !seized.contains(&pid) {
        // the zombie leader cannot be attached by anyone
        seized.push(pid);
    }
    let mut w = make_writer(pid, &opts);
    let mut dest = Dest::new(vec![], 0);
    let out = with_failspots(c.failmask, || with_hook(hook, || run_dump(&mut w, &mut dest)));
    let img = match out {
        DumpOutcome::Ok(v) => v,
        DumpOutcome::Err(e) => {
            return Verdict::viol(
                format!("C11:dump-failed:{}", e.split('(').take(3).collect::<Vec<_>>().join("(")),
                format!("dump with fail points {:#x} returned {e}", c.failmask),
            )
        }
        DumpOutcome::Panic(loc, msg) => return panic_verdict(&loc, &msg),
    };
    let d = md::decode(&img);
    let probs = md::structural_problems(&d, Some(18));
    if let Some(p) = probs.first() {
        return Verdict::viol(format!("C11:structure:{}", p.sig), p.detail.clone());
    }
    let se = match soft_errors_of(&img, &d) {
        Ok(v) => v,
        Err(e) => return Verdict::viol("C11:soft-error-stream-malformed", e),
    };
    let mut got = BTreeMap::new();
    flatten(&se, "", &mut got);
    if got.contains_key("InitErrors/StopProcessFailed:Timeout") && stopped_seen2.load(std::sync::atomic::Ordering::SeqCst) == b'T' && !leader_exit {
        return Verdict::viol("C11:spurious-soft-error:InitErrors/StopProcessFailed", format!("StopProcessFailed(Timeout) is reported (fail points {:#x}) although the process (main thread named {:?}) was in the stopped state when the stop step had finished", c.failmask, String::from_utf8_lossy(MAIN_NAMES[c.main_name as usize % MAIN_NAMES.len()])));
    }
    // reference dump must be clean except for the natural failures
    let ref_se = match soft_errors_of(&ref_img, &ref_d) {
        Ok(v) => v,
        Err(e) => return Verdict::viol("C11:soft-error-stream-malformed", e),
    };
    let mut ref_got = BTreeMap::new();
    flatten(&ref_se, "", &mut ref_got);

    // expected model
    let mut want: BTreeMap<String, u32> = BTreeMap::new();
    let mut optional: Vec<String> = vec!["InitErrors/StopProcessFailed:Timeout".into()];
    let n_threads = all_tids.len() as u32;
    let bad_names = comms.values().filter(|c| std::str::from_utf8(c).is_err()).count() as u32;
    let mut natural = want.clone();
    if bad_names > 0 {
        natural.insert("InitErrors/EnumerateThreadsErrors/ReadThreadNameFailed".into(), bad_names);
    }
    for (tid, k) in &all_tids {
        if *k == K_NULLSP {
            natural.insert(format!("SuspendThreadsErrors/DetachSkippedThread:{tid}"), 1);
        }
    }
    match c.auxv {
        AuxvPlan::BadPhdr | AuxvPlan::HugePhnum | AuxvPlan::NonUtf8LibraryName => {
            natural.insert("WriteDSODebugStreamFailed".into(), 1);
        }
        _ => {}
    }
    if leader_exit {
        natural.insert("InitErrors/StopProcessFailed:Timeout".into(), 1);
        natural.insert("InitErrors/FillMissingAuxvInfoFailed".into(), 1);
        natural.insert(format!("SuspendThreadsErrors/PtraceAttachError:{pid}"), 1);
        natural.insert("WriteDSODebugStreamFailed".into(), 1);
    }
    if ref_got.contains_key("InitErrors/StopProcessFailed:Timeout") && stopped_seen.load(std::sync::atomic::Ordering::SeqCst) == b'T' && !leader_exit {
        return Verdict::viol("C11:spurious-soft-error:InitErrors/StopProcessFailed", format!("StopProcessFailed(Timeout) is reported although the process (main thread named {:?}) was in the stopped state when the stop step had finished", String::from_utf8_lossy(MAIN_NAMES[c.main_name as usize % MAIN_NAMES.len()])));
    }
    // (a timeout that really happened - process not stopped after the full timeout - is environmental)
    if !leader_exit {
        ref_got.remove("InitErrors/StopProcessFailed:Timeout");
    }
    if ref_got != natural {
        let sig = if ref_got.len() > natural.len() { "C11:spurious-soft-error" } else { "C11:failure-not-reported" };
        return Verdict::viol(sig, format!("no fail point enabled: reported {ref_got:?}, expected {natural:?}"));
    }
    want.extend(natural.clone());
    if c.failmask & FS_STOP != 0 {
        want.insert("InitErrors/StopProcessFailed:Stop".into(), 1);
        // the injected failure replaces the attempt
        want.remove("InitErrors/StopProcessFailed:Timeout");
    }
    if c.failmask & FS_AUXV != 0 && c.auxv != AuxvPlan::TrueDirect {
        // BadPhdr/HugePhnum supply all four values too => complete => not reached;
        // a file that cannot be opened at all fails before the fail point
        if c.auxv == AuxvPlan::Kernel && !leader_exit {
            want.insert("InitErrors/FillMissingAuxvInfoErrors/InvalidFormat".into(), 1);
        }
    }
    if c.failmask & FS_THREAD_NAME != 0 {
        want.insert("InitErrors/EnumerateThreadsErrors/ReadThreadNameFailed".into(), n_threads);
    }
    if c.failmask & FS_SUSPEND != 0 {
        // (+= : a real thread of the target may happen to have the fail point's fake id 1234)
        *want.entry("SuspendThreadsErrors/PtraceAttachError:1234".into()).or_default() += 1;
    }
    if c.failmask & FS_CPUINFO != 0 {
        want.insert("WriteSystemInfoErrors/WriteCpuInformationFailed".into(), 1);
    }
    for (tid, _) in &exiters {
        // vanished thread: attach failure must be reported (which errno is the kernel's business)
        *want.entry(format!("SuspendThreadsErrors/PtraceAttachError:{tid}")).or_default() += 1;
        optional.push(format!("SuspendThreadsErrors/WaitPidError:{tid}"));
    }
    for tid in &seized {
        if leader_exit && *tid == pid {
            continue; // already part of the natural failures
        }
        *want.entry(format!("SuspendThreadsErrors/PtraceAttachError:{tid}")).or_default() += 1;
        // a null-SP helper that cannot even be attached is not "skipped"
        want.remove(&format!("SuspendThreadsErrors/DetachSkippedThread:{tid}"));
    }
    {
        // the step "suspend threads" leaves nothing when every thread is skipped, vanished or held by someone else
        let left = all_tids.iter().filter(|(tid, k)| *k != K_NULLSP && !seized.contains(tid) && !exiters.iter().any(|(t, _)| t == tid)).count();
        if left == 0 {
            want.insert("SuspendNoThreadsLeft".into(), 1);
        }
    }
    for (k, n) in &want {
        let g = got.get(k).copied().unwrap_or(0);
        if g < *n {
            // an exiter may also fail in waitpid instead of attach
            if k.starts_with("SuspendThreadsErrors/PtraceAttachError:") && got.contains_key(&k.replace("PtraceAttachError", "WaitPidError")) {
                continue;
            }
            let step = k.split('/').take(2).collect::<Vec<_>>().join("/").split(':').next().unwrap_or("").to_string();
            return Verdict::viol(format!("C11:failure-not-reported:{step}"), format!("expected {k} x{n}, reported {got:?} (fail points {:#x})", c.failmask));
        }
    }
    for (k, n) in &got {
        let w_ = want.get(k).copied().unwrap_or(0);
        if *n > w_ && !optional.contains(k) {
            let step = k.split(':').next().unwrap_or("").to_string();
            return Verdict::viol(format!("C11:spurious-soft-error:{step}"), format!("reported {k} x{n}, expected x{w_}; all reported {got:?}"));
        }
    }
    if want.is_empty() && se.as_array().map(|a| !a.is_empty()).unwrap_or(true) {
        return Verdict::viol("C11:not-empty-list", format!("{se}"));
    }

    // all other streams intact: compare with the reference dump
    macro_rules! bad {
        ($sig:expr, $($arg:tt)*) => { return Verdict::viol(format!("C11:{}", $sig), format!($($arg)*)) };
    }
    for e in &ref_d.dirs {
        if e.stream_type == 0 {
            continue;
        }
        if !d.dirs.iter().any(|x| x.stream_type == e.stream_type) {
            bad!("stream-lost", "stream {:#x} present without failures but missing with fail points {:#x}", e.stream_type, c.failmask);
        }
    }
    for ty in [md::ST_LINUX_CMD_LINE, md::ST_LINUX_ENVIRON, md::ST_LINUX_AUXV, md::ST_LINUX_LSB_RELEASE, md::ST_MOZ_LINUX_LIMITS] {
        if raw_bytes(&img, &d, ty) != raw_bytes(&ref_img, &ref_d, ty) {
            bad!("stream-differs", "raw stream {ty:#x} differs from the fault-free dump");
        }
    }
    let mods = |x: &md::Decoded| x.modules.as_ref().map(|m| m.iter().map(|m| (m.base, m.size, m.name.clone(), m.cv_bytes.clone())).collect::<Vec<_>>());
    if mods(&d) != mods(&ref_d) {
        bad!("stream-differs", "module list differs from the fault-free dump");
    }
    let hs = |x: &md::Decoded| x.handles.as_ref().map(|h| h.iter().map(|h| (h.handle, h.object_name.clone(), h.attributes)).collect::<Vec<_>>());
    if hs(&d) != hs(&ref_d) {
        bad!("stream-differs", "handle list differs from the fault-free dump");
    }
    let mi = |x: &md::Decoded| x.meminfo.as_ref().map(|m| m.iter().map(|m| (m.base, m.region_size, m.protection, m.ty)).collect::<Vec<_>>());
    if exiters.is_empty() && mi(&d) != mi(&ref_d) {
        bad!("stream-differs", "memory info list differs from the fault-free dump");
    }
    if c.failmask & FS_CPUINFO == 0 {
        let si = |x: &md::Decoded| x.sysinfo.as_ref().map(|s| (s.arch, s.level, s.revision, s.nproc, s.platform_id, s.csd.clone(), s.cpu));
        if si(&d) != si(&ref_d) {
            bad!("stream-differs", "system info differs from the fault-free dump");
        }
    } else {
        // what does not come from /proc/cpuinfo must survive the failure of that step
        let si = |x: &md::Decoded| x.sysinfo.as_ref().map(|s| (s.arch, s.platform_id, s.csd.clone()));
        if si(&d) != si(&ref_d) {
            bad!("stream-differs", "system info fields that do not depend on the CPU information step (architecture, platform, OS version) differ from the fault-free dump: {:?} vs {:?}", si(&d), si(&ref_d));
        }
    }
    // everything else the two dumps record must be equal (normal form), apart from what the failed
    // steps own and what is volatile in this target
    let gone: Vec<i32> = exiters.iter().map(|(t, _)| *t).collect();
    let omitted: Vec<i32> = gone.iter().chain(seized.iter()).copied().collect();
    {
        use crate::vcore::normal::*;
        let (mut na, mut nb) = (normal_form(&ref_img, &ref_d), normal_form(&img, &d));
        for n in [&mut na, &mut nb] {
            n.soft_errors.clear();
            n.thread_names.clear(); // judged separately below
            if c.failmask & FS_CPUINFO != 0 {
                n.sysinfo = None;
            }
            if !gone.is_empty() {
                n.meminfo.clear();
                n.raw.remove(&md::ST_LINUX_MAPS);
            }
            // only parked threads are bit-stable between two dumps: drop the others' volatile parts
            let stable: Vec<u32> = all_tids.iter().filter(|(t, k)| *k == K_PARKED && !seized.contains(t)).map(|(t, _)| *t as u32).collect();
            if seized.contains(&blamed) || (blamed != pid && !stable.contains(&(blamed as u32))) {
                // the blamed thread is not part of this dump, or it is a sleeper whose registers change between two dumps: its exception context is not comparable
                n.exception = None;
            }
            let vol: Vec<(u64, usize)> = n.threads.iter().filter(|(tid, _)| !stable.contains(tid)).map(|(_, (s, b, _))| (*s, b.len())).collect();
            n.memory.retain(|(s, b)| !vol.contains(&(*s, b.len())));
            n.threads.retain(|tid, _| stable.contains(tid));
        }
        if let Some((what, detail)) = first_difference(&na, &nb) {
            bad!("stream-differs", "with fail points {:#x} the dump differs from the fault-free dump of the same target in {what}: {detail}", c.failmask);
        }
    }
    let mut want_tids: Vec<u32> = all_tids.iter().filter(|(tid, k)| *k != K_NULLSP && !omitted.contains(tid)).map(|(t, _)| *t as u32).collect();
    want_tids.sort();
    let mut got_tids: Vec<u32> = d.threads.as_ref().map(|t| t.iter().map(|t| t.tid).collect()).unwrap_or_default();
    got_tids.sort();
    if got_tids != want_tids {
        bad!("thread-list", "thread ids {got_tids:?}, expected {want_tids:?}");
    }
    // thread names: none with the ThreadName fail point, else per comm
    let mut want_names: Vec<(u32, String)> = vec![];
    if c.failmask & FS_THREAD_NAME == 0 {
        for (tid, _) in all_tids.iter().filter(|(tid, k)| *k != K_NULLSP && !omitted.contains(tid)) {
            if let Some(n) = comms.get(tid).and_then(|c| expected_name(c)) {
                want_names.push((*tid as u32, n));
            }
        }
    }
    want_names.sort();
    let mut got_names: Vec<(u32, String)> = d.thread_names.as_ref().map(|v| v.iter().map(|(t, _, n)| (*t, n.clone().unwrap_or_default())).collect()).unwrap_or_default();
    got_names.sort();
    if got_names != want_names {
        bad!("thread-names", "thread names {got_names:?}, expected {want_names:?}");
    }
    let mut classes = vec![format!("failmask:{:02x}", c.failmask)];
    if bad_names > 0 {
        classes.push("natural:non-utf8-name".into());
    }
    if all_tids.iter().any(|(_, k)| *k == K_NULLSP) {
        classes.push("natural:null-sp-thread".into());
    }
    if !exiters.is_empty() {
        classes.push("natural:thread-exit-before-attach".into());
    }
    if leader_exit {
        classes.push("natural:zombie-leader(stop-timeout,auxv-unopenable,leader-unattachable)".into());
    }
    if !seized.is_empty() {
        classes.push(if want.contains_key("SuspendNoThreadsLeft") { "natural:no-thread-attachable" } else { "natural:thread-held-by-foreign-tracer" }.into());
    }
    if matches!(c.auxv, AuxvPlan::BadPhdr | AuxvPlan::HugePhnum | AuxvPlan::NonUtf8LibraryName) {
        classes.push("natural:bad-linker-data".into());
    }
    let suite_tested = c.failmask == FS_STOP || c.failmask == 31;
    let nt = (c.failmask != 0 && !suite_tested) || classes.len() > 1;
    Verdict::pass_c(if nt { Some(fp_json(c)) } else { None }, classes)
}

// ---------------------------------------------------------------------------
// unopenable files: "copying any /proc or release file", "reading CPU information",
// "reading a thread name" fail because open() is refused (fault injection at the open call)
// ---------------------------------------------------------------------------

#[derive(Debug, Clone, PartialEq, Eq, Hash, Serialize, Deserialize)]
pub struct DenyCase {
    /// bit i: file i cannot be opened by the dumper (see vcore::faultfs: cpuinfo, the copy of
    /// /proc/<blamed>/status, lsb-release + os-release, cmdline, environ, auxv, limits, comm)
    pub deny: u8,
    pub parked: u8,
    pub blamed_other: bool,
    /// additionally one of the injectable fail points (0 = none)
    pub failspot: u8,
}

pub fn check_denied(c: &DenyCase) -> Verdict {
    use crate::vcore::faultfs::*;
    init_scratch();
    let scratch = Target::new_scratch();
    let mut b = Builder::new();
    let mut ids = vec![];
    for i in 0..(c.parked % 4) {
        let st = b.add_stack(2, true, 31 + i as u64);
        ids.push(b.add_thread(K_PARKED, Some(format!("deny{i}").into_bytes()), st.base + 0x900, 300 + i as u64));
    }
    let t = match Target::spawn(&b.spec, scratch) {
        Ok(t) => t,
        Err(e) => return Verdict::Inconclusive(format!("target setup: {}", e.split(':').next().unwrap_or(""))),
    };
    if !t.wait_settled(&b.spec) {
        return Verdict::Inconclusive("target did not settle".into());
    }
    let pid = t.pid;
    let tids: Vec<i32> = std::iter::once(pid).chain(ids.iter().map(|i| t.tid(*i))).collect();
    let blamed = if c.blamed_other && tids.len() > 1 { tids[1] } else { pid };
    // the auxiliary vector is handed in complete, so that an unopenable auxv file only concerns its copy
    let opts = DumpOpts { blamed, direct_auxv: Some(true_auxv(pid)), ..Default::default() };
    macro_rules! bad {
        ($sig:expr, $($arg:tt)*) => { return Verdict::viol(format!("C11:denied:{}", $sig), format!($($arg)*)) };
    }
    let dump = |deny: u32, spot: u8| -> Result<(Vec<u8>, u32), Verdict> {
        let mut w = make_writer(pid, &opts);
        let mut dest = Dest::new(vec![], 0);
        let (out, refused) = with_denied_files(deny, if spot & FS_CPUINFO != 0 { 1 } else { 2 }, || with_failspots(spot, || run_dump(&mut w, &mut dest)));
        match out {
            DumpOutcome::Ok(v) => Ok((v, refused)),
            DumpOutcome::Err(e) => Err(Verdict::viol(format!("C11:denied:dump-failed:{}", e.split('(').take(2).collect::<Vec<_>>().join("(")), format!("with unopenable files {deny:#x} (fail point {spot:#x}) the dump returned {e}"))),
            DumpOutcome::Panic(l, m) => Err(panic_verdict(&l, &m)),
        }
    };
    let (ref_img, _) = match dump(0, 0) {
        Ok(x) => x,
        Err(v) => return v,
    };
    if !t.wait_settled(&b.spec) {
        return Verdict::Inconclusive("target did not settle between the two dumps".into());
    }
    let spot = match c.failspot % 6 {
        0 => 0,
        k => 1u8 << (k - 1),
    } & !FS_AUXV; // (auxv info is complete: that fail point is not reached)
    let deny = c.deny as u32;
    let (img, refused) = match dump(deny, spot) {
        Ok(x) => x,
        Err(v) => return v,
    };
    let (ref_d, d) = (md::decode(&ref_img), md::decode(&img));
    if let Some(p) = md::structural_problems(&d, Some(18)).first() {
        bad!(format!("structure:{}", p.sig), "{}", p.detail);
    }
    let (ref_se, se) = match (soft_errors_of(&ref_img, &ref_d), soft_errors_of(&img, &d)) {
        (Ok(a), Ok(b)) => (a, b),
        (Err(e), _) | (_, Err(e)) => bad!("soft-error-stream-malformed", "{e}"),
    };
    let (mut natural, mut got) = (BTreeMap::new(), BTreeMap::new());
    flatten(&ref_se, "", &mut natural);
    flatten(&se, "", &mut got);
    got.remove("InitErrors/StopProcessFailed:Timeout");
    natural.remove("InitErrors/StopProcessFailed:Timeout");
    // expected: what fails without any injection (e.g. a machine without release files), plus one
    // entry per refused step
    let mut want = natural.clone();
    let n_threads = tids.len() as u32;
    let mut add = |k: &str, n: u32| *want.entry(k.to_string()).or_default() += n;
    let files: [(u32, u32, &str); 7] = [
        (F_CPUINFO, md::ST_LINUX_CPU_INFO, "WriteCpuInfoFailed"),
        (F_STATUS, md::ST_LINUX_PROC_STATUS, "WriteThreadProcStatusFailed"),
        (F_OS_RELEASE, md::ST_LINUX_LSB_RELEASE, "WriteOsReleaseInfoFailed"),
        (F_CMDLINE, md::ST_LINUX_CMD_LINE, "WriteCommandLineFailed"),
        (F_ENVIRON, md::ST_LINUX_ENVIRON, "WriteEnvironmentFailed"),
        (F_AUXV, md::ST_LINUX_AUXV, "WriteAuxvFailed"),
        (F_LIMITS, md::ST_MOZ_LINUX_LIMITS, "WriteLimitsFailed"),
    ];
    for (bit, ty, key) in files {
        let in_ref = ref_d.raw.contains_key(&ty);
        if deny & bit != 0 {
            if in_ref {
                add(key, 1);
            }
            if d.raw.contains_key(&ty) {
                bad!("stream-of-unopenable-file", "file {key} could not be opened but stream {ty:#x} is present");
            }
        } else {
            if in_ref != d.raw.contains_key(&ty) {
                bad!("stream-lost", "stream {ty:#x}: present without injection: {in_ref}, with unopenable files {deny:#x}: {}", !in_ref);
            }
            if ![md::ST_LINUX_CPU_INFO, md::ST_LINUX_PROC_STATUS].contains(&ty) && raw_bytes(&img, &d, ty) != raw_bytes(&ref_img, &ref_d, ty) {
                bad!("stream-differs", "raw stream {ty:#x} differs from the dump taken without injection");
            }
        }
    }
    let cpu_step_fails = deny & F_CPUINFO != 0 || spot & FS_CPUINFO != 0;
    if cpu_step_fails {
        add("WriteSystemInfoErrors/WriteCpuInformationFailed", 1);
    }
    let names_fail = deny & F_COMM != 0 || spot & FS_THREAD_NAME != 0;
    if names_fail {
        add("InitErrors/EnumerateThreadsErrors/ReadThreadNameFailed", n_threads);
    }
    if spot & FS_STOP != 0 {
        add("InitErrors/StopProcessFailed:Stop", 1);
    }
    if spot & FS_SUSPEND != 0 {
        add("SuspendThreadsErrors/PtraceAttachError:1234", 1);
    }
    if got != want {
        let missing: Vec<&String> = want.iter().filter(|(k, n)| got.get(*k).copied().unwrap_or(0) < **n).map(|(k, _)| k).collect();
        let sig = if missing.is_empty() { "spurious-soft-error".to_string() } else { format!("failure-not-reported:{}", missing[0].split('/').next().unwrap_or("")) };
        bad!(sig, "unopenable files {deny:#x} ({refused} opens refused), fail point {spot:#x}: reported {got:?}, expected {want:?}");
    }
    // everything else as in the dump without injection
    {
        use crate::vcore::normal::*;
        let (mut na, mut nb) = (normal_form(&ref_img, &ref_d), normal_form(&img, &d));
        for n in [&mut na, &mut nb] {
            n.soft_errors.clear();
            for (bit, ty, _) in files {
                if deny & bit != 0 {
                    n.raw.remove(&ty);
                }
            }
            if cpu_step_fails {
                // architecture, platform and OS version do not come from that step
                n.sysinfo = n.sysinfo.take().map(|s| (s.0, 0, 0, 0, s.4, s.5.clone(), [0; 24]));
            }
            if names_fail {
                n.thread_names.clear();
            }
            n.unused_entries = 0;
        }
        if names_fail && d.thread_names.as_ref().map(|v| !v.is_empty()).unwrap_or(false) {
            bad!("names-without-readable-comm", "no thread name could be read but the names stream has entries");
        }
        if let Some((what, detail)) = first_difference(&na, &nb) {
            bad!("stream-differs", "with unopenable files {deny:#x} the dump differs from the one taken without injection in {what}: {detail}");
        }
    }
    let mut classes: Vec<String> = files.iter().filter(|(bit, _, _)| deny & bit != 0).map(|(_, _, k)| format!("refused:{k}")).collect();
    if deny & F_COMM != 0 {
        classes.push("refused:comm".into());
    }
    if deny != 0 && refused == 0 {
        classes.push("nothing-refused".into());
    }
    Verdict::pass_c(if deny != 0 { Some(fp_json(c)) } else { None }, classes)
}

// ---------------------------------------------------------------------------
// absent auxiliary-vector values (the kernel's file, as the dumper sees it, lacks entries)
// ---------------------------------------------------------------------------

#[derive(Debug, Clone, PartialEq, Eq, Hash, Serialize, Deserialize)]
pub struct AbsentCase {
    /// bit 0 AT_PHNUM, bit 1 AT_PHDR, bit 2 AT_SYSINFO_EHDR, bit 3 AT_ENTRY absent from the file
    pub missing: u8,
    /// the file is empty / holds only the terminator
    pub empty: u8,
    pub parked: u8,
    /// caller-supplied values for these keys (same bits): what the caller supplies need not be in the file
    pub supplied: u8,
}

pub fn check_absent(c: &AbsentCase) -> Verdict {
    init_scratch();
    let scratch = Target::new_scratch();
    let mut b = Builder::new();
    for i in 0..(c.parked % 3) {
        let st = b.add_stack(2, true, 61 + i as u64);
        b.add_thread(K_PARKED, Some(format!("abs{i}").into_bytes()), st.base + 0x900, 350 + i as u64);
    }
    let file = scratch.join("auxv-content");
    let t = match Target::spawn(&b.spec, scratch) {
        Ok(t) => t,
        Err(e) => return Verdict::Inconclusive(format!("target setup: {}", e.split(':').next().unwrap_or(""))),
    };
    if !t.wait_settled(&b.spec) {
        return Verdict::Inconclusive("target did not settle".into());
    }
    let pid = t.pid;
    let truth = true_auxv(pid); // phnum, phdr, gate, entry
    let real = std::fs::read(format!("/proc/{pid}/auxv")).unwrap_or_default();
    let keys = [5u64, 3, 33, 9];
    let missing = if c.empty % 4 == 1 || c.empty % 4 == 2 { 15 } else { c.missing & 15 };
    let mut bytes: Vec<u8> = vec![];
    match c.empty % 4 {
        1 => {}
        2 => bytes.extend_from_slice(&[0u8; 16]),
        _ => {
            for pair in real.chunks_exact(16) {
                let k = u64::from_le_bytes(pair[..8].try_into().unwrap());
                if keys.iter().enumerate().any(|(i, kk)| *kk == k && missing & (1 << i) != 0) {
                    continue;
                }
                bytes.extend_from_slice(pair);
            }
        }
    }
    if std::fs::write(&file, &bytes).is_err() {
        return Verdict::Inconclusive("cannot write the auxv content".into());
    }
    let supplied = c.supplied & 15;
    let direct: Option<[u64; 4]> = if supplied == 0 { None } else { Some([0, 1, 2, 3].map(|i| if supplied & (1 << i) != 0 { truth[i] } else { 0 })) };
    // a value is known to the writer if the caller supplied it or the file holds it
    let known = |i: usize| supplied & (1 << i) != 0 || missing & (1 << i) == 0;
    let opts = DumpOpts { blamed: pid, direct_auxv: direct, ..Default::default() };
    let ref_opts = DumpOpts { blamed: pid, ..Default::default() };
    macro_rules! bad {
        ($sig:expr, $($arg:tt)*) => { return Verdict::viol(format!("C11:absent-auxv:{}", $sig), format!($($arg)*)) };
    }
    let mut w0 = make_writer(pid, &ref_opts);
    let mut d0 = Dest::new(vec![], 0);
    let ref_img = match run_dump(&mut w0, &mut d0) {
        DumpOutcome::Ok(v) => v,
        DumpOutcome::Err(e) => bad!("dump-failed", "reference dump returned {e}"),
        DumpOutcome::Panic(l, m) => return panic_verdict(&l, &m),
    };
    if !t.wait_settled(&b.spec) {
        return Verdict::Inconclusive("target did not settle between the two dumps".into());
    }
    let mut w = make_writer(pid, &opts);
    let mut dest = Dest::new(vec![], 0);
    let (out, opened) = crate::vcore::faultfs::with_redirected_path(b"/auxv", &file, || run_dump(&mut w, &mut dest));
    let img = match out {
        DumpOutcome::Ok(v) => v,
        DumpOutcome::Err(e) => bad!(format!("dump-failed:{}", e.split('(').take(2).collect::<Vec<_>>().join("(")), "auxv file without the values {missing:#x} (caller supplies {supplied:#x}): the dump returned {e}"),
        DumpOutcome::Panic(l, m) => return panic_verdict(&l, &m),
    };
    let (ref_d, d) = (md::decode(&ref_img), md::decode(&img));
    if let Some(p) = md::structural_problems(&d, Some(18)).first() {
        bad!(format!("structure:{}", p.sig), "{}", p.detail);
    }
    let (ref_se, se) = match (soft_errors_of(&ref_img, &ref_d), soft_errors_of(&img, &d)) {
        (Ok(a), Ok(b)) => (a, b),
        (Err(e), _) | (_, Err(e)) => bad!("soft-error-stream-malformed", "{e}"),
    };
    let (mut want, mut got) = (BTreeMap::new(), BTreeMap::new());
    flatten(&ref_se, "", &mut want);
    flatten(&se, "", &mut got);
    got.remove("InitErrors/StopProcessFailed:Timeout");
    want.remove("InitErrors/StopProcessFailed:Timeout");
    // the linker's list is reached through AT_PHDR / AT_PHNUM: without them that step fails - and says so
    let dso_fails = !known(0) || !known(1);
    if dso_fails {
        *want.entry("WriteDSODebugStreamFailed".to_string()).or_default() += 1;
    }
    // a file that ends without the terminating pair is malformed, and the step that reads it (only when
    // the caller has not supplied everything) says so
    if c.empty % 4 == 1 && supplied != 15 {
        *want.entry("InitErrors/FillMissingAuxvInfoErrors/InvalidFormat".to_string()).or_default() += 1;
    }
    if got != want {
        let sig = if want.iter().any(|(k, n)| got.get(k).copied().unwrap_or(0) < *n) { "failure-not-reported" } else { "spurious-soft-error" };
        bad!(sig, "auxv file without the values {missing:#x} (caller supplies {supplied:#x}; file opened {opened} times): reported {got:?}, expected {want:?}");
    }
    if dso_fails != d.dso.is_none() {
        bad!("dso-stream", "program headers known: {}; linker stream present: {}", !dso_fails, d.dso.is_some());
    }
    {
        use crate::vcore::normal::*;
        let (mut na, mut nb) = (normal_form(&ref_img, &ref_d), normal_form(&img, &d));
        for n in [&mut na, &mut nb] {
            n.soft_errors.clear();
            n.raw.remove(&md::ST_LINUX_AUXV);
            n.unused_entries = 0;
            if dso_fails {
                n.dso = None;
            }
            if !known(2) || !known(3) {
                // without the gate address the vDSO keeps its kernel name, without the entry address no
                // module is moved to the front: the module list is judged as a set of extents only
                let mut m: Vec<_> = n.modules.iter().map(|x| (x.0, x.1, None, x.3.clone(), x.4)).collect();
                m.sort();
                n.modules = m;
            }
        }
        if let Some((what, detail)) = first_difference(&na, &nb) {
            bad!("stream-differs", "auxv file without the values {missing:#x} (caller supplies {supplied:#x}): the dump differs from the ordinary one in {what}: {detail}");
        }
    }
    let mut classes = vec![format!("absent:{:04b}", missing & !supplied)];
    if dso_fails {
        classes.push("linker-stream-step-fails".into());
    }
    Verdict::pass_c(if missing != 0 { Some(fp_json(c)) } else { None }, classes)
}

fn thread_strategy() -> impl Strategy<Value = (u8, NameG)> {
    (
        prop_oneof![4 => Just(K_PARKED), 2 => Just(K_SLEEPER), 1 => Just(K_NULLSP), 2 => Just(K_EXITER)],
        crate::props::c01::name_strategy(),
    )
}

fn fix(mut c: Case) -> Case {
    let mut burners = 0;
    for t in c.threads.iter_mut() {
        if t.0 == K_NULLSP {
            burners += 1;
            if burners > 1 {
                t.0 = K_PARKED;
            }
        }
    }
    c
}

fn enum_cases() -> impl Iterator<Item = Case> {
    // all 32 subsets x 6 fixed scenario shapes
    let shapes: Vec<(Vec<(u8, NameG)>, bool, AuxvPlan)> = vec![
        (vec![], false, AuxvPlan::Kernel),
        (vec![(K_PARKED, NameG::Utf8("worker one".into())), (K_SLEEPER, NameG::Unset)], false, AuxvPlan::Kernel),
        (vec![(K_PARKED, NameG::Raw(vec![0xff, 0xfe, b'x'])), (K_PARKED, NameG::Utf8("ok".into())), (K_NULLSP, NameG::Utf8("sandbox".into()))], false, AuxvPlan::TrueDirect),
        (vec![(K_EXITER, NameG::Utf8("bye".into())), (K_PARKED, NameG::Utf8("stay \u{e9}".into())), (K_EXITER, NameG::Unset)], true, AuxvPlan::Kernel),
        (vec![(K_SLEEPER, NameG::Utf8("".into())), (K_PARKED, NameG::Utf8("a".into())), (K_PARKED, NameG::Raw(vec![0x80])), (K_PARKED, NameG::Utf8("b  ".into()))], false, AuxvPlan::BadPhdr),
        (vec![(K_PARKED, NameG::Utf8("t".into())); 7], false, AuxvPlan::HugePhnum),
    ];
    (0u8..32).flat_map(move |m| {
        shapes
            .clone()
            .into_iter()
            .map(move |(threads, cue, auxv)| Case { failmask: m, threads, cue_exiters: cue, auxv, seized: 0, limit: 0, leader_exit: false, main_name: m % 7 })
            .chain(std::iter::once(Case { failmask: m, threads: vec![(K_PARKED, NameG::Utf8("survivor".into())), (K_SLEEPER, NameG::Unset)], cue_exiters: false, auxv: AuxvPlan::Kernel, seized: 0, limit: 0, leader_exit: true, main_name: 0 }))
    })
}

pub fn run(ctx: &mut LaneCtx) {
    ctx.assume("expected-error model: Stop -> InitErrors/StopProcessFailed; FillMissingAuxvInfo -> InitErrors/FillMissingAuxvInfoErrors (only when the auxv info is not already complete); ThreadName -> one ReadThreadNameFailed per thread; SuspendThreads -> PtraceAttachError(1234); CpuInfoFileOpen -> WriteCpuInformationFailed; non-UTF-8 comm -> ReadThreadNameFailed; null-SP thread -> DetachSkippedThread(tid); vanished thread -> PtraceAttachError(tid) or WaitPidError(tid); unreadable linker data or a library name that is not UTF-8 -> WriteDSODebugStreamFailed; zombie leader -> StopProcessFailed(Timeout) + FillMissingAuxvInfoFailed + PtraceAttachError(pid) + WriteDSODebugStreamFailed; otherwise StopProcessFailed(Timeout) is environmental and tolerated only if the process was NOT in the stopped state when the stop step had finished (observed at the threads-enumerated hook); the main thread's name is the program's or one of six names with blanks, tabs and parentheses");
    ctx.assume("threads can only exit between enumeration and attach when the process was not stopped, so exiter schedules are exercised with the StopProcess fail point on; a target whose kernel auxv lacks entries cannot be manufactured (PR_SET_MM_AUXV is not permitted here): the sub-check absent-auxv-values redirects the dumper's open of /proc/<pid>/auxv to a file with the entries removed instead");
    ctx.run_enum(
        "failspot-subsets",
        "exhaustive: all 32 subsets of the five fail points x 7 fixed target shapes (incl. non-UTF-8 names, null-SP thread, exiting threads, bad direct auxv, a zombie thread-group leader); non-trivial = a subset other than the two the suite tests ({Stop}, all five) or any natural failure",
        enum_cases(),
        check,
    );
    ctx.run_sub(
        SubSpec {
            name: "generated",
            cases: (800, 20_000),
            rule: "generated targets (0..8 extra threads of kinds parked/sleeper/null-sp/exiter with unset/UTF-8/non-UTF-8 names) x fail-point subset x auxv plan x exiter cue x a subset of threads (possibly all, possibly the main thread) held by a foreign tracer so that attaching to them fails x size limit none / always exceeded / generous x (a fifth of the cases, with the kernel's auxv) a thread-group leader that has exited on its own, so that stopping times out, the leader cannot be attached and /proc/<pid>/auxv cannot be opened; oracle = expected-error model equality + all other streams equal to the fault-free dump of the same target; non-trivial as above; distinct = hash of case",
            strategy: (0u8..32, proptest::collection::vec(thread_strategy(), 0..9), any::<bool>(), prop_oneof![3 => Just(AuxvPlan::Kernel), 1 => Just(AuxvPlan::TrueDirect), 1 => Just(AuxvPlan::BadPhdr), 1 => Just(AuxvPlan::HugePhnum), 1 => Just(AuxvPlan::NonUtf8LibraryName)], prop_oneof![5 => Just(0u16), 3 => any::<u16>().prop_map(|m| m & 0x1fe), 1 => any::<u16>(), 2 => Just(0xffffu16)], (prop_oneof![2 => Just(0u8), 1 => 1u8..3], proptest::bool::weighted(0.2), prop_oneof![1 => Just(0u8), 1 => 1u8..7]))
                .prop_map(|(failmask, threads, cue_exiters, auxv, seized, (limit, leader_exit, main_name))| fix(Case { failmask, threads, cue_exiters, auxv, seized, limit, leader_exit, main_name }))
                .boxed(),
            max_shrink_iters: 200,
            log_current: true,
        },
        check,
    );
    let _ = pick;
    run_denied(ctx);
    ctx.run_enum(
        "absent-auxv-values",
        "exhaustive: the /proc/<pid>/auxv the dumper sees (redirected open) lacks any subset of AT_PHNUM / AT_PHDR / AT_SYSINFO_EHDR / AT_ENTRY (16), or is empty, or holds only the terminator, x the caller supplying any subset of the four true values (16) = 288 cases on targets with 0..2 extra threads; oracle = the dump succeeds; WriteDSODebugStreamFailed is listed exactly when AT_PHDR or AT_PHNUM is known neither from the caller nor from the file, and then the linker stream is absent; an empty file (no terminator) is additionally reported as malformed when it is read; nothing else is reported; every other stream equals the ordinary dump of the same target (module list as a set of extents when the gate or entry address is unknown); non-trivial = something absent",
        (0u8..18).flat_map(|m| (0u8..16).map(move |sup| AbsentCase { missing: if m < 16 { m } else { 0 }, empty: if m < 16 { 0 } else { m - 15 }, parked: m % 3, supplied: sup })),
        check_absent,
    );
}

pub fn run_denied(ctx: &mut LaneCtx) {
    ctx.assume("open() fault injection: the harness binary defines open64/open itself, so every File::open of the code under test passes through a shim that refuses (EACCES) the files selected by the case; /proc/<blamed>/status is refused only for its copy (armed by the second open of /proc/cpuinfo), because the same file is read earlier for every thread's parent and group id, which is not a best-effort step");
    ctx.run_sub(
        SubSpec {
            name: "unopenable-files",
            cases: (640, 16_000),
            rule: "every subset of the eight files the writer copies or consults on a best-effort basis (/proc/cpuinfo, the copy of /proc/<blamed>/status, lsb-release and os-release, cmdline, environ, auxv, limits, every thread's comm) made unopenable for the dumper, x 0..3 extra threads x blamed thread main/other x optionally one injectable fail point; oracle = the dump succeeds, the stream of every refused file is absent and exactly its failure (plus WriteCpuInformationFailed for cpuinfo, one ReadThreadNameFailed per thread for comm) is listed, every other stream equals the dump of the same target taken without injection; non-trivial = at least one file refused; distinct = hash of case",
            strategy: (any::<u8>(), 0u8..4, any::<bool>(), prop_oneof![3 => Just(0u8), 1 => 1u8..6]).prop_map(|(deny, parked, blamed_other, failspot)| DenyCase { deny, parked, blamed_other, failspot }).boxed(),
            max_shrink_iters: 200,
            log_current: true,
        },
        check_denied,
    );
}

pub fn replay(sub: &str, case: &Value) -> Verdict {
    match sub {
        "failspot-subsets" | "generated" => replay_case::<Case>(case, check),
        "unopenable-files" => replay_case::<DenyCase>(case, check_denied),
        "absent-auxv-values" => replay_case::<AbsentCase>(case, check_absent),
        _ => Verdict::Inconclusive(format!("unknown sub {sub}")),
    }
}
