//! C13 – mapping aggregation preserves the address-space picture.
//!
//! Generator: well-formed `/proc/pid/maps` texts (accepted by the parser the
//! dumper uses) + a vDSO address.  Oracle: invariants derived from the
//! statement (ordering, exact cover, hull, merge justification, gate name).

use crate::fw::*;
use minidump_writer::maps_reader::MappingInfo;
use proptest::prelude::*;
use procfs_core::process::MemoryMaps;
use procfs_core::FromRead;
use serde::{Deserialize, Serialize};
use serde_json::Value;

pub const LEVEL: &str = "exploration";

pub const PATHS: [&str; 6] = [
    "/usr/lib/libfoo.so.1",
    "/usr/bin/app",
    "/tmp/with space/lib bar.so",
    "/data/app/base.apk",
    "/lib/\u{e9}/lib\u{fc}.so.2.1",
    "/opt/x/libdel.so",
];
pub const PSEUDO: [&str; 9] = [
    "[heap]",
    "[stack]",
    "[stack:123]",
    "[vdso]",
    "[vvar]",
    "[vsyscall]",
    "[anon:x]",
    "[anon: with space]",
    "anon_inode:dmabuf",
];

#[derive(Debug, Clone, PartialEq, Eq, Hash, Serialize, Deserialize)]
pub enum Name {
    None,
    Path(u8),
    PathDeleted(u8),
    Pseudo(u8),
    /// absolute path made of arbitrary (valid UTF-8) characters, used by the fuzz decoder
    RawPath(String),
    /// a deleted file whose own name ends in " (deleted)": the kernel appends its marker once more
    PathDeleted2(u8),
}

impl Name {
    pub fn text(&self) -> String {
        match self {
            Name::None => String::new(),
            Name::Path(i) => PATHS[*i as usize % PATHS.len()].to_string(),
            Name::PathDeleted(i) => format!("{} (deleted)", PATHS[*i as usize % PATHS.len()]),
            Name::Pseudo(i) => PSEUDO[*i as usize % PSEUDO.len()].to_string(),
            Name::RawPath(p) => format!("/{p}"),
            Name::PathDeleted2(i) => format!("{} (deleted) (deleted)", PATHS[*i as usize % PATHS.len()]),
        }
    }
    /// name as the statement sees it: the mapped path without the kernel's
    /// " (deleted)" marker; None for an anonymous line
    pub fn sanitized(&self) -> Option<String> {
        match self {
            Name::None => None,
            Name::Path(i) | Name::PathDeleted(i) => Some(PATHS[*i as usize % PATHS.len()].to_string()),
            Name::Pseudo(i) => Some(PSEUDO[*i as usize % PSEUDO.len()].to_string()),
            Name::PathDeleted2(i) => Some(format!("{} (deleted)", PATHS[*i as usize % PATHS.len()])),
            Name::RawPath(p) => {
                let t = format!("/{p}");
                let t = t.trim().to_string();
                Some(t.strip_suffix(" (deleted)").map(|x| x.to_string()).unwrap_or(t))
            }
        }
    }
    pub fn is_path(&self) -> bool {
        matches!(self, Name::Path(_) | Name::PathDeleted(_) | Name::RawPath(_) | Name::PathDeleted2(_))
    }
}

#[derive(Debug, Clone, PartialEq, Eq, Hash, Serialize, Deserialize)]
pub enum Off {
    Zero,
    PrevEnd,
    Pages(u32),
    Arbitrary(u64),
    /// the previous line's file offset + size (the next piece of a file mapped contiguously)
    PrevFileEnd,
}

#[derive(Debug, Clone, PartialEq, Eq, Hash, Serialize, Deserialize)]
pub struct Line {
    /// pages of unmapped space before this line (0 = contiguous)
    pub gap: u16,
    pub pages: u16,
    /// bit0 r, bit1 w, bit2 x, bit3 shared
    pub perms: u8,
    pub off: Off,
    pub name: Name,
}

#[derive(Debug, Clone, PartialEq, Eq, Hash, Serialize, Deserialize)]
pub enum Gate {
    None,
    /// start of line k (monotone index)
    LineStart(u16),
    /// an address that is the start of no line
    Elsewhere(u64),
    /// an address strictly inside line k (byte offset derived from the second field; also
    /// page-aligned interior addresses): the start of no line either
    Inside(u16, u32),
}

#[derive(Debug, Clone, PartialEq, Eq, Hash, Serialize, Deserialize)]
pub struct Case {
    pub base_page: u32,
    pub lines: Vec<Line>,
    pub gate: Gate,
}

#[derive(Debug, Clone)]
pub struct Resolved {
    pub start: u64,
    pub end: u64,
    pub perms: u8,
    pub offset: u64,
    pub name: Name,
}

pub fn resolve(c: &Case) -> Vec<Resolved> {
    let mut out = vec![];
    let mut at: u64 = 0x1000 * (c.base_page as u64 + 16);
    for l in &c.lines {
        at += l.gap as u64 * 0x1000;
        let start = at;
        let end = start + (l.pages.max(1) as u64) * 0x1000;
        let offset = match l.off {
            Off::Zero => 0,
            Off::PrevEnd => out.last().map(|p: &Resolved| p.end).unwrap_or(0),
            Off::PrevFileEnd => out.last().map(|p: &Resolved| p.offset.wrapping_add(p.end - p.start) & 0xffff_ffff_f000).unwrap_or(0),
            Off::Pages(p) => p as u64 * 0x1000,
            Off::Arbitrary(o) => o,
        };
        out.push(Resolved {
            start,
            end,
            perms: l.perms & 0xf,
            offset,
            name: l.name.clone(),
        });
        at = end;
    }
    out
}

pub fn render(lines: &[Resolved]) -> String {
    let mut s = String::new();
    for (i, l) in lines.iter().enumerate() {
        let p = format!(
            "{}{}{}{}",
            if l.perms & 1 != 0 { 'r' } else { '-' },
            if l.perms & 2 != 0 { 'w' } else { '-' },
            if l.perms & 4 != 0 { 'x' } else { '-' },
            if l.perms & 8 != 0 { 's' } else { 'p' }
        );
        let (dev, inode) = if l.name.is_path() { ("08:01", 1000 + i) } else { ("00:00", 0) };
        let name = l.name.text();
        if name.is_empty() {
            s.push_str(&format!("{:x}-{:x} {} {:08x} {} {} \n", l.start, l.end, p, l.offset, dev, inode));
        } else {
            s.push_str(&format!(
                "{:x}-{:x} {} {:08x} {} {}                    {}\n",
                l.start, l.end, p, l.offset, dev, inode, name
            ));
        }
    }
    s
}

fn gate_addr(c: &Case, lines: &[Resolved]) -> Option<u64> {
    match &c.gate {
        Gate::None => None,
        Gate::LineStart(k) => {
            if lines.is_empty() {
                None
            } else {
                Some(lines[((*k as usize) * lines.len()) >> 16].start)
            }
        }
        Gate::Elsewhere(a) => {
            let a = (*a | 0x800) & 0x7fff_ffff_ffff; // never page aligned => start of no line
            Some(a)
        }
        Gate::Inside(k, o) => {
            if lines.is_empty() {
                None
            } else {
                let l = &lines[((*k as usize) * lines.len()) >> 16];
                let len = l.end - l.start;
                // low bit of o: page-aligned interior address (if the line has >= 2 pages) or any byte
                let a = if o & 1 == 1 && len >= 0x2000 { l.start + 0x1000 * (1 + (*o as u64 >> 1) % (len / 0x1000 - 1)) } else { l.start + 1 + (*o as u64 >> 1) % (len - 1) };
                if lines.iter().any(|x| x.start == a) {
                    None
                } else {
                    Some(a)
                }
            }
        }
    }
}

pub fn check(c: &Case) -> Verdict {
    let lines = resolve(c);
    let gate = gate_addr(c, &lines);
    check_resolved(&lines, gate, fp_json(c))
}

pub fn check_resolved(lines: &[Resolved], gate: Option<u64>, fp: u64) -> Verdict {
    let text = render(lines);
    let maps = match MemoryMaps::from_read(text.as_bytes()) {
        Ok(m) => m,
        Err(e) => return Verdict::Inconclusive(format!("generator produced text the parser rejects: {e:?}")),
    };
    if maps.len() != lines.len() {
        return Verdict::Inconclusive("parser line count differs".into());
    }
    let out = match MappingInfo::aggregate(maps, gate) {
        Ok(o) => o,
        Err(e) => return Verdict::viol("C13:aggregate-error", format!("aggregate failed on a well-formed map: {e:?}")),
    };
    macro_rules! bad {
        ($sig:expr, $($arg:tt)*) => {
            return Verdict::viol(format!("C13:{}", $sig), format!("{}\nmap:\n{}", format!($($arg)*), text))
        };
    }
    // (1) ascending, non-overlapping, non-empty
    for (k, m) in out.iter().enumerate() {
        if m.size == 0 {
            bad!("empty-output", "output {k} has size 0");
        }
        if k + 1 < out.len() {
            let e = m.start_address as u64 + m.size as u64;
            if e > out[k + 1].start_address as u64 {
                bad!("order-or-overlap", "output {k} [{:x},{:x}) vs next start {:x}", m.start_address, e, out[k + 1].start_address);
            }
        }
    }
    // (2) exact cover: each line in exactly one output
    let mut owner = vec![usize::MAX; lines.len()];
    for (i, l) in lines.iter().enumerate() {
        let mut n = 0;
        for (k, m) in out.iter().enumerate() {
            let s = m.start_address as u64;
            let e = s + m.size as u64;
            if s <= l.start && l.end <= e {
                n += 1;
                owner[i] = k;
            }
        }
        if n == 0 {
            bad!("line-not-covered", "line {i} [{:x},{:x}) is in no derived mapping", l.start, l.end);
        }
        if n > 1 {
            bad!("line-in-two", "line {i} is in {n} derived mappings");
        }
    }
    // (3) hull
    let mut merges = vec![];
    let mut classes: Vec<String> = vec![];
    let mut dont_care: Option<String> = None;
    for (k, m) in out.iter().enumerate() {
        let idx: Vec<usize> = (0..lines.len()).filter(|i| owner[*i] == k).collect();
        if idx.is_empty() {
            bad!("invented-output", "output {k} [{:x}+{:x}) contains no line", m.start_address, m.size);
        }
        for w in idx.windows(2) {
            if w[1] != w[0] + 1 {
                bad!("non-consecutive", "output {k} owns non-consecutive lines {idx:?}");
            }
        }
        let s = lines[idx[0]].start;
        let e = lines[*idx.last().unwrap()].end;
        if s != m.start_address as u64 || e != m.start_address as u64 + m.size as u64 {
            bad!("hull", "output {k} [{:x},{:x}) != hull [{s:x},{e:x}) of its lines {idx:?}", m.start_address, m.start_address + m.size);
        }
        // (4) merge justification
        let first = &lines[idx[0]];
        let gname = first.name.sanitized();
        for j in 1..idx.len() {
            let prev = &lines[idx[j - 1]];
            let cur = &lines[idx[j]];
            if prev.end != cur.start {
                bad!("merged-non-contiguous", "lines {} and {} merged across a hole", idx[j - 1], idx[j]);
            }
            let same = cur.name.sanitized().is_some() && cur.name.sanitized() == gname;
            let exec_before = idx[..j].iter().any(|i| lines[*i].perms & 4 != 0);
            let noaccess = cur.perms & 7 == 0;
            let private = cur.perms & 8 == 0;
            let next_same_part = j + 1 < idx.len()
                && lines[idx[j + 1]].name.sanitized().is_some()
                && lines[idx[j + 1]].name.sanitized() == gname
                && lines[idx[j + 1]].start == cur.end;
            if same {
                if (first.name != cur.name) && (first.name.is_path()) {
                    // "/x" vs "/x (deleted)": statement is silent
                    dont_care = Some("same path, one marked deleted".into());
                }
                merges.push("same-name");
            } else if noaccess && first.name.is_path() && exec_before {
                if !private {
                    dont_care = Some("shared no-access line merged as gap".into());
                } else if cur.name != Name::None {
                    // a line that carries a name of its own is not "the linker's reserved gap" by any reading;
                    // only the two legacy shapes (file offset 0, or file offset == end address of the line
                    // before it) are left undecided
                    if cur.name.is_path() && cur.offset != 0 && cur.offset != prev.end {
                        bad!(
                            "unjustified-merge:foreign-file-line",
                            "line {} ({:?}, ---p, file offset {:#x}) is a mapping of another file but was merged into the module of line {} ({:?}) as if it were its reserved gap",
                            idx[j], cur.name, cur.offset, idx[0], first.name
                        );
                    }
                    dont_care = Some("named no-access line in gap position".into());
                }
                merges.push("reserved-gap-after-exec");
            } else if noaccess && first.name.is_path() && next_same_part {
                if !private || cur.name != Name::None {
                    dont_care = Some("named/shared no-access line between two parts".into());
                }
                merges.push("gap-between-parts");
            } else {
                bad!(
                    "unjustified-merge",
                    "line {} ({:?}, perms {:x}) merged into the mapping of line {} ({:?}) without same name / reserved-gap justification",
                    idx[j], cur.name, cur.perms, idx[0], first.name
                );
            }
        }
    }
    // (5) gate
    if let Some(g) = gate {
        if let Some(m) = out.iter().find(|m| m.start_address as u64 == g) {
            let li = lines.iter().position(|l| l.start == g).unwrap();
            if lines[li].name.is_path() {
                dont_care = Some("gate address is the start of a file mapping".into());
            } else {
                if m.name.as_deref().and_then(|n| n.to_str()) != Some("linux-gate.so") {
                    bad!("gate-name", "mapping at vDSO address {g:x} is named {:?}", m.name);
                }
                classes.push("gate-renamed".into());
            }
        } else if lines.iter().any(|l| l.start == g) {
            classes.push("gate-line-merged-away".into());
        } else {
            // address of no line: nothing may be renamed
            if lines.iter().any(|l| l.start < g && g < l.end) {
                classes.push("gate-inside-line".into());
            }
            if out.iter().any(|m| m.name.as_deref().and_then(|n| n.to_str()) == Some("linux-gate.so")) {
                bad!("gate-spurious", "a mapping was named linux-gate.so although no line starts at {g:x}");
            }
        }
    } else if out.iter().any(|m| m.name.as_deref().and_then(|n| n.to_str()) == Some("linux-gate.so")) {
        bad!("gate-spurious", "a mapping was named linux-gate.so without a vDSO address");
    }
    if let Some(d) = dont_care {
        // invariants (1)-(3) held; the merge decision itself is outside the statement
        return Verdict::DontCare(d);
    }
    for m in &merges {
        classes.push(format!("merge:{m}"));
    }
    let nt = if !merges.is_empty() || classes.iter().any(|c| c == "gate-renamed") {
        Some(fp)
    } else {
        None
    };
    classes.sort();
    classes.dedup();
    Verdict::pass_c(nt, classes)
}

pub fn name_strategy() -> impl Strategy<Value = Name> {
    prop_oneof![
        4 => Just(Name::None),
        6 => (0u8..6).prop_map(Name::Path),
        1 => (0u8..6).prop_map(Name::PathDeleted),
        1 => (0u8..6).prop_map(Name::PathDeleted2),
        2 => (0u8..9).prop_map(Name::Pseudo),
    ]
}

fn line_strategy() -> impl Strategy<Value = Line> {
    (
        prop_oneof![6 => Just(0u16), 2 => Just(1u16), 1 => 2u16..300],
        prop_oneof![5 => 1u16..4, 2 => 4u16..600],
        prop_oneof![3 => Just(0u8), 2 => Just(1u8), 2 => Just(5u8), 2 => Just(3u8), 1 => 0u8..16],
        prop_oneof![4 => Just(Off::Zero), 2 => Just(Off::PrevEnd), 2 => Just(Off::PrevFileEnd), 2 => (0u32..64).prop_map(Off::Pages), 1 => any::<u64>().prop_map(|v| Off::Arbitrary(v & 0xffff_ffff_f000))],
        name_strategy(),
    )
        .prop_map(|(gap, pages, perms, off, name)| Line { gap, pages, perms, off, name })
}

/// Loader-like block: r--p, r-xp, [gap], r--p, rw-p of one file, with optional
/// reserved gaps, so that the merge rules fire often.
fn block_strategy() -> impl Strategy<Value = Vec<Line>> {
    (0u8..6, any::<bool>(), proptest::collection::vec((0u8..4, 1u16..5, 0u8..3), 1..6), any::<bool>()).prop_map(|(p, deleted, segs, firstgap)| {
        let name = if deleted { Name::PathDeleted(p) } else { Name::Path(p) };
        let mut v = vec![];
        let mut off = 0u32;
        for (k, (kind, pages, gapkind)) in segs.into_iter().enumerate() {
            let perms = [1u8, 5, 3, 1][kind as usize];
            v.push(Line {
                gap: if k == 0 && firstgap { 1 } else { 0 },
                pages,
                perms,
                off: if off == 0 { Off::Zero } else { Off::Pages(off) },
                name: name.clone(),
            });
            off += pages as u32;
            match gapkind {
                1 => v.push(Line { gap: 0, pages: 1 + (pages % 3), perms: 0, off: Off::Zero, name: Name::None }),
                2 => v.push(Line { gap: 0, pages: 1, perms: 0, off: Off::PrevEnd, name: Name::None }),
                _ => {}
            }
        }
        v
    })
}

pub fn case_strategy() -> impl Strategy<Value = Case> {
    let lines = proptest::collection::vec(
        prop_oneof![3 => line_strategy().prop_map(|l| vec![l]), 2 => block_strategy()],
        0..12,
    )
    .prop_map(|vv| {
        let mut v: Vec<Line> = vv.into_iter().flatten().collect();
        v.truncate(40);
        v
    });
    (
        0u32..0x7_0000_0000u64.min(u32::MAX as u64) as u32,
        lines,
        prop_oneof![2 => Just(Gate::None), 3 => any::<u16>().prop_map(Gate::LineStart), 1 => any::<u64>().prop_map(Gate::Elsewhere), 2 => (any::<u16>(), any::<u32>()).prop_map(|(k, o)| Gate::Inside(k, o))],
    )
        .prop_map(|(base_page, lines, gate)| Case { base_page, lines, gate })
}

/// Small-scope alphabet: 48 line shapes.
fn small_line(code: usize) -> Line {
    let name = [Name::None, Name::Path(0), Name::Path(1)][code % 3].clone();
    let perms = [0u8, 1, 5, 3][(code / 3) % 4];
    let gap = [0u16, 1][(code / 12) % 2];
    let off = [Off::Zero, Off::Pages(3)][(code / 24) % 2].clone();
    Line { gap, pages: 1, perms, off, name }
}

#[derive(Debug, Clone, Serialize, Deserialize)]
pub struct SmallCase {
    pub codes: Vec<u8>,
    pub gate_line: Option<u8>,
}

fn check_small(c: &SmallCase) -> Verdict {
    let case = Case {
        base_page: 0x5555,
        lines: c.codes.iter().map(|k| small_line(*k as usize)).collect(),
        gate: Gate::None,
    };
    let lines = resolve(&case);
    let gate = c.gate_line.map(|k| lines[k as usize].start);
    check_resolved(&lines, gate, fingerprint(&(&c.codes, c.gate_line)))
}

fn small_cases(max_len: usize) -> impl Iterator<Item = SmallCase> {
    (0..=max_len).flat_map(move |len| {
        let total = 48usize.pow(len as u32);
        (0..total).flat_map(move |mut n| {
            let mut codes = vec![];
            for _ in 0..len {
                codes.push((n % 48) as u8);
                n /= 48;
            }
            // gate choices only for short sequences (keeps the space bounded)
            let gates: Vec<Option<u8>> = if len <= 2 {
                std::iter::once(None).chain((0..len as u8).map(Some)).collect()
            } else {
                vec![None]
            };
            gates.into_iter().map(move |g| SmallCase { codes: codes.clone(), gate_line: g })
        })
    })
}

/// Live: the mapping list the dumper derives for a real target vs its /proc/pid/maps.
pub fn check_live(c: &crate::props::c08::Case) -> Verdict {
    use crate::vcore::target::*;
    use crate::vcore::world::*;
    // reuse C08's scenario builder by running its check's setup: simplest is to build a small target here
    init_scratch();
    let scratch = Target::new_scratch();
    let mut b = Builder::new();
    for (i, im) in c.images.iter().enumerate() {
        let path = scratch.join(format!("m{i}.so")).to_string_lossy().into_owned().into_bytes();
        let pads: Vec<u8> = im.pad_perms.iter().take(3).cloned().collect();
        b.spec.files.push((path.clone(), vec![0x11u8; 4096 * (1 + pads.len())]));
        let base = b.next_map_addr();
        let mut at = base;
        b.add_file_map_at(at, 1, (im.first_perms & 7) | 1, &path, 0, false);
        at += PAGE;
        let gap_k = im.gap_after.map(|k| k as usize % (1 + pads.len()));
        for part in 0..=pads.len() {
            if part > 0 {
                b.add_file_map_at(at, 1, pads[part - 1] & 7, &path, part as u64, false);
                at += PAGE;
            }
            if gap_k == Some(part) {
                b.add_anon_at(at, 1, 0, 0);
                at += PAGE;
            }
        }
        if im.unlink {
            b.spec.unlinks.push(path);
        }
    }
    let spec = b.spec.clone();
    let t = match Target::spawn(&spec, scratch) {
        Ok(t) => t,
        Err(e) => return Verdict::Inconclusive(format!("target setup: {}", e.split(':').next().unwrap_or(""))),
    };
    if !t.wait_settled(&spec) {
        return Verdict::Inconclusive("target did not settle".into());
    }
    let text = t.maps_text().unwrap_or_default();
    let gate = crate::props::c01::true_auxv(t.pid)[2];
    // caller-supplied auxiliary-vector values: any subset of the four true values (absent = 0 = "look it up");
    // the vDSO address the kernel reports must be honoured whichever subset the caller supplied
    let mask = fp_json(c) % 16;
    let a = crate::props::c01::true_auxv(t.pid);
    let pickv = |i: usize| if mask & (1 << i) != 0 { a[i] } else { 0 };
    let direct = minidump_writer::minidump_writer::DirectAuxvDumpInfo { program_header_count: pickv(0), program_header_address: pickv(1), linux_gate_address: pickv(2), entry_address: pickv(3) };
    let dumper = minidump_writer::ptrace_dumper::PtraceDumper::new_report_soft_errors(t.pid, std::time::Duration::from_millis(2000), direct.into(), error_graph::strategy::DontCare);
    let dumper = match dumper {
        Ok(d) => d,
        Err(e) => return Verdict::viol("C13:live:dumper-init-failed", format!("{e:?}")),
    };
    let mut out = dumper.mappings.clone();
    drop(dumper);
    if text != t.maps_text().unwrap_or_default() {
        return Verdict::Inconclusive("memory map changed".into());
    }
    // the dumper moves the entry-point mapping to the front: judge the set in address order
    out.sort_by_key(|m| m.start_address);
    let lines = crate::props::fid::parse_maps(&text);
    // same invariants as the pure check, on real kernel text
    let resolved: Vec<Resolved> = lines
        .iter()
        .map(|l| Resolved {
            start: l.start,
            end: l.end,
            perms: l.perms,
            offset: 0,
            name: Name::None,
        })
        .collect();
    let _ = resolved;
    macro_rules! bad {
        ($sig:expr, $($arg:tt)*) => { return Verdict::viol(format!("C13:live:{}", $sig), format!($($arg)*)) };
    }
    for w in out.windows(2) {
        if w[0].start_address + w[0].size > w[1].start_address {
            bad!("order-or-overlap", "[{:#x},+{:#x}) vs next {:#x}", w[0].start_address, w[0].size, w[1].start_address);
        }
    }
    let mut merges = 0;
    for l in &lines {
        let n = out.iter().filter(|m| m.start_address as u64 <= l.start && l.end <= (m.start_address + m.size) as u64).count();
        if n != 1 {
            bad!(if n == 0 { "line-not-covered" } else { "line-in-two" }, "line [{:#x},{:#x}) {} is in {n} derived mappings", l.start, l.end, l.name);
        }
    }
    for m in &out {
        let mine: Vec<&crate::props::fid::MapLine> = lines.iter().filter(|l| m.start_address as u64 <= l.start && l.end <= (m.start_address + m.size) as u64).collect();
        if mine.is_empty() {
            bad!("invented-output", "derived mapping [{:#x},+{:#x}) contains no line", m.start_address, m.size);
        }
        if mine[0].start != m.start_address as u64 || mine.last().unwrap().end != (m.start_address + m.size) as u64 {
            bad!("hull", "derived mapping [{:#x},+{:#x}) is not the hull of its lines", m.start_address, m.size);
        }
        let strip = |n: &str| n.strip_suffix(" (deleted)").unwrap_or(n).to_string();
        let first_name = strip(&mine[0].name);
        for (j, w) in mine.windows(2).enumerate() {
            if w[0].end != w[1].start {
                bad!("merged-non-contiguous", "lines at {:#x} and {:#x} merged across a hole", w[0].start, w[1].start);
            }
            merges += 1;
            let cur = w[1];
            let same = !cur.name.is_empty() && strip(&cur.name) == first_name;
            let noaccess = cur.perms & 7 == 0;
            let is_path = first_name.contains('/');
            let exec_before = mine[..=j].iter().any(|l| l.perms & 4 != 0);
            let next_same = mine.get(j + 2).map(|l| !l.name.is_empty() && strip(&l.name) == first_name).unwrap_or(false);
            if !(same || (noaccess && is_path && (exec_before || next_same))) {
                bad!("unjustified-merge", "line [{:#x},{:#x}) '{}' merged into the mapping of '{}'", cur.start, cur.end, cur.name, first_name);
            }
        }
    }
    if gate != 0 {
        if let Some(m) = out.iter().find(|m| m.start_address as u64 == gate) {
            if m.name.as_deref().and_then(|n| n.to_str()) != Some("linux-gate.so") {
                bad!("gate-name", "mapping at the vDSO address {gate:#x} is named {:?}", m.name);
            }
        }
    }
    Verdict::pass_c(if merges > 0 { Some(fp_json(c)) } else { None }, vec![format!("merges:{}", merges.min(9))])
}

pub fn run(ctx: &mut LaneCtx) {
    ctx.run_sub(
        SubSpec {
            name: "live-maps",
            cases: (480, 10_000),
            rule: "live targets with 1..6 files mapped in 1..4 parts of differing permissions with optional PROT_NONE gaps, some unlinked; the mapping list the dumper derives (PtraceDumper init, given any subset of the four true auxiliary-vector values as caller-supplied information) is judged against the kernel's /proc/pid/maps text with the same invariants (order, exact cover, hull, merge justification, gate name); non-trivial = at least one merge; distinct = hash of case",
            strategy: crate::props::c08::case_strategy().boxed(),
            max_shrink_iters: 100,
            log_current: true,
        },
        check_live,
    );
    ctx.assume("'well-formed' = accepted by procfs_core::MemoryMaps::from_read (the parser the dumper uses); under-merging is not judged (the statement only bounds merging from above)");
    ctx.assume("don't-care merge decisions: named (file offset 0 or equal to the preceding end address) or shared no-access line in gap position; same path where only one line carries the kernel's ' (deleted)' marker; vDSO address equal to the start of a file mapping");
    ctx.run_sub(
        SubSpec {
            name: "generated-maps",
            cases: (80_000, 4_000_000),
            rule: "generated /proc/pid/maps texts (0..40 lines: loader-like blocks + free lines; all perms; offsets 0/previous end address/previous file offset+size/pages/arbitrary; names none/paths/deleted/a deleted file whose name itself ends in ' (deleted)'/pseudo) + vDSO address (none / start of a line / strictly inside a line, byte- or page-aligned / outside every line); non-trivial = at least one merge happened or the gate mapping was renamed; distinct = hash of the case",
            strategy: case_strategy().boxed(),
            max_shrink_iters: 4096,
            log_current: false,
        },
        check,
    );
    let max_len = if ctx.tier == Tier::Quick { 3 } else { 4 };
    ctx.run_enum(
        "small-scope",
        "exhaustive: all sequences of <=3 (quick) / <=4 (thorough) lines over a 48-shape alphabet (3 names x 4 perms x contiguous/gap x offset 0/non-zero), plus every vDSO line choice for <=2 lines",
        small_cases(max_len),
        check_small,
    );
}

pub fn replay(sub: &str, case: &Value) -> Verdict {
    match sub {
        "generated-maps" => replay_case::<Case>(case, check),
        "live-maps" => replay_case::<crate::props::c08::Case>(case, check_live),
        "small-scope" => replay_case::<SmallCase>(case, check_small),
        _ => Verdict::Inconclusive(format!("unknown sub {sub}")),
    }
}
