//! Property registry.
use crate::fw::{LaneCtx, Verdict};
use serde_json::Value;

pub mod c01;
pub mod c02;
pub mod c03;
pub mod c04;
pub mod c05;
pub mod c06;
pub mod c07;
pub mod c08;
pub mod c09;
pub mod c10;
pub mod c11;
pub mod c12;
pub mod c13;
pub mod c14;
pub mod c15;
pub mod c16;
pub mod c17;
pub mod c18;
pub mod c19;
pub mod c20;
pub mod fid;
pub mod fuzz_entry;
pub mod planted;

/// Parent-side preparation before the lanes start.
pub fn prepare(id: &str) {
    if id == "C14" {
        c14::prepare();
    }
}

pub struct Info {
    pub level: &'static str,
}

macro_rules! registry {
    ($( $id:literal => $m:ident ),* $(,)?) => {
        pub fn info(id: &str) -> Option<Info> {
            match id { $( $id => Some(Info { level: $m::LEVEL }), )* _ => None }
        }
        pub fn run(id: &str, ctx: &mut LaneCtx) {
            match id { $( $id => $m::run(ctx), )* _ => panic!("unknown property {id}") }
        }
        pub fn replay(id: &str, sub: &str, case: &Value) -> Verdict {
            if let Some(gsub) = sub.strip_prefix("fuzz-gen:") {
                return crate::fw::replay_case::<fuzz_entry::Bytes>(case, |b| fuzz_entry::replay_generic(id, gsub, b));
            }
            if sub.starts_with("fuzz-") {
                return crate::fw::replay_case::<fuzz_entry::Bytes>(case, |b| fuzz_entry::replay(sub, b));
            }
            match id { $( $id => $m::replay(sub, case), )* _ => Verdict::Inconclusive(format!("unknown property {id}")) }
        }
    };
}

registry! {
    "C01" => c01,
    "C02" => c02,
    "C03" => c03,
    "C04" => c04,
    "C05" => c05,
    "C06" => c06,
    "C07" => c07,
    "C08" => c08,
    "C09" => c09,
    "C10" => c10,
    "C11" => c11,
    "C12" => c12,
    "C13" => c13,
    "C14" => c14,
    "C15" => c15,
    "C16" => c16,
    "C17" => c17,
    "C18" => c18,
    "C19" => c19,
    "C20" => c20,
}
