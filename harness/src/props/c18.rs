//! C18 – OS and process information streams mirror the target.

use crate::fw::*;
use crate::props::fid::parse_maps;
use crate::vcore::arena::*;
use crate::vcore::dest::Dest;
use crate::vcore::dso::*;
use crate::vcore::md;
use crate::vcore::target::*;
use crate::vcore::world::*;
use proptest::prelude::*;
use serde::{Deserialize, Serialize};
use serde_json::Value;
use std::os::unix::ffi::OsStrExt;

pub const LEVEL: &str = "exploration";

// ---- synthetic linker list through the stream writer (arena) ----------------

pub fn check_dso_synthetic(c: &DsoCase) -> Verdict {
    let (r, exp) = match crate::props::c02::run_dso(c) {
        Ok(x) => x,
        Err(e) => return Verdict::Inconclusive(format!("arena: {e}")),
    };
    if !exp.well_formed {
        return Verdict::DontCare("linker data not intact".into());
    }
    match r {
        Ok((img, rva, size)) => {
            let d = md::decode_one(&img, md::ST_LINUX_DSO_DEBUG, rva as u64, size as u64);
            let Some(dso) = d.dso.as_ref() else {
                return Verdict::viol("C18:dso:undecodable", format!("{:?}", d.problems.first()));
            };
            if let Some((sig, detail)) = compare(&exp, dso) {
                return Verdict::viol(format!("C18:dso:{sig}"), detail);
            }
            Verdict::pass_c(Some(fp_json(c)), vec![format!("links:{}", exp.links.len().min(4))])
        }
        Err(e) => Verdict::viol("C18:dso:intact-list-rejected", format!("intact linker data but the stream writer failed: {e}")),
    }
}

// ---- live target ----------------------------------------------------------------

#[derive(Debug, Clone, PartialEq, Eq, Hash, Serialize, Deserialize)]
pub enum AuxvMode {
    Kernel,
    TrueDirect,
    /// bit mask of direct values set to zero (phnum, phdr, gate, entry)
    PartialZero(u8),
    /// phnum/phdr point at a synthetic linker list placed in the target
    Synthetic(DsoCase),
}

#[derive(Debug, Clone, PartialEq, Eq, Hash, Serialize, Deserialize)]
pub struct LiveCase {
    pub argv: Vec<Vec<u8>>,
    pub env: Vec<(Vec<u8>, Vec<u8>)>,
    pub rlimits: Vec<(u8, u32)>,
    pub fds: Vec<u8>,
    /// (pages, prot, shared file mapping?)
    pub maps: Vec<(u8, u8, bool)>,
    pub parked: u8,
    pub blamed_other: bool,
    pub auxv: AuxvMode,
    /// a thread of the target keeps opening and closing descriptors: the handle stream must show the
    /// table as it was while the target was stopped
    #[serde(default)]
    pub fd_churn: bool,
    /// the thread-group leader exits on its own (zombie leader, other threads live on); the dump then
    /// blames a live thread.  Only combined with the kernel's auxv and without the descriptor churner.
    #[serde(default)]
    pub leader_exit: bool,
    /// the far end of "any argv/environment content": the target is executed with a 64 MiB stack limit
    /// and 0.2 / 2 (the dumper's own ARG_MAX) / 3 / 5 MiB of additional environment (even) or argument
    /// (odd selector / 4) strings of up to 100 KiB each
    #[serde(default)]
    pub bulk: Option<u8>,
    /// state of the DUMPING thread: pinned to a single CPU (a crash reporter running under taskset /
    /// in a cpuset).  The machine the dump describes still has all its processors.
    #[serde(default)]
    pub dumper_pinned: Option<u8>,
    /// what the kernel can legally report but rarely does: bit 0 = a 1 TiB inaccessible reservation
    /// (region size beyond 32 bits), bit 1 = 6 000..30 000 additional lines in the memory map
    #[serde(default)]
    pub wide: Option<u8>,
}

fn protection_of(p: u8) -> u32 {
    match (p & 1 != 0, p & 2 != 0, p & 4 != 0) {
        (false, false, false) => 0x01,
        (false, false, true) => 0x10,
        (true, false, false) => 0x02,
        (true, false, true) => 0x20,
        (_, true, false) => 0x04,
        (_, true, true) => 0x40,
    }
}

fn cpuinfo_expect() -> Option<(u16, u16, u8, Vec<u8>)> {
    let s = std::fs::read_to_string("/proc/cpuinfo").ok()?;
    let (mut family, mut model, mut stepping, mut last_proc, mut vendor) = (None, None, None, None, None);
    for l in s.lines() {
        let Some((k, v)) = l.split_once(':') else { continue };
        let (k, v) = (k.trim(), v.trim());
        match k {
            "processor" => last_proc = v.parse::<i32>().ok().or(last_proc),
            "cpu family" if family.is_none() => family = v.parse::<i32>().ok(),
            "model" if model.is_none() => model = v.parse::<i32>().ok(),
            "stepping" if stepping.is_none() => stepping = v.parse::<i32>().ok(),
            "vendor_id" if vendor.is_none() && !v.is_empty() => vendor = Some(v.as_bytes().to_vec()),
            _ => {}
        }
    }
    Some((family? as u16, ((model? << 8) | stepping?) as u16, (last_proc? + 1) as u8, vendor.unwrap_or_default()))
}

pub fn check_live(c: &LiveCase) -> Verdict {
    init_scratch();
    let scratch = Target::new_scratch();
    let mut b = Builder::new();
    b.spec.argv = c.argv.clone();
    b.spec.env = c.env.clone();
    if let Some(k) = c.wide {
        if k & 1 != 0 {
            b.add_anon_at(0x6000_0000_0000, 1 << 28, 0, 0);
        }
        if k & 2 != 0 || k & 1 == 0 {
            b.spec.stripes = Some((0x6200_0000_0000, 3000 + (k as u32 >> 2) * 190));
        }
    }
    if let Some(k) = c.bulk {
        let total: usize = [200 << 10, (2 << 20) - 40_000 + 7919 * (k as usize >> 3), 3 << 20, 5 << 20][k as usize % 4];
        let mut left = total;
        let mut i = 0u64;
        while left > 0 {
            let n = left.min(100_000 - 997 * (i as usize % 7));
            let v: Vec<u8> = (0..n as u64).map(|j| b'a' + ((j * 7 + i * 13) % 26) as u8).collect();
            if (k >> 2) & 1 == 0 {
                b.spec.env.push((format!("BULK{i}").into_bytes(), v));
            } else {
                b.spec.argv.push(v);
            }
            left -= n;
            i += 1;
        }
        b.spec.exec_stack_mb = Some(64);
    }
    for (res, soft) in &c.rlimits {
        // RLIMIT_CORE(4), RLIMIT_NOFILE(7), RLIMIT_STACK(3), RLIMIT_MEMLOCK(8)
        let r = [4, 7, 3, 8][*res as usize % 4];
        let soft = match r {
            7 => 200 + (*soft as u64 % 800),
            3 => (1 << 20) + (*soft as u64 % 64) * 4096,
            _ => *soft as u64,
        };
        b.spec.rlimits.push((r, soft, soft + 4096));
    }
    for (i, f) in c.fds.iter().enumerate() {
        // names with a blank and a non-ASCII letter; every fourth one also has characters outside the
        // Basic Multilingual Plane (two UTF-16 units each) and every seventh is 200 bytes long
        let p = scratch
            .join(match (i % 4, i % 7) {
                (3, _) => format!("fd {i} \u{1d11e}\u{e9}\u{1f600}.txt"),
                (_, 6) => format!("fd {i} {}", "n".repeat(190)),
                _ => format!("fd {i} \u{e9}"),
            })
            .as_os_str()
            .as_bytes()
            .to_vec();
        b.spec.fds.push(match f % 7 {
            0 => TFd::File(p),
            1 => TFd::Deleted(p),
            2 => TFd::Pipe,
            3 => TFd::Socket,
            4 => TFd::EventFd,
            5 => TFd::Dir(scratch.as_os_str().as_bytes().to_vec()),
            _ => TFd::DevNull,
        });
    }
    for (i, (pages, prot, shared)) in c.maps.iter().enumerate() {
        let pages = (*pages as u64 % 5) + 1;
        if *shared {
            let path = scratch.join(format!("shared-{i}.bin")).as_os_str().as_bytes().to_vec();
            b.spec.files.push((path.clone(), vec![7u8; (pages * PAGE) as usize]));
            let addr = b.next_map_addr();
            b.add_file_map_at(addr, pages, (prot & 7) | 1, &path, 0, true);
        } else {
            b.add_anon(pages, prot & 7, 0x99 + i as u64);
        }
    }
    let mut parked = vec![];
    for i in 0..(c.parked % 4) {
        let st = b.add_stack(1, false, 60 + i as u64);
        parked.push(b.add_thread(K_PARKED, Some(format!("w{i}").into_bytes()), st.base + 0x800, 60 + i as u64));
    }
    if c.fd_churn {
        b.add_thread(K_FDCHURN, Some(b"churn".to_vec()), 0, 99);
    }
    // synthetic linker list inside the target, at the arena address
    let mut synth: Option<(u64, u64, Expect)> = None;
    if let AuxvMode::Synthetic(dc) = &c.auxv {
        let mut buf = BufArena(vec![0u8; ARENA_SIZE as usize]);
        let (phnum, phdr, exp) = lay_out(dc, &mut buf);
        b.add_content_at(ARENA, ARENA_PAGES, 3, buf.0);
        b.add_anon_at(ARENA + ARENA_SIZE, 1, 0, 0);
        synth = Some((phnum, phdr, exp));
    }
    let leader_exit = c.leader_exit && c.parked % 4 > 0 && matches!(c.auxv, AuxvMode::Kernel) && !c.fd_churn;
    b.spec.leader_exit = leader_exit;
    let spec = b.spec.clone();
    let t = match Target::spawn(&spec, scratch) {
        Ok(t) => t,
        Err(e) => return Verdict::Inconclusive(format!("target setup: {}", e.split(':').next().unwrap_or(""))),
    };
    if !t.wait_settled(&spec) {
        return Verdict::Inconclusive("target did not settle".into());
    }
    let pid = t.pid;
    let blamed = if (c.blamed_other || leader_exit) && !parked.is_empty() { t.tid(parked[0]) } else { pid };
    let true_aux = crate::props::c01::true_auxv(pid);
    let direct = match &c.auxv {
        AuxvMode::Kernel => None,
        AuxvMode::TrueDirect => Some(true_aux),
        AuxvMode::PartialZero(m) => {
            let mut a = true_aux;
            for i in 0..4 {
                if m & (1 << i) != 0 {
                    a[i] = 0;
                }
            }
            Some(a)
        }
        AuxvMode::Synthetic(_) => {
            let (phnum, phdr, _) = synth.as_ref().unwrap();
            // gate left zero: the kernel's auxv is then consulted for the missing value, and must not
            // override the caller-supplied program header values
            Some([*phnum, *phdr, 0, true_aux[3]])
        }
    };
    let opts = DumpOpts { blamed, direct_auxv: direct, ..Default::default() };
    let rd = |name: &str| std::fs::read(format!("/proc/{blamed}/{name}")).ok();
    let before: Vec<Option<Vec<u8>>> = ["cmdline", "environ", "auxv", "limits", "maps"].iter().map(|n| rd(n)).collect();
    let mut w = make_writer(pid, &opts);
    let mut dest = Dest::new(vec![], 0);
    // descriptor table while the target is stopped (taken from the hook just before the threads are resumed)
    let fd_table = move || -> Vec<(u64, String, u32)> {
        let mut v = vec![];
        if let Ok(rdir) = std::fs::read_dir(format!("/proc/{pid}/fd")) {
            for e in rdir.filter_map(|e| e.ok()) {
                let Some(fd) = e.file_name().to_str().and_then(|s| s.parse::<u64>().ok()) else { continue };
                let Ok(link) = std::fs::read_link(e.path()) else { continue };
                let mut st: libc::stat = unsafe { std::mem::zeroed() };
                let cp = std::ffi::CString::new(e.path().as_os_str().as_bytes()).unwrap();
                if unsafe { libc::stat(cp.as_ptr(), &mut st) } != 0 {
                    continue;
                }
                v.push((fd, link.to_string_lossy().into_owned(), st.st_mode));
            }
        }
        v.sort();
        v
    };
    let stopped_table: std::sync::Arc<std::sync::Mutex<Option<Vec<(u64, String, u32)>>>> = Default::default();
    let st2 = stopped_table.clone();
    let hook = Box::new(move |p: minidump_writer::verif_hooks::Point| {
        if p == minidump_writer::verif_hooks::Point::BeforeResume {
            *st2.lock().unwrap() = Some(fd_table());
        }
    });
    let mut old_mask: libc::cpu_set_t = unsafe { std::mem::zeroed() };
    let pinned = c.dumper_pinned.is_some() && unsafe { libc::sched_getaffinity(0, std::mem::size_of::<libc::cpu_set_t>(), &mut old_mask) } == 0;
    if pinned {
        unsafe {
            let allowed: Vec<usize> = (0..libc::CPU_SETSIZE as usize).filter(|i| libc::CPU_ISSET(*i, &old_mask)).collect();
            let mut one: libc::cpu_set_t = std::mem::zeroed();
            libc::CPU_SET(allowed[c.dumper_pinned.unwrap() as usize % allowed.len()], &mut one);
            libc::sched_setaffinity(0, std::mem::size_of::<libc::cpu_set_t>(), &one);
        }
    }
    let out = with_hook(hook, || run_dump(&mut w, &mut dest));
    if pinned {
        unsafe { libc::sched_setaffinity(0, std::mem::size_of::<libc::cpu_set_t>(), &old_mask) };
    }
    let img = match out {
        DumpOutcome::Ok(v) => v,
        DumpOutcome::Err(e) => return Verdict::pass_c(None, vec![format!("dump-error:{}", e.split('(').next().unwrap_or(""))]),
        DumpOutcome::Panic(l, m) => return panic_verdict(&l, &m),
    };
    let after: Vec<Option<Vec<u8>>> = ["cmdline", "environ", "auxv", "limits", "maps"].iter().map(|n| rd(n)).collect();
    if before != after {
        return Verdict::Inconclusive("/proc text changed during the dump".into());
    }
    let d = md::decode(&img);
    macro_rules! bad {
        ($sig:expr, $($arg:tt)*) => { return Verdict::viol(format!("C18:{}", $sig), format!($($arg)*)) };
    }
    if let Some(p) = d.problems.first() {
        bad!("undecodable", "{}: {}", p.sig, p.detail);
    }
    let raw = |ty: u32| d.raw.get(&ty).map(|l| img[l.rva as usize..(l.rva + l.size) as usize].to_vec());
    for (i, (ty, name)) in [(md::ST_LINUX_CMD_LINE, "cmdline"), (md::ST_LINUX_ENVIRON, "environ"), (md::ST_LINUX_AUXV, "auxv"), (md::ST_MOZ_LINUX_LIMITS, "limits"), (md::ST_LINUX_MAPS, "maps")].iter().enumerate() {
        let want = before[i].clone();
        let got = raw(*ty);
        if got != want {
            bad!(format!("raw:{name}"), "stream {name} ({} bytes) is not the kernel's /proc/{blamed}/{name} ({} bytes)", got.map(|g| g.len() as i64).unwrap_or(-1), want.map(|g| g.len() as i64).unwrap_or(-1));
        }
    }
    // memory info list vs maps lines
    let lines = parse_maps(before[4].as_deref().unwrap_or_default());
    let Some(mi) = d.meminfo.as_ref() else { bad!("meminfo:missing", "memory info list missing") };
    if mi.len() != lines.len() {
        bad!("meminfo:count", "{} entries for {} memory-map lines", mi.len(), lines.len());
    }
    for (m, l) in mi.iter().zip(lines.iter()) {
        let want_ty = if l.perms & 8 != 0 { 0x40000 } else { 0x20000 };
        if m.base != l.start || m.region_size != l.end - l.start || m.alloc_base != l.start {
            bad!("meminfo:range", "entry ({:#x},+{:#x}) vs line [{:#x},{:#x})", m.base, m.region_size, l.start, l.end);
        }
        if m.protection != protection_of(l.perms) || m.alloc_prot != protection_of(l.perms) {
            bad!("meminfo:protection", "line [{:#x},{:#x}) perms {:#x}: protection {:#x} expected {:#x}", l.start, l.end, l.perms, m.protection, protection_of(l.perms));
        }
        if m.ty != want_ty || m.state != 0x1000 {
            bad!("meminfo:type", "line [{:#x},{:#x}) perms {:#x}: type {:#x} state {:#x}", l.start, l.end, l.perms, m.ty, m.state);
        }
    }
    // handles vs /proc/pid/fd
    let Some(hs) = d.handles.as_ref() else { bad!("handles:missing", "handle stream missing") };
    let mut want_h: Vec<(u64, String, u32)> = vec![];
    if leader_exit {
        // /proc/<pid>/fd of a zombie leader is not a usable ground truth: the handle stream is not judged
        want_h = hs.iter().map(|h| (h.handle, h.object_name.clone().unwrap_or_default(), h.attributes)).collect();
    } else if c.fd_churn {
        match stopped_table.lock().unwrap().clone() {
            Some(t) => want_h = t,
            None => return Verdict::Inconclusive("the before-resume hook did not fire".into()),
        }
    } else if let Ok(rdir) = std::fs::read_dir(format!("/proc/{pid}/fd")) {
        for e in rdir.filter_map(|e| e.ok()) {
            let Some(fd) = e.file_name().to_str().and_then(|s| s.parse::<u64>().ok()) else { continue };
            let Ok(link) = std::fs::read_link(e.path()) else { continue };
            let mut st: libc::stat = unsafe { std::mem::zeroed() };
            let cp = std::ffi::CString::new(e.path().as_os_str().as_bytes()).unwrap();
            if unsafe { libc::stat(cp.as_ptr(), &mut st) } != 0 {
                continue;
            }
            want_h.push((fd, link.to_string_lossy().into_owned(), st.st_mode));
        }
    }
    want_h.sort();
    let mut got_h: Vec<(u64, String, u32)> = hs.iter().map(|h| (h.handle, h.object_name.clone().unwrap_or_default(), h.attributes)).collect();
    got_h.sort();
    if got_h != want_h {
        let miss = want_h.iter().find(|w| !got_h.contains(w));
        let extra = got_h.iter().find(|g| !want_h.contains(g));
        bad!("handles", "handle stream differs from /proc/{pid}/fd: missing {miss:?}, unexpected {extra:?}");
    }
    // system info
    let Some(si) = d.sysinfo.as_ref() else { bad!("sysinfo:missing", "system info missing") };
    if si.platform_id != 0x8201 || si.arch != 9 {
        bad!("sysinfo:platform", "platform {:#x} arch {}", si.platform_id, si.arch);
    }
    if let Some((level, rev, nproc, vendor)) = cpuinfo_expect() {
        if si.level != level || si.revision != rev || si.nproc != nproc {
            bad!("sysinfo:cpu", "level/revision/count {}/{:#x}/{} expected {}/{:#x}/{}", si.level, si.revision, si.nproc, level, rev, nproc);
        }
        let n = vendor.len().min(12);
        if si.cpu[..n] != vendor[..n] {
            bad!("sysinfo:vendor", "{:?} expected {:?}", &si.cpu[..12], vendor);
        }
    }
    let un = nix::sys::utsname::uname().ok();
    if let Some(u) = un {
        let want = format!("{} {} {} {}", u.sysname().to_string_lossy(), u.release().to_string_lossy(), u.version().to_string_lossy(), u.machine().to_string_lossy());
        if si.csd.as_deref() != Some(want.as_str()) {
            bad!("sysinfo:os-version", "{:?} expected {want:?}", si.csd);
        }
    }
    // linker debug stream
    let mut classes = vec![];
    if pinned {
        classes.push("dumping-thread-pinned-to-one-cpu".to_string());
    }
    if let Some(k) = c.wide {
        if k & 1 != 0 {
            classes.push("1TiB-reservation".to_string());
        }
        if k & 2 != 0 || k & 1 == 0 {
            classes.push("thousands-of-map-lines".to_string());
        }
    }
    if let Some(k) = c.bulk {
        classes.push(format!("bulk-{}:{}", if (k >> 2) & 1 == 0 { "environment" } else { "arguments" }, ["200KiB", "2MiB", "3MiB", "5MiB"][k as usize % 4]));
    }
    match (&c.auxv, synth) {
        (AuxvMode::Synthetic(_), Some((_, _, exp))) => {
            if exp.well_formed {
                let Some(dso) = d.dso.as_ref() else { bad!("dso:missing", "caller-supplied auxv leads to an intact linker list but there is no DSO stream") };
                if let Some((sig, detail)) = compare(&exp, dso) {
                    bad!(format!("dso:direct-auxv:{sig}"), "{detail}");
                }
                classes.push("dso:caller-supplied-auxv".to_string());
            }
        }
        _ => {
            // the kernel's auxv (or true direct values) lead to the real list, which the target printed
            if leader_exit && d.dso.is_none() {
                // the kernel serves no auxiliary vector for an exited leader: there is nothing the stream could be derived from
                classes.push("zombie-leader:no-auxv-no-dso-stream".to_string());
                let nt = true;
                return Verdict::pass_c(if nt { Some(fp_json(c)) } else { None }, classes);
            }
            let Some(dso) = d.dso.as_ref() else { bad!("dso:missing", "no DSO stream for a dynamically linked target") };
            let Some((ver, brk, ldbase, dynamic)) = t.rdebug else { return Verdict::Inconclusive("target did not report r_debug".into()) };
            let exp = Expect {
                well_formed: true,
                links: t.dsos.iter().map(|(a, l, n)| (*a, String::from_utf8_lossy(n).into_owned(), *l)).collect(),
                version: ver,
                brk,
                ldbase,
                dynamic,
                dynamic_bytes: dso.dynamic_bytes.clone(),
            };
            if let Some((sig, detail)) = compare(&exp, dso) {
                bad!(format!("dso:real:{sig}"), "{detail}");
            }
            // the dynamic section bytes are the target's memory at that address
            if let Some(mem) = t.read_mem(dynamic, dso.dynamic_bytes.len()) {
                if mem != dso.dynamic_bytes {
                    bad!("dso:real:dynamic-section-bytes", "dynamic section copy differs from the target's memory");
                }
            }
            classes.push(match c.auxv {
                AuxvMode::Kernel => "dso:kernel-auxv".to_string(),
                AuxvMode::TrueDirect => "dso:direct-true".to_string(),
                _ => "dso:direct-partially-zero".to_string(),
            });
        }
    }
    let kinds: std::collections::BTreeSet<u8> = c.fds.iter().map(|f| f % 7).collect();
    if c.fds.len() >= 10 && kinds.len() >= 3 {
        classes.push("fds>=10of>=3kinds".into());
    }
    let nt = classes.len() >= 2 || matches!(c.auxv, AuxvMode::Synthetic(_) | AuxvMode::PartialZero(_));
    Verdict::pass_c(if nt { Some(fp_json(c)) } else { None }, classes)
}

fn bytes_strategy(max: usize) -> impl Strategy<Value = Vec<u8>> {
    proptest::collection::vec(prop_oneof![8 => 0x20u8..0x7f, 1 => 0x80u8..=0xff, 1 => 1u8..0x20], 0..max)
}

pub fn live_strategy() -> impl Strategy<Value = LiveCase> {
    (
        proptest::collection::vec(prop_oneof![4 => bytes_strategy(24), 1 => bytes_strategy(600)], 0..21),
        proptest::collection::vec((proptest::collection::vec(prop_oneof![(b'A'..=b'Z'), Just(b'_')], 1..12), bytes_strategy(40)), 0..51),
        proptest::collection::vec((any::<u8>(), any::<u32>()), 0..4),
        proptest::collection::vec(any::<u8>(), 0..61),
        proptest::collection::vec((any::<u8>(), 0u8..8, any::<bool>()), 0..6),
        0u8..4,
        any::<bool>(),
        (proptest::bool::weighted(0.3), proptest::bool::weighted(0.25), proptest::option::weighted(0.05, any::<u8>()), proptest::option::weighted(0.25, any::<u8>()), proptest::option::weighted(0.04, any::<u8>())),
        prop_oneof![
            3 => Just(AuxvMode::Kernel),
            2 => Just(AuxvMode::TrueDirect),
            3 => (1u8..16).prop_map(AuxvMode::PartialZero),
            3 => valid_dso_strategy().prop_map(AuxvMode::Synthetic),
        ],
    )
        .prop_map(|(argv, env, rlimits, fds, maps, parked, blamed_other, (fd_churn, leader_exit, bulk, dumper_pinned, wide), auxv)| LiveCase { argv, env, rlimits, fds, maps, parked, blamed_other, auxv, fd_churn, leader_exit, bulk, dumper_pinned, wide })
}

pub fn run(ctx: &mut LaneCtx) {
    ctx.assume("ground truth = /proc/<blamed>/{cmdline,environ,auxv,limits,maps} read by the checker before and after the dump (inconclusive when they differ), /proc/<pid>/fd with readlink+stat, the checker's own /proc/cpuinfo parse and uname(2), the target's own walk of _r_debug, and the synthetic linker list the harness placed in the target");
    ctx.run_sub(
        SubSpec {
            name: "live-os-streams",
            cases: (800, 25_000),
            rule: "generated targets: argv 0..20 (empty, non-UTF-8, long), environment 0..50 variables (one case in twenty adds 0.2 / 2 / 3 / 5 MiB of environment or argument strings, the target being executed under a 64 MiB stack limit so that the kernel accepts them), changed rlimits, 0..60 descriptors of 7 kinds, shared/private mappings of all permissions (four cases in a hundred add a 1 TiB inaccessible reservation and / or 6 000..30 000 further lines to the memory map), blamed thread main/other, the dumping thread free or pinned to a single CPU (the system information must still describe the machine), optionally a thread-group leader that has exited on its own (zombie leader, dump blamed on a live thread); auxv mode {kernel, true direct, direct with some values zero, direct values leading to a synthetic linker list in the target}; oracle as in assumptions; non-trivial = >=10 descriptors of >=3 kinds, or synthetic chain, or partially zero direct auxv; distinct = hash of case",
            strategy: live_strategy().boxed(),
            max_shrink_iters: 150,
            log_current: true,
        },
        check_live,
    );
    ctx.run_sub(
        SubSpec {
            name: "dso-synthetic",
            cases: (6_000, 600_000),
            rule: "intact synthetic linker data (0..12 link_map nodes, names 0..255 bytes UTF-8, arbitrary l_addr/l_ld/r_debug fields, extra program headers and dynamic entries, non-zero fill) in the arena helper through write_dso_debug_stream; oracle = stream lists exactly (addr, name, ld) in list order, version/brk/ldbase, dynamic address and bytes; non-trivial = every intact case; distinct = hash of case",
            strategy: valid_dso_strategy().boxed(),
            max_shrink_iters: 600,
            log_current: true,
        },
        check_dso_synthetic,
    );
}

pub fn replay(sub: &str, case: &Value) -> Verdict {
    match sub {
        "live-os-streams" => replay_case::<LiveCase>(case, check_live),
        "dso-synthetic" => replay_case::<DsoCase>(case, check_dso_synthetic),
        _ => Verdict::Inconclusive(format!("unknown sub {sub}")),
    }
}
