//! C01 – a successful dump is a structurally sound minidump.
//!
//! Live scenarios: generated target processes (threads of mixed kinds and
//! names, extra mappings, open files) x generated writer options; the image of
//! every successful dump is decoded with the strict decoder: directory, stream
//! sizes, every RVA, object overlap.

use crate::fw::*;
use crate::vcore::dest::Dest;
use crate::vcore::md;
use crate::vcore::regs::*;
use crate::vcore::target::*;
use crate::vcore::world::*;
use proptest::prelude::*;
use serde::{Deserialize, Serialize};
use serde_json::Value;

pub const LEVEL: &str = "exploration";

#[derive(Debug, Clone, PartialEq, Eq, Hash, Serialize, Deserialize)]
pub enum NameG {
    Unset,
    Utf8(String),
    Raw(Vec<u8>),
}

impl NameG {
    pub fn bytes(&self) -> Option<Vec<u8>> {
        match self {
            NameG::Unset => None,
            NameG::Utf8(s) => Some(s.as_bytes().to_vec()),
            NameG::Raw(b) => Some(b.clone()),
        }
    }
}

#[derive(Debug, Clone, PartialEq, Eq, Hash, Serialize, Deserialize)]
pub enum SpG {
    InStack { page: u16, inpage: u16 },
    Guard { inpage: u16 },
    HoleBelow { pages: u16, inpage: u16 },
}

#[derive(Debug, Clone, PartialEq, Eq, Hash, Serialize, Deserialize)]
pub struct ThreadG {
    pub kind: u8,
    pub name: NameG,
    pub stack_pages: u8,
    pub guard: bool,
    pub sp: SpG,
    pub seed: u64,
}

#[derive(Debug, Clone, PartialEq, Eq, Hash, Serialize, Deserialize)]
pub struct MapG {
    pub pages: u8,
    pub prot: u8,
    pub file: bool,
    pub seed: u64,
    /// pages of anonymous PROT_NONE memory directly behind a file mapping (the linker's reserved range);
    /// addresses "in this mapping" may then lie in the reserved part
    #[serde(default)]
    pub reserved_after: u8,
}

#[derive(Debug, Clone, PartialEq, Eq, Hash, Serialize, Deserialize)]
pub enum AddrG {
    InStackOf(u16, u32),
    InMap(u16, u32),
    Unmapped,
    Zero,
    Top,
    Misaligned(u16),
    /// absolute boundary value
    Abs(u64),
}

#[derive(Debug, Clone, PartialEq, Eq, Hash, Serialize, Deserialize)]
pub struct CrashG {
    pub thread: u16,
    pub rip: AddrG,
    pub rsp: AddrG,
    pub seed: u64,
}

#[derive(Debug, Clone, PartialEq, Eq, Hash, Serialize, Deserialize)]
pub enum LimitG {
    None,
    Tiny,
    Threshold(i8),
    Huge,
}

#[derive(Debug, Clone, PartialEq, Eq, Hash, Serialize, Deserialize)]
pub enum AuxvG {
    None,
    True,
    Zeros,
    Partial(u8),
    /// arbitrary caller-supplied values (phnum, phdr, gate, entry)
    Arbitrary(Vec<u64>),
}

#[derive(Debug, Clone, PartialEq, Eq, Hash, Serialize, Deserialize)]
pub struct OptsG {
    pub crash: Option<CrashG>,
    pub limit: LimitG,
    pub sanitize: bool,
    pub skip: Option<AddrG>,
    pub app: Vec<(u16, u32, u32)>,
    pub user: Vec<(AddrG, u16, Option<String>, Vec<u8>)>,
    pub auxv: AuxvG,
    pub blamed: u16,
}

#[derive(Debug, Clone, PartialEq, Eq, Hash, Serialize, Deserialize)]
pub struct Case {
    pub threads: Vec<ThreadG>,
    pub maps: Vec<MapG>,
    pub fds: Vec<u8>,
    pub opts: OptsG,
}

pub struct Built {
    pub spec: TSpec,
    pub stacks: Vec<StackInfo>,
    pub thread_ids: Vec<u32>,
    pub map_addrs: Vec<(u64, u64, u8)>,
    pub files: Vec<Vec<u8>>,
}

pub fn pick(sel: u16, len: usize) -> usize {
    ((sel as usize) * len) >> 16
}

pub fn build(c: &Case, scratch: &std::path::Path) -> Built {
    let mut b = Builder::new();
    let mut stacks = vec![];
    let mut thread_ids = vec![];
    for t in &c.threads {
        let st = b.add_stack(t.stack_pages.max(1) as u64, t.guard, t.seed);
        let sp = match t.sp {
            SpG::InStack { page, inpage } => {
                let pages = (st.end - st.base) / PAGE;
                st.base + (pick(page, pages as usize) as u64) * PAGE + (inpage as u64 % PAGE)
            }
            SpG::Guard { inpage } => st.base - PAGE + (inpage as u64 % PAGE), // guard page, or hole when no guard
            SpG::HoleBelow { pages, inpage } => st.base - PAGE - (pages as u64 % 400 + 1) * PAGE + (inpage as u64 % PAGE),
        };
        // sleepers/exiters run C code on their pthread stack; the custom stack is simply extra memory
        let id = b.add_thread(t.kind, t.name.bytes(), sp, t.seed);
        if t.kind == K_SPINNER {
            // spinner needs [rsp+8] writable: put sp in the middle of the stack
            let sp_ok = (st.base + (st.end - st.base) / 2) & !15;
            let aux = st.end - 8;
            let th = b.thread_mut(id);
            th.sp = sp_ok;
            th.aux = aux;
        }
        stacks.push(st);
        thread_ids.push(id);
    }
    let mut map_addrs = vec![];
    let mut files = vec![];
    for (i, m) in c.maps.iter().enumerate() {
        let pages = m.pages.max(1) as u64;
        if m.file {
            let path = scratch.join(format!("mapfile-{i}.bin")).to_string_lossy().into_owned().into_bytes();
            let content: Vec<u8> = (0..pages * PAGE).map(|o| pat(o, m.seed | 1)).collect();
            b.spec.files.push((path.clone(), content));
            let addr = b.next_map_addr();
            b.add_file_map_at(addr, pages, m.prot & 7, &path, 0, false);
            let reserved = (m.reserved_after % 4) as u64;
            if reserved > 0 {
                b.add_anon_at(addr + pages * PAGE, reserved, 0, 0);
            }
            map_addrs.push((addr, (pages + reserved) * PAGE, m.prot & 7));
            files.push(path);
        } else {
            let (_, addr) = b.add_anon(pages, m.prot & 7, m.seed | 1);
            map_addrs.push((addr, pages * PAGE, m.prot & 7));
        }
    }
    for (i, f) in c.fds.iter().enumerate() {
        let p = scratch.join(format!("fd-{i}")).to_string_lossy().into_owned().into_bytes();
        b.spec.fds.push(match f % 7 {
            0 => TFd::File(p),
            1 => TFd::Deleted(p),
            2 => TFd::Pipe,
            3 => TFd::Socket,
            4 => TFd::EventFd,
            5 => TFd::Dir(scratch.to_string_lossy().into_owned().into_bytes()),
            _ => TFd::DevNull,
        });
    }
    b.spec.argv = vec![b"arg one".to_vec(), b"".to_vec(), b"\xff\xfe".to_vec()];
    b.spec.env = vec![(b"VERIF".to_vec(), b"1".to_vec())];
    Built { spec: b.spec, stacks, thread_ids, map_addrs, files }
}

pub fn resolve_addr(a: &AddrG, bt: &Built) -> u64 {
    match a {
        AddrG::InStackOf(t, off) => {
            if bt.stacks.is_empty() {
                return 0x1000;
            }
            let s = bt.stacks[pick(*t, bt.stacks.len())];
            s.base + (*off as u64 % (s.end - s.base))
        }
        AddrG::InMap(m, off) => {
            if bt.map_addrs.is_empty() {
                return 0x2000;
            }
            let (a, l, _) = bt.map_addrs[pick(*m, bt.map_addrs.len())];
            a + (*off as u64 % l)
        }
        AddrG::Unmapped => 0x3000_0000_0000,
        AddrG::Zero => 0,
        AddrG::Top => u64::MAX - 7,
        AddrG::Misaligned(o) => {
            if bt.stacks.is_empty() {
                return 0x1001;
            }
            bt.stacks[0].base + (*o as u64 % 4000) * 1 + 1
        }
        AddrG::Abs(a) => *a,
    }
}

pub fn true_auxv(pid: i32) -> [u64; 4] {
    let mut out = [0u64; 4];
    if let Ok(b) = std::fs::read(format!("/proc/{pid}/auxv")) {
        for c in b.chunks(16) {
            if c.len() < 16 {
                break;
            }
            let k = u64::from_le_bytes(c[0..8].try_into().unwrap());
            let v = u64::from_le_bytes(c[8..16].try_into().unwrap());
            match k {
                5 => out[0] = v,
                3 => out[1] = v,
                33 => out[2] = v,
                9 => out[3] = v,
                _ => {}
            }
        }
    }
    out
}

pub fn opts_of(c: &Case, bt: &Built, t: &Target) -> DumpOpts {
    let o = &c.opts;
    let n_threads = c.threads.len() + 1;
    let all_tids: Vec<i32> = std::iter::once(t.pid).chain(bt.thread_ids.iter().map(|id| t.tid(*id))).collect();
    let blamed = all_tids[pick(o.blamed, all_tids.len())];
    let mut d = DumpOpts { blamed, sanitize: o.sanitize, ..Default::default() };
    if let Some(cr) = &o.crash {
        let tid = all_tids[pick(cr.thread, all_tids.len())];
        let mut s = cr.seed;
        let mut gregs: Vec<i64> = (0..23).map(|_| splitmix(&mut s) as i64).collect();
        gregs[REG_RIP] = resolve_addr(&cr.rip, bt) as i64;
        gregs[REG_RSP] = resolve_addr(&cr.rsp, bt) as i64;
        d.crash = Some(CrashContext2 { gregs, fp: fpstate_of_fx(&sentinel_fx(cr.seed)), signo: 11, code: 1, addr: splitmix(&mut s), tid });
        d.blamed = tid;
    }
    let threshold = 252 + 48 * n_threads as u64 + 8192 * n_threads as u64 + 65536;
    d.size_limit = match o.limit {
        LimitG::None => None,
        LimitG::Tiny => Some(1000),
        LimitG::Threshold(k) => Some((threshold as i64 + k as i64) as u64),
        LimitG::Huge => Some(1 << 40),
    };
    if let Some(p) = &o.skip {
        d.skip_unreferenced = true;
        d.principal = Some(resolve_addr(p, bt));
    }
    for (m, off, len) in &o.app {
        // regions inside readable+writable stacks (always readable)
        if bt.stacks.is_empty() {
            continue;
        }
        let s = bt.stacks[pick(*m, bt.stacks.len())];
        let size = s.end - s.base;
        let start = s.base + (*off as u64 % size);
        let l = if *len >= 0xffff_fff0 {
            // hostile caller configuration: absurd lengths
            [u64::MAX, u64::MAX - 4095, 1 << 63, (1 << 63) - 1, 1 << 62, 1 << 47, 1 << 40, u64::MAX / 2 + 1][(*len & 7) as usize]
        } else if *len & 0x8000_0000 != 0 {
            // straddles the end of the mapping: readable head, unmapped tail (a short read for the writer)
            (s.end - start) + 1 + (*len as u64 & 0xfff)
        } else {
            1 + (*len as u64 % (s.end - start))
        };
        d.app_memory.push((start, l));
    }
    for (a, pages, name, id) in &o.user {
        let size = (*pages as u64 % 64 + 1) * PAGE;
        d.user_mappings.push(UserMap {
            // a valid range: start + size does not wrap
            start: (resolve_addr(a, bt) & !0xfff).min(u64::MAX - size - PAGE + 1),
            size,
            name: name.clone(),
            identifier: id.clone(),
            offset: 0,
            perms: 5,
        });
    }
    d.direct_auxv = match o.auxv {
        AuxvG::None => None,
        AuxvG::True => Some(true_auxv(t.pid)),
        AuxvG::Zeros => Some([0; 4]),
        AuxvG::Partial(mask) => {
            let mut a = true_auxv(t.pid);
            for i in 0..4 {
                if mask & (1 << i) != 0 {
                    a[i] = 0;
                }
            }
            Some(a)
        }
        AuxvG::Arbitrary(ref v) => Some([v.first().copied().unwrap_or(0), v.get(1).copied().unwrap_or(0), v.get(2).copied().unwrap_or(0), v.get(3).copied().unwrap_or(0)]),
    };
    d
}

pub fn check(c: &Case) -> Verdict {
    init_scratch();
    let scratch = Target::new_scratch();
    let bt = build(c, &scratch);
    let t = match Target::spawn(&bt.spec, scratch) {
        Ok(t) => t,
        Err(e) => return Verdict::Inconclusive(format!("target setup: {}", e.split(':').next().unwrap_or(""))),
    };
    if !t.wait_settled(&bt.spec) {
        return Verdict::Inconclusive("target did not settle".into());
    }
    let opts = opts_of(c, &bt, &t);
    let mut w = make_writer(t.pid, &opts);
    // a third of the cases: the request judged is a retry - the same writer first made a request that
    // failed (destination error at a call derived from the case)
    let h = fp_json(c);
    let retried = h % 3 == 0;
    if retried {
        let mut failing = Dest::new(vec![], 0).with_fault(crate::vcore::dest::Fault::ErrAt(2 + (h >> 8) % 70));
        if let DumpOutcome::Panic(l, m) = run_dump(&mut w, &mut failing) {
            return panic_verdict(&l, &m);
        }
        if !t.wait_settled(&bt.spec) {
            return Verdict::Inconclusive("target did not settle between two requests".into());
        }
    }
    // the destination may already hold something and stand behind it (a caller-written prefix, an earlier
    // dump in the same file): the image a reader finds there - from the start position on - is judged
    let (prefill, p0): (Vec<u8>, u64) = match (h >> 20) % 5 {
        0 => (vec![0x5a; 1], 1),
        1 => (vec![0x5a; 100], 100),
        2 => (vec![0x5a; 4096 + ((h >> 24) % 64) as usize], 4096),
        _ => (vec![], 0),
    };
    // ... and it may accept writes only in pieces (a pipe-backed or quota-limited file, a chunking sink)
    let piece = if (h >> 28) % 4 == 0 { Some(1 + ((h >> 32) % 6000) as usize) } else { None };
    let mut dest = Dest::new(prefill.clone(), p0).with_max_write(piece);
    let out = run_dump(&mut w, &mut dest);
    let img = match out {
        DumpOutcome::Ok(v) => {
            let stored = dest.data();
            if stored.len() < p0 as usize || stored[..p0 as usize] != prefill[..p0 as usize] {
                return Verdict::viol("C01:destination:bytes-before-the-image-modified", format!("the {p0} bytes before the start position were modified"));
            }
            // what the file holds is the image; the returned copy must be the same bytes
            if stored[p0 as usize..] != v[..] {
                let on_disk = md::decode(&stored[p0 as usize..]);
                if let Some(p) = md::structural_problems(&on_disk, Some(18)).first() {
                    return Verdict::viol(format!("C01:destination:{}", p.sig), format!("image found at the destination's start position {p0}: {}", p.detail));
                }
                return Verdict::viol("C01:destination:differs-from-returned-image", format!("the image stored from position {p0} on ({} bytes) is not the returned image ({} bytes)", stored.len() - p0 as usize, v.len()));
            }
            v
        }
        DumpOutcome::Err(e) => {
            let tag = e.split('(').next().unwrap_or("").to_string();
            if std::env::var("VERIF_DEBUG").is_ok() {
                eprintln!("dump error: {e}");
            }
            return Verdict::pass_c(None, vec![format!("dump-error:{tag}")]);
        }
        DumpOutcome::Panic(loc, msg) => return panic_verdict(&loc, &msg),
    };
    let d = md::decode(&img);
    let probs = md::structural_problems(&d, Some(18));
    if let Some(p) = probs.first() {
        return Verdict::viol(format!("C01:{}", p.sig), format!("{} (and {} more problems)", p.detail, probs.len() - 1));
    }
    // all 18 entries present or zero; record which are unused
    let mut classes = vec![];
    let named = c.threads.iter().filter(|t| matches!(t.name, NameG::Utf8(_))).count();
    let unnamed = c.threads.iter().filter(|t| matches!(t.name, NameG::Raw(_))).count();
    let n_opts = [opts.crash.is_some(), opts.size_limit.is_some(), opts.sanitize, opts.skip_unreferenced, !opts.app_memory.is_empty(), !opts.user_mappings.is_empty(), opts.direct_auxv.is_some()]
        .iter()
        .filter(|b| **b)
        .count();
    if named > 0 && unnamed > 0 {
        classes.push("mixed-names".to_string());
    }
    classes.push(format!("options:{n_opts}"));
    if d.dirs.iter().any(|e| e.stream_type == 0) {
        classes.push("has-unused-entry".into());
    }
    if p0 != 0 {
        classes.push("destination-positioned-behind-existing-content".into());
    }
    if piece.is_some() {
        classes.push("destination-accepts-writes-in-pieces".into());
    }
    let nt = (c.threads.len() >= 2 && named > 0 && unnamed > 0) || n_opts >= 3 || !opts.user_mappings.is_empty() || !opts.app_memory.is_empty();
    Verdict::pass_c(if nt { Some(fp_json(c)) } else { None }, classes)
}

pub fn name_strategy() -> impl Strategy<Value = NameG> {
    prop_oneof![
        1 => Just(NameG::Unset),
        4 => crate::props::c15::name_strategy().prop_map(NameG::Utf8),
        2 => proptest::collection::vec(prop_oneof![0x80u8..=0xff, 0x20u8..0x7f], 1..15).prop_map(NameG::Raw),
    ]
}

pub fn sp_strategy() -> impl Strategy<Value = SpG> {
    let inpage = prop_oneof![3 => 0u16..4096, 1 => 2040u16..2057, 1 => 4088u16..4096];
    prop_oneof![
        6 => (any::<u16>(), inpage.clone()).prop_map(|(page, inpage)| SpG::InStack { page, inpage }),
        1 => inpage.clone().prop_map(|inpage| SpG::Guard { inpage }),
        1 => (0u16..300, inpage).prop_map(|(pages, inpage)| SpG::HoleBelow { pages, inpage }),
    ]
}

pub fn thread_strategy() -> impl Strategy<Value = ThreadG> {
    (
        prop_oneof![6 => Just(K_PARKED), 1 => Just(K_SPINNER), 2 => Just(K_SLEEPER), 1 => Just(K_NULLSP)],
        name_strategy(),
        1u8..9,
        any::<bool>(),
        sp_strategy(),
        any::<u64>(),
    )
        .prop_map(|(kind, name, stack_pages, guard, sp, seed)| ThreadG { kind, name, stack_pages, guard, sp, seed })
}

pub fn addr_strategy() -> impl Strategy<Value = AddrG> {
    prop_oneof![
        4 => (any::<u16>(), any::<u32>()).prop_map(|(a, b)| AddrG::InStackOf(a, b)),
        3 => (any::<u16>(), any::<u32>()).prop_map(|(a, b)| AddrG::InMap(a, b)),
        1 => Just(AddrG::Unmapped),
        1 => Just(AddrG::Zero),
        1 => Just(AddrG::Top),
        1 => any::<u16>().prop_map(AddrG::Misaligned),
        2 => prop_oneof![
            Just(1u64), Just(4095u64), Just(0x7fff_ffff_fff8u64), Just(0x8000_0000_0000u64), Just(0xffff_8000_0000_0000u64),
            Just(0xffff_ffff_ff60_0000u64), Just(0xffff_ffff_ff60_0800u64), (0u64..0x20_0000).prop_map(|d| u64::MAX - d), Just(u64::MAX - 4095), Just(u64::MAX),
        ].prop_map(AddrG::Abs),
    ]
}

pub fn opts_strategy() -> impl Strategy<Value = OptsG> {
    (
        proptest::option::weighted(0.5, (any::<u16>(), addr_strategy(), addr_strategy(), any::<u64>()).prop_map(|(thread, rip, rsp, seed)| CrashG { thread, rip, rsp, seed })),
        prop_oneof![3 => Just(LimitG::None), 1 => Just(LimitG::Tiny), 2 => (-1i8..2).prop_map(LimitG::Threshold), 1 => Just(LimitG::Huge)],
        any::<bool>(),
        proptest::option::weighted(0.3, addr_strategy()),
        proptest::collection::vec((any::<u16>(), any::<u32>(), prop_oneof![2 => Just(0u32), 2 => Just(7u32), 4 => 0u32..5000, 3 => 0u32..0x7fff_ffff, 2 => 0x8000_0000u32..0x8000_1000, 1 => 0xffff_fff0u32..=0xffff_ffff]), 0..5),
        proptest::collection::vec((addr_strategy(), any::<u16>(), proptest::option::of(proptest::collection::vec(prop_oneof![Just('/'), Just(' '), Just('.'), (b'a'..=b'z').prop_map(|c| c as char)], 0..12).prop_map(|v| v.into_iter().collect::<String>())), proptest::collection::vec(any::<u8>(), 0..24)), 0..4),
        prop_oneof![
            3 => Just(AuxvG::None),
            2 => Just(AuxvG::True),
            1 => Just(AuxvG::Zeros),
            2 => (1u8..15).prop_map(AuxvG::Partial),
            2 => proptest::collection::vec(prop_oneof![any::<u64>(), Just(0u64), Just(1u64), Just(u64::MAX), Just(1u64 << 61), (0u64..0x7fff_ffff_ffff), Just(STACK_AREA + 0x20_0000)], 4).prop_map(AuxvG::Arbitrary)
        ],
        any::<u16>(),
    )
        .prop_map(|(crash, limit, sanitize, skip, app, user, auxv, blamed)| OptsG { crash, limit, sanitize, skip, app, user, auxv, blamed })
}

pub fn case_strategy(max_threads: usize) -> impl Strategy<Value = Case> {
    (
        proptest::collection::vec(thread_strategy(), 0..max_threads),
        proptest::collection::vec((1u8..5, prop_oneof![3 => 0u8..8, 1 => Just(5u8)], any::<bool>(), any::<u64>(), prop_oneof![2 => Just(0u8), 1 => 1u8..4]).prop_map(|(pages, prot, file, seed, reserved_after)| MapG { pages, prot, file, seed, reserved_after }), 0..7),
        proptest::collection::vec(any::<u8>(), 0..41),
        opts_strategy(),
    )
        .prop_map(|(mut threads, maps, fds, opts)| {
            // at most two CPU-burning threads per target
            let mut burners = 0;
            for t in threads.iter_mut() {
                if t.kind == K_SPINNER || t.kind == K_NULLSP {
                    burners += 1;
                    if burners > 2 {
                        t.kind = K_PARKED;
                    }
                }
            }
            Case { threads, maps, fds, opts }
        })
}

/// Structure of the DSO debug stream produced from generated linker data
/// (direct call of the stream writer on the arena engine).
pub fn check_dso_stream(c: &crate::vcore::dso::DsoCase) -> Verdict {
    let (r, exp) = match crate::props::c02::run_dso(c) {
        Ok(x) => x,
        Err(e) => return Verdict::Inconclusive(format!("arena: {e}")),
    };
    match r {
        Ok((img, rva, size)) => {
            let d = md::decode_one(&img, md::ST_LINUX_DSO_DEBUG, rva as u64, size as u64);
            let mut probs = d.problems.clone();
            for (a, b) in d.overlaps() {
                probs.push(md::Problem { sig: format!("overlap:{}/{}", a.kind, b.kind), detail: format!("{a:?} {b:?}") });
            }
            if let Some(p) = probs.first() {
                return Verdict::viol(format!("C01:dso:{}", p.sig), p.detail.clone());
            }
            if img[..24].iter().any(|b| *b != 0xEE) {
                return Verdict::viol("C01:dso:earlier-bytes-modified", "bytes before the stream changed".to_string());
            }
            let n = d.dso.as_ref().map(|s| s.count).unwrap_or(0);
            Verdict::pass_c(Some(fp_json(c)), vec![if exp.well_formed { "well-formed".into() } else { "hostile-but-ok".into() }, format!("links:{}", n.min(3))])
        }
        Err(_) => Verdict::pass_c(None, vec!["stream-failed".into()]),
    }
}

pub fn run(ctx: &mut LaneCtx) {
    ctx.run_sub(
        SubSpec {
            name: "dso-stream",
            cases: (8_000, 300_000),
            rule: "generated (valid and corrupted) linker data in the arena helper through write_dso_debug_stream; whenever it succeeds the produced stream must lie inside the image with size 36+16k, its link-map array and every name string inside the image, no overlap, earlier bytes untouched; non-trivial = stream produced; distinct = hash of case",
            strategy: crate::vcore::dso::dso_strategy().boxed(),
            max_shrink_iters: 600,
            log_current: true,
        },
        check_dso_stream,
    );
    ctx.assume("only successful dumps are judged (a returned error is counted as class dump-error:*); decoder sizes are hand-written from the format definition");
    ctx.run_sub(
        SubSpec {
            name: "live-structure",
            cases: (1_600, 60_000),
            rule: "generated target processes (main + 0..63 threads: parked/spinner/sleeper/null-sp, names unset/UTF-8/non-UTF-8, custom stacks with sp in stack/guard/hole) x extra mappings x 0..40 open descriptors x writer options (crash context with boundary rip/rsp, size limit none/tiny/threshold+-1/huge, sanitize, skip-unreferenced, app memory, user mappings, direct auxv); the destination is empty or positioned behind 1 / 100 / 4096 bytes of existing content, a quarter of the destinations accept at most 1..6000 bytes per write call, and the image found at the destination is the one judged; successful images are decoded strictly (18 entries, exact stream sizes, all RVAs, no overlap); non-trivial = dump succeeded and (mixed named/unnamed threads, or >=3 options, or user mappings/app memory); distinct = hash of case",
            strategy: case_strategy(if ctx.tier == Tier::Quick { 24 } else { 64 }).boxed(),
            max_shrink_iters: 200,
            log_current: true,
        },
        check,
    );
}

pub fn replay(sub: &str, case: &Value) -> Verdict {
    match sub {
        "live-structure" => replay_case::<Case>(case, check),
        "dso-stream" => replay_case::<crate::vcore::dso::DsoCase>(case, check_dso_stream),
        _ => Verdict::Inconclusive(format!("unknown sub {sub}")),
    }
}
