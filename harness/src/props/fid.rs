//! Shared live "fidelity" scenario for C04 (thread list), C05 (crash
//! attribution), C06 (stacks) and C07 (memory list): a generated target whose
//! ground truth is known by construction and re-read from /proc while the
//! target is blocked, dumped by the real writer, decoded by the strict decoder.

use crate::fw::*;
use crate::props::c01::{pick, NameG, SpG};
use crate::vcore::dest::Dest;
use crate::vcore::md;
use crate::vcore::regs::*;
use crate::vcore::target::*;
use crate::vcore::world::*;
use proptest::prelude::*;
use serde::{Deserialize, Serialize};
use std::collections::BTreeMap;

#[derive(Debug, Clone, PartialEq, Eq, Hash, Serialize, Deserialize)]
pub struct FThread {
    pub kind: u8,
    pub name: NameG,
    pub stack_pages: u8,
    pub guard: bool,
    pub sp: SpG,
    pub seed: u64,
}

#[derive(Debug, Clone, PartialEq, Eq, Hash, Serialize, Deserialize)]
pub enum RipG {
    /// offset from the start of the isolated executable mapping
    FromStart(u16),
    /// offset back from its end
    FromEnd(u16),
    Mid,
    Outside,
}

#[derive(Debug, Clone, PartialEq, Eq, Hash, Serialize, Deserialize)]
pub enum BlamedG {
    Main,
    Thread(u16),
    /// the dumping process itself (a thread id that is not part of the target)
    Foreign,
}

#[derive(Debug, Clone, PartialEq, Eq, Hash, Serialize, Deserialize)]
pub struct FCrash {
    pub rip: RipG,
    /// stack pointer of the crash context: inside the blamed thread's custom stack
    pub rsp_page: u16,
    pub rsp_inpage: u16,
    pub seed: u64,
    pub signo: u32,
    pub code: i32,
    pub addr: u64,
    /// the thread id stored inside the crash context itself (filled in by the crashed process;
    /// the dump is attributed by the caller's blamed thread, not by this field)
    #[serde(default)]
    pub ctx_tid: CtxTid,
}

#[derive(Debug, Clone, Default, PartialEq, Eq, Hash, Serialize, Deserialize)]
pub enum CtxTid {
    #[default]
    Blamed,
    Zero,
    /// the id of another thread of the target
    Other(u16),
    Arbitrary(i32),
}

#[derive(Debug, Clone, PartialEq, Eq, Hash, Serialize, Deserialize)]
pub enum LimitG {
    None,
    /// relative to the estimate threshold
    Around(i32),
    Tiny,
    Huge,
    /// at the top of the value range: u64::MAX ("no limit" in a signed reading), u64::MAX - 1, 2^63,
    /// 2^63 + 2^40, 2^63 - 1
    Top(u8),
}

#[derive(Debug, Clone, PartialEq, Eq, Hash, Serialize, Deserialize)]
pub struct FApp {
    pub map: u16,
    pub off: u32,
    pub len: u32,
    /// end exactly at the last byte of the mapping (adjacent to an unmapped/PROT_NONE page)
    pub to_end: bool,
}

#[derive(Debug, Clone, PartialEq, Eq, Hash, Serialize, Deserialize)]
pub struct FCase {
    pub threads: Vec<FThread>,
    pub blamed: BlamedG,
    pub crash: Option<FCrash>,
    pub limit: LimitG,
    /// pages of each pattern-filled app mapping; bool = followed by a PROT_NONE page
    pub app_maps: Vec<(u16, bool)>,
    pub app: Vec<FApp>,
    pub ip_map_pages: u8,
    pub stop_failspot: bool,
    pub cue_exiters: bool,
    /// separate (differently protected) mappings directly below / above the crash-ip mapping
    #[serde(default)]
    pub ip_neighbors: (bool, bool),
    /// take the dump twice with the same writer and judge the second image
    #[serde(default)]
    pub second_dump: bool,
    /// one more thread that spins in user space with an odd value in its stack pointer
    /// (all ones, 1, 7, 2^63, a kernel address): it is a live, attachable thread like any other
    #[serde(default)]
    pub odd_sp: Option<u8>,
    /// one more parked thread whose stack lies in a file mapped as [rw 2 pages][PROT_NONE page][rw page]
    /// (three lines of the same file, merged into one module by the writer): the readable run above the
    /// stack pointer ends at the PROT_NONE page.  (in-page selector, sp in the second page?)
    #[serde(default)]
    pub file_stack: Option<(u8, bool)>,
    /// one more application region inside a pattern-filled mapping that is then made PROT_NONE (the fast
    /// read path fails there and the writer falls back to /proc/pid/mem): (pages, offset, length)
    #[serde(default)]
    pub sealed_app: Option<(u8, u32, u32)>,
    /// the kernel refuses the register-set interface to the dumping thread for the general-purpose set
    /// (bit 0) and/or the floating-point set (bit 1): the writer's second interface has to answer
    #[serde(default)]
    pub refuse_regsets: u8,
    /// skip-unreferenced is requested with a principal address inside the crash-ip mapping, into which
    /// every parked thread's stack then holds a pointer (slot 1..4 above its stack pointer): their stacks
    /// are kept and must be as faithful as without the option
    #[serde(default)]
    pub skip_principal: Option<u8>,
}

pub const ODD_SPS: [u64; 6] = [u64::MAX, 1, 7, 1 << 63, 0xffff_8000_0000_0000, u64::MAX - 7];

pub struct Obs {
    pub pid: i32,
    pub case_threads: Vec<(u32, i32, u8)>, // (id, tid, kind) of generated threads
    pub planned_sp: BTreeMap<i32, u64>,
    pub planned_regs: BTreeMap<i32, (Vec<u64>, Vec<u8>)>,
    pub spinner_aux: BTreeMap<i32, u64>,
    pub spinner_start: BTreeMap<i32, u64>,
    pub syms: BTreeMap<String, u64>,
    pub gone: Vec<i32>,
    pub blamed: i32,
    pub crash: Option<CrashContext2>,
    pub app_regions: Vec<(u64, u64)>,
    pub ip_map: (u64, u64),
    pub maps_before: Vec<MapLine>,
    pub limit: Option<u64>,
    pub img: Vec<u8>,
    pub d: md::Decoded,
    pub target: Target,
    pub soft_errors: serde_json::Value,
    /// memory read before the dump for every region the dump captured is re-read after
    pub stacks: Vec<StackInfo>,
}

#[derive(Debug, Clone, PartialEq, Eq)]
pub struct MapLine {
    pub start: u64,
    pub end: u64,
    pub perms: u8,
    pub name: String,
}

pub fn parse_maps(text: &[u8]) -> Vec<MapLine> {
    let mut v = vec![];
    for l in String::from_utf8_lossy(text).lines() {
        let mut it = l.splitn(6, ' ');
        let (Some(range), Some(perms)) = (it.next(), it.next()) else { continue };
        let Some((a, b)) = range.split_once('-') else { continue };
        let (Ok(start), Ok(end)) = (u64::from_str_radix(a, 16), u64::from_str_radix(b, 16)) else { continue };
        let pb = perms.as_bytes();
        let p = (pb.first() == Some(&b'r')) as u8 | ((pb.get(1) == Some(&b'w')) as u8) << 1 | ((pb.get(2) == Some(&b'x')) as u8) << 2 | ((pb.get(3) == Some(&b's')) as u8) << 3;
        let name = it.nth(3).unwrap_or("").trim().to_string();
        v.push(MapLine { start, end, perms: p, name });
    }
    v
}

pub enum RunErr {
    Inconclusive(String),
    DumpErr(String),
    Panic(String, String),
}

pub fn run_case(c: &FCase) -> Result<Obs, RunErr> {
    init_scratch();
    let scratch = Target::new_scratch();
    let mut b = Builder::new();
    let mut stacks = vec![];
    let mut ids = vec![];
    for t in &c.threads {
        let st = b.add_stack(t.stack_pages.max(1) as u64, t.guard, t.seed);
        let pages = (st.end - st.base) / PAGE;
        let mut sp = match t.sp {
            SpG::InStack { page, inpage } => st.base + (pick(page, pages as usize) as u64) * PAGE + (inpage as u64 % PAGE),
            SpG::Guard { inpage } => st.base - PAGE + (inpage as u64 % PAGE),
            SpG::HoleBelow { pages, inpage } => st.base - PAGE - (pages as u64 % 400 + 1) * PAGE + (inpage as u64 % PAGE),
        };
        let id = b.add_thread(t.kind, t.name.bytes(), sp, t.seed);
        if t.kind == K_SPINNER {
            sp = ((st.base + (st.end - st.base) / 2) & !15) + 8 * (t.seed % 2);
            sp = sp.min(st.end - 16);
            let th = b.thread_mut(id);
            th.sp = sp;
            th.aux = 0; // set below: app word
        }
        if t.kind == K_PARKED {
            // most stacks are rw-; some are rwx (execstack programs, coroutine stacks allocated with
            // PROT_EXEC) and some are read-only by the time of the dump
            let prot = match t.seed % 9 {
                2 => 7,
                5 => 1,
                _ => 3,
            };
            if let Some(m) = b.spec.maps.iter_mut().find(|m| m.id == st.map_id) {
                m.prot = prot;
            }
        }
        if t.kind == K_PARKED && t.seed % 3 == 0 {
            // every third parked thread has a GS base of its own (its GS selector stays 0)
            b.thread_mut(id).aux = (t.seed.wrapping_mul(0x9E37_79B9_7F4A_7C15) & 0x3fff_ffff_ffff) | 0x1_0000_0001;
        }
        stacks.push(st);
        ids.push((id, t.kind, sp));
    }
    if let Some((sel, second)) = c.file_stack {
        use std::os::unix::ffi::OsStrExt;
        let path = scratch.join("stackfile.bin").as_os_str().as_bytes().to_vec();
        let content: Vec<u8> = (0..4 * PAGE).map(|o| crate::vcore::target::pat(o, 0xF57A)).collect();
        b.spec.files.push((path.clone(), content));
        let addr = b.next_map_addr();
        let m0 = b.add_file_map_at(addr, 2, 3, &path, 0, false);
        b.add_file_map_at(addr + 2 * PAGE, 1, 0, &path, 2, false);
        b.add_file_map_at(addr + 3 * PAGE, 1, 3, &path, 3, false);
        let sp = addr + (second as u64) * PAGE + (sel as u64 * 16) % PAGE;
        let id = b.add_thread(K_PARKED, Some(b"fstack".to_vec()), sp, 0xF57A);
        stacks.push(StackInfo { map_id: m0, base: addr, end: addr + 2 * PAGE, guard: None });
        ids.push((id, K_PARKED, sp));
    }
    if let Some(sel) = c.odd_sp {
        let st = b.add_stack(1, false, 0x0dd);
        let sp = ODD_SPS[sel as usize % ODD_SPS.len()];
        let id = b.add_thread(K_ODDSP, Some(b"oddsp".to_vec()), sp, 0x0dd);
        stacks.push(st);
        ids.push((id, K_ODDSP, sp));
    }
    // app mappings (pattern filled), each isolated by holes; optional PROT_NONE page right after
    let mut app_maps = vec![];
    for (pages, guard_after) in &c.app_maps {
        let pages = (*pages as u64 % 300) + 1;
        let (_, addr) = b.add_anon(pages, 3, 0xA11C_E000 + pages);
        if *guard_after {
            b.add_anon_at(addr + pages * PAGE, 1, 0, 0);
        }
        app_maps.push((addr, pages * PAGE));
    }
    let mut sealed: Option<(u64, u64)> = None;
    if let Some((pages, _, _)) = c.sealed_app {
        let pages = pages as u64 % 40 + 1;
        let (_, addr) = b.add_anon(pages, 0, 0x5EA1_ED00 + pages);
        sealed = Some((addr, pages * PAGE));
    }
    // spinner words live in a dedicated rw mapping
    let (_, spin_words) = b.add_anon(1, 3, 0);
    let mut k = 0;
    for (id, kind, _) in &ids {
        if *kind == K_SPINNER {
            b.thread_mut(*id).aux = spin_words + 64 * k;
            k += 1;
        }
    }
    // isolated executable mapping for the crash instruction pointer
    let ip_pages = (c.ip_map_pages as u64 % 4) + 1;
    let (_, ip_addr0) = b.add_anon(ip_pages + 2, 5, 0x1517_0000);
    // re-place: [neighbor below rw-][ip mapping r-x][neighbor above rw-], neighbors optional
    b.spec.maps.pop();
    let ip_addr = ip_addr0 + PAGE;
    if c.ip_neighbors.0 {
        b.add_anon_at(ip_addr - PAGE, 1, 3, 0x0BE1_0000);
    }
    b.add_anon_at(ip_addr, ip_pages, 5, 0x1517_0000);
    if c.ip_neighbors.1 {
        b.add_anon_at(ip_addr + ip_pages * PAGE, 1, 3, 0x0AB0_0000);
    }
    if let Some(k) = c.skip_principal {
        for ((id, kind, sp), st) in ids.iter().zip(stacks.iter()) {
            let _ = id;
            let at = ((sp + 7) & !7) + 8 * (1 + k as u64 % 4);
            if *kind == K_PARKED && at >= st.base && at + 8 <= st.end {
                b.spec.pokes.push((at, ip_addr + 0x10));
            }
        }
    }
    let spec = b.spec.clone();
    let mut t = Target::spawn(&spec, scratch).map_err(|e| RunErr::Inconclusive(format!("target setup: {}", e.split(':').next().unwrap_or(""))))?;
    if !t.wait_settled(&spec) {
        return Err(RunErr::Inconclusive("target did not settle".into()));
    }
    let pid = t.pid;
    let case_threads: Vec<(u32, i32, u8)> = ids.iter().map(|(id, k, _)| (*id, t.tid(*id), *k)).collect();
    let planned_sp: BTreeMap<i32, u64> = ids.iter().filter(|(_, k, _)| *k == K_PARKED || *k == K_SPINNER || *k == K_ODDSP).map(|(id, _, sp)| (t.tid(*id), *sp)).collect();
    let planned_regs: BTreeMap<i32, (Vec<u64>, Vec<u8>)> = spec.threads.iter().map(|th| (t.tid(th.id), (th.regs.clone(), th.fx.clone().unwrap_or_default()))).collect();
    let spinner_aux: BTreeMap<i32, u64> = spec.threads.iter().filter(|th| th.kind == K_SPINNER).map(|th| (t.tid(th.id), th.aux)).collect();
    let spinner_start: BTreeMap<i32, u64> = spec.threads.iter().filter(|th| th.kind == K_SPINNER).map(|th| (t.tid(th.id), th.regs[12])).collect();

    // blamed thread
    let candidates: Vec<i32> = std::iter::once(pid).chain(case_threads.iter().filter(|(_, _, k)| *k != K_NULLSP).map(|(_, tid, _)| *tid)).collect();
    let blamed = match c.blamed {
        BlamedG::Main => pid,
        BlamedG::Thread(s) => candidates[pick(s, candidates.len())],
        BlamedG::Foreign => std::process::id() as i32,
    };
    // app regions
    let mut app_regions = vec![];
    if !matches!(c.blamed, BlamedG::Foreign) {
        for a in &c.app {
            if app_maps.is_empty() {
                break;
            }
            let (addr, len) = app_maps[pick(a.map, app_maps.len())];
            let off = a.off as u64 % len;
            let l = if a.to_end { len - off } else { 1 + (a.len as u64 % (len - off)) };
            app_regions.push((addr + off, l));
            // duplicates and nested regions: now and then the same region is registered twice, or a
            // second one starts inside it
            match (a.off ^ a.len) % 11 {
                0 => app_regions.push((addr + off, l)),
                1 if l > 2 => app_regions.push((addr + off + l / 2, 1 + (a.len as u64 % (l - l / 2)))),
                _ => {}
            }
        }
    }
    if k > 0 && !matches!(c.blamed, BlamedG::Foreign) {
        app_regions.push((spin_words, 64 * k));
    }
    if let (Some((addr, len)), Some((_, off, l)), false) = (sealed, c.sealed_app, matches!(c.blamed, BlamedG::Foreign)) {
        let off = off as u64 % len;
        app_regions.push((addr + off, 1 + l as u64 % (len - off)));
    }
    // crash context
    let ip_end = ip_addr + ip_pages * PAGE;
    let crash = c.crash.as_ref().map(|cr| {
        let mut s = cr.seed;
        let mut gregs: Vec<i64> = (0..23).map(|_| splitmix(&mut s) as i64).collect();
        gregs[REG_RIP] = match cr.rip {
            RipG::FromStart(o) => ip_addr + (o as u64 % (ip_end - ip_addr)),
            RipG::FromEnd(o) => ip_end - 1 - (o as u64 % (ip_end - ip_addr)),
            RipG::Mid => (ip_addr + ip_end) / 2,
            RipG::Outside => 0x3000_0000_0000,
        } as i64;
        // rsp: inside the custom stack of the blamed thread when it has one, else inside the first stack
        let st = case_threads.iter().position(|(_, tid, _)| *tid == blamed).map(|i| stacks[i]).or_else(|| stacks.first().copied());
        gregs[REG_RSP] = match st {
            Some(st) => {
                let pages = (st.end - st.base) / PAGE;
                if cr.seed % 6 == 0 {
                    // a stack-overflow-shaped context: the stack pointer lies just below the stack, in its
                    // guard page or in the hole under it
                    (st.base - 8 - (cr.rsp_inpage as u64 % 0xff8)) as i64
                } else {
                    (st.base + (pick(cr.rsp_page, pages as usize) as u64) * PAGE + (cr.rsp_inpage as u64 % PAGE)) as i64
                }
            }
            None => 0x3000_0000_1000u64 as i64,
        };
        let ctx_tid = match cr.ctx_tid {
            CtxTid::Blamed => blamed,
            CtxTid::Zero => 0,
            CtxTid::Other(k) => candidates[pick(k, candidates.len())],
            CtxTid::Arbitrary(v) => v,
        };
        CrashContext2 { gregs, fp: fpstate_of_fx(&sentinel_fx(cr.seed)), signo: cr.signo, code: cr.code, addr: cr.addr, tid: ctx_tid }
    });
    let n_threads = candidates.len() as u64 + case_threads.iter().filter(|(_, _, k)| *k == K_NULLSP).count() as u64;
    let n_listed = candidates.len() as u64; // null-sp threads are dropped before the thread list is written
    let _ = n_threads;
    let threshold = 252 + 48 * n_listed + 8192 * n_listed + 65536;
    let limit = match c.limit {
        LimitG::None => None,
        LimitG::Around(k) => Some((threshold as i64 + k as i64).max(1) as u64),
        LimitG::Tiny => Some(1),
        LimitG::Huge => Some(1 << 40),
        LimitG::Top(k) => Some([u64::MAX, u64::MAX - 1, 1 << 63, (1 << 63) + (1 << 40), (1 << 63) - 1][k as usize % 5]),
    };
    let opts = DumpOpts { blamed, crash: crash.clone(), size_limit: limit, app_memory: app_regions.clone(), skip_unreferenced: c.skip_principal.is_some(), principal: c.skip_principal.map(|_| ip_addr + 0x20), ..Default::default() };
    let maps_before = parse_maps(&t.maps_text().unwrap_or_default());
    // exiters vanish between enumeration and attach (only possible when the process is not stopped)
    let failmask = if c.stop_failspot { FS_STOP } else { 0 };
    let exiters: Vec<(i32, i32)> = if c.cue_exiters && c.stop_failspot {
        case_threads.iter().filter(|(_, tid, k)| *k == K_EXITER && *tid != blamed).map(|(id, tid, _)| (*tid, t.pipes[id].1)).collect()
    } else {
        vec![]
    };
    let ex2 = exiters.clone();
    let hook = Box::new(move |p: minidump_writer::verif_hooks::Point| {
        if p == minidump_writer::verif_hooks::Point::ThreadsEnumerated {
            for (tid, wfd) in &ex2 {
                cue_and_wait(pid, *tid, *wfd);
            }
        }
    });
    let mut w = make_writer(pid, &opts);
    let mut dest = Dest::new(vec![], 0);
    if c.second_dump && exiters.is_empty() {
        // a writer may be reused: the request judged below is then the second one
        let mut first = Dest::new(vec![], 0);
        // the first request blames the main thread (always present); the judged one the generated thread
        w.blamed_thread = pid;
        match with_failspots(failmask, || run_dump(&mut w, &mut first)) {
            DumpOutcome::Panic(l, m) => return Err(RunErr::Panic(l, m)),
            _ => {}
        }
        w.blamed_thread = blamed;
        if !t.wait_settled(&spec) {
            return Err(RunErr::Inconclusive("target did not settle between two dumps".into()));
        }
    }
    let out = with_refused_regsets(c.refuse_regsets, || with_failspots(failmask, || with_hook(hook, || run_dump(&mut w, &mut dest))));
    let img = match out {
        DumpOutcome::Ok(v) => v,
        DumpOutcome::Err(e) => return Err(RunErr::DumpErr(e)),
        DumpOutcome::Panic(l, m) => return Err(RunErr::Panic(l, m)),
    };
    let d = md::decode(&img);
    let soft_errors = crate::props::c11::soft_errors_of(&img, &d).unwrap_or(serde_json::Value::Null);
    let _ = &mut t;
    Ok(Obs {
        pid,
        case_threads,
        planned_sp,
        planned_regs,
        spinner_aux,
        spinner_start,
        syms: t.syms.clone(),
        gone: exiters.iter().map(|(t, _)| *t).collect(),
        blamed,
        crash,
        app_regions,
        ip_map: (ip_addr, ip_end),
        maps_before,
        limit,
        img,
        d,
        target: t,
        soft_errors,
        stacks,
    })
}

impl Obs {
    pub fn bytes(&self, loc: md::Loc) -> &[u8] {
        &self.img[loc.rva as usize..(loc.rva + loc.size) as usize]
    }
    pub fn ctx_of(&self, loc: md::Loc) -> Option<md::Ctx> {
        if loc.size == 0 || (loc.rva as u64 + loc.size as u64) > self.img.len() as u64 {
            return None;
        }
        md::parse_ctx(self.bytes(loc))
    }
    pub fn kind_of(&self, tid: i32) -> Option<u8> {
        self.case_threads.iter().find(|(_, t, _)| *t == tid).map(|(_, _, k)| *k)
    }
}

pub fn thread_strategy() -> impl Strategy<Value = FThread> {
    (
        prop_oneof![8 => Just(K_PARKED), 1 => Just(K_SPINNER), 2 => Just(K_SLEEPER), 1 => Just(K_NULLSP), 2 => Just(K_EXITER)],
        crate::props::c01::name_strategy(),
        prop_oneof![4 => 1u8..5, 1 => 5u8..65],
        any::<bool>(),
        crate::props::c01::sp_strategy(),
        any::<u64>(),
    )
        .prop_map(|(kind, name, stack_pages, guard, sp, seed)| FThread { kind, name, stack_pages, guard, sp, seed })
}

pub fn case_strategy(max_threads: usize, min_threads: usize) -> impl Strategy<Value = FCase> {
    (
        proptest::collection::vec(thread_strategy(), min_threads..max_threads),
        prop_oneof![3 => Just(BlamedG::Main), 5 => any::<u16>().prop_map(BlamedG::Thread), 1 => Just(BlamedG::Foreign)],
        proptest::option::weighted(
            0.55,
            (
                prop_oneof![
                    2 => prop_oneof![Just(0u16), Just(1), Just(127), Just(128), Just(129), 0u16..300].prop_map(RipG::FromStart),
                    2 => prop_oneof![Just(0u16), Just(1), Just(127), Just(128), Just(129), 0u16..300].prop_map(RipG::FromEnd),
                    1 => Just(RipG::Mid),
                    1 => Just(RipG::Outside)
                ],
                any::<u16>(),
                prop_oneof![3 => 0u16..4096, 1 => 2040u16..2057, 1 => 4088u16..4096],
                any::<u64>(),
                any::<u32>(),
                any::<i32>(),
                any::<u64>(),
                prop_oneof![4 => Just(CtxTid::Blamed), 1 => Just(CtxTid::Zero), 2 => any::<u16>().prop_map(CtxTid::Other), 1 => any::<i32>().prop_map(CtxTid::Arbitrary)],
            )
                .prop_map(|(rip, rsp_page, rsp_inpage, seed, signo, code, addr, ctx_tid)| FCrash { rip, rsp_page, rsp_inpage, seed, signo, code, addr, ctx_tid }),
        ),
        prop_oneof![3 => Just(LimitG::None), 3 => (-3i32..4).prop_map(LimitG::Around), 2 => Just(LimitG::Tiny), 1 => Just(LimitG::Huge), 1 => any::<u8>().prop_map(LimitG::Top)],
        proptest::collection::vec((prop_oneof![3 => 0u16..4, 1 => 0u16..300], any::<bool>()), 0..4),
        proptest::collection::vec(
            (any::<u16>(), any::<u32>(), prop_oneof![Just(0u32), Just(6u32), Just(7u32), Just(8u32), 4094u32..4098, any::<u32>()], proptest::bool::weighted(0.3)).prop_map(|(map, off, len, to_end)| FApp { map, off, len, to_end }),
            0..9,
        ),
        any::<u8>(),
        proptest::bool::weighted(0.25),
        any::<bool>(),
        (any::<bool>(), any::<bool>()),
        proptest::bool::weighted(0.25),
    )
        .prop_map(|(mut threads, blamed, crash, limit, app_maps, app, ip_map_pages, stop_failspot, cue_exiters, ip_neighbors, second_dump)| {
            let mut burners = 0;
            for t in threads.iter_mut() {
                if t.kind == K_SPINNER || t.kind == K_NULLSP {
                    burners += 1;
                    if burners > 2 {
                        t.kind = K_PARKED;
                    }
                }
            }
            FCase { threads, blamed, crash, limit, app_maps, app, ip_map_pages, stop_failspot, cue_exiters, ip_neighbors, second_dump, odd_sp: None, file_stack: None, sealed_app: None, refuse_regsets: 0, skip_principal: None }
        })
}

/// Maps a run error to a verdict common to all four properties.
pub fn run_err_verdict(e: RunErr) -> Verdict {
    match e {
        RunErr::Inconclusive(w) => Verdict::Inconclusive(w),
        RunErr::DumpErr(e) => Verdict::pass_c(None, vec![format!("dump-error:{}", e.split('(').next().unwrap_or(""))]),
        RunErr::Panic(l, m) => panic_verdict(&l, &m),
    }
}
