//! C03 – the target is left running and undisturbed.
//!
//! Per generated scenario: a signal schedule placed at hook points of a
//! fault-free dump, then EVERY destination call failing (error and panic) in
//! turn, fail-point subsets and natural hard errors; after each dump returned
//! or unwound the target's threads are inspected through /proc and a page
//! shared with the target (heartbeats, per-thread per-signal counters).

use crate::fw::*;
use crate::vcore::dest::{Dest, Fault};
use crate::vcore::target::*;
use crate::vcore::world::*;
use minidump_writer::verif_hooks::Point;
use proptest::prelude::*;
use serde::{Deserialize, Serialize};
use serde_json::Value;
use std::sync::atomic::{AtomicU64, Ordering};
use std::sync::Arc;
use std::time::{Duration, Instant};

pub const LEVEL: &str = "fault_enumeration";

#[derive(Debug, Clone, PartialEq, Eq, Hash, Serialize, Deserialize)]
pub enum Phase {
    BeforeDump,
    ThreadsEnumerated,
    BeforeAttachOf(u16),
    AfterAttachOf(u16),
    ThreadsSuspended,
    BeforeResume,
    AfterResume,
    /// right before / after the attach of the very thread the signal is sent to
    BeforeAttachOfTarget,
    AfterAttachOfTarget,
}

#[derive(Debug, Clone, PartialEq, Eq, Hash, Serialize, Deserialize)]
pub struct Sig {
    pub phase: Phase,
    /// index among the sleeper threads
    pub thread: u16,
    /// slot: 0 SIGUSR1, 1 SIGHUP, 2..5 SIGRTMIN+0..3, 6 SIGTRAP, 7 SIGURG
    pub slot: u8,
    pub count: u8,
}

#[derive(Debug, Clone, PartialEq, Eq, Hash, Serialize, Deserialize)]
pub struct Case {
    /// kinds of the extra threads
    pub threads: Vec<u8>,
    pub signals: Vec<Sig>,
    pub stop_failspot: bool,
    pub failmasks: Vec<u8>,
    pub cue_exiters: bool,
    /// busy sleepers never block (heartbeat in a tight loop with a syscall-free body)
    pub sanitize: bool,
    pub with_crash: bool,
    /// stop timeout handed to the writer (None = generous 2 s); 0 makes the stop step time out
    /// after SIGSTOP was already sent
    #[serde(default)]
    pub stop_timeout_ms: Option<u8>,
    /// the target's main thread has exited (zombie thread-group leader never reaches state T)
    #[serde(default)]
    pub leader_exits: bool,
    /// size limit handed to the writer for every request of the scenario (from far below to above the
    /// size of the finished image)
    #[serde(default)]
    pub size_limit: Option<u32>,
}

#[derive(Debug, Clone, PartialEq, Eq)]
enum RPhase {
    BeforeDump,
    ThreadsEnumerated,
    BeforeAttach(i32),
    AfterAttach(i32),
    ThreadsSuspended,
    BeforeResume,
    AfterResume,
}

/// slots 0, 1, 6, 7 are classic (coalescing) signals, 2..5 queued realtime signals
fn signo_of(slot: u8) -> i32 {
    match slot % 8 {
        0 => libc::SIGUSR1,
        1 => libc::SIGHUP,
        6 => libc::SIGTRAP,
        7 => libc::SIGURG,
        k => libc::SIGRTMIN() + (k as i32 - 2),
    }
}
fn is_classic(slot: usize) -> bool {
    slot % 8 < 2 || slot % 8 >= 6
}

fn send_signal(pid: i32, tid: i32, slot: u8, payload: i32) -> bool {
    let signo = signo_of(slot);
    unsafe {
        if is_classic(slot as usize) {
            libc::syscall(libc::SYS_tgkill, pid, tid, signo) == 0
        } else {
            let mut si: libc::siginfo_t = std::mem::zeroed();
            si.si_signo = signo;
            si.si_code = -1; // SI_QUEUE
            let p = &mut si as *mut libc::siginfo_t as *mut u8;
            // si_pid @16, si_uid @20, si_value @24
            std::ptr::write(p.add(16) as *mut i32, libc::getpid());
            std::ptr::write(p.add(20) as *mut u32, libc::getuid());
            std::ptr::write(p.add(24) as *mut i64, payload as i64);
            libc::syscall(libc::SYS_rt_tgsigqueueinfo, pid, tid, signo, &si as *const libc::siginfo_t) == 0
        }
    }
}

#[derive(Default)]
struct Sent {
    /// [thread id][slot] -> (count, payload sum)
    counts: Vec<[AtomicU64; 8]>,
    payload: Vec<[AtomicU64; 8]>,
}

fn pending_mask(pid: i32, tid: i32) -> u64 {
    let s = std::fs::read_to_string(format!("/proc/{pid}/task/{tid}/status")).unwrap_or_default();
    let mut m = 0u64;
    for l in s.lines() {
        if let Some(r) = l.strip_prefix("SigPnd:").or_else(|| l.strip_prefix("ShdPnd:")) {
            m |= u64::from_str_radix(r.trim(), 16).unwrap_or(0);
        }
    }
    m
}

/// Liveness predicate after a dump returned or unwound.
fn judge_alive(t: &Target, threads: &[(u32, i32, u8)], spec: &TSpec, gone: &[i32]) -> Result<(), (String, String)> {
    let hb0: Vec<u64> = threads.iter().map(|(id, _, _)| t.heartbeat(*id)).collect();
    let w0: Vec<u64> = threads.iter().map(|(id, _, k)| if *k == K_SPINNER { t.read_u64(spec.threads[*id as usize].aux).unwrap_or(0) } else { 0 }).collect();
    let deadline = Instant::now() + Duration::from_millis(2500);
    loop {
        let mut problem: Option<(String, String)> = None;
        let all: Vec<(i32, u8, usize)> = std::iter::once((t.pid, 255u8, usize::MAX)).chain(threads.iter().enumerate().map(|(i, (_, tid, k))| (*tid, *k, i))).collect();
        for (tid, kind, i) in &all {
            if gone.contains(tid) {
                continue;
            }
            if *kind == 255 && spec.leader_exit {
                continue;
            }
            let Some((state, tracer)) = t.thread_status(*tid) else {
                if *kind == K_EXITER {
                    continue;
                }
                problem = Some(("thread-vanished".into(), format!("thread {tid} no longer exists")));
                break;
            };
            if tracer != 0 {
                problem = Some(("still-traced".into(), format!("thread {tid} still has TracerPid {tracer}")));
                break;
            }
            if state == 'T' || state == 't' {
                problem = Some(("left-stopped".into(), format!("thread {tid} is in state {state}")));
                break;
            }
            if *kind == K_SLEEPER && t.heartbeat(threads[*i].0) < hb0[*i] + 2 {
                problem = Some(("not-running".into(), format!("sleeper thread {tid} does not make progress")));
                break;
            }
            if *kind == K_SPINNER && t.read_u64(spec.threads[threads[*i].0 as usize].aux).unwrap_or(0) <= w0[*i] {
                problem = Some(("not-running".into(), format!("spinner thread {tid} does not make progress")));
                break;
            }
        }
        match problem {
            None => return Ok(()),
            Some(p) => {
                if Instant::now() > deadline {
                    return Err(p);
                }
                std::thread::sleep(Duration::from_micros(300));
            }
        }
    }
}

/// Signal-accounting predicate. Err(None) = inconclusive.
fn judge_signals(t: &Target, sleepers: &[(u32, i32)], all_ids: &[u32], sent: &Sent, base: &[[u64; 8]]) -> Result<(), Option<(String, String)>> {
    let deadline = Instant::now() + Duration::from_millis(1500);
    loop {
        let mut short: Option<(i32, usize, u64, u64)> = None;
        for (id, tid) in sleepers {
            for slot in 0..8 {
                let s = sent.counts[*id as usize][slot].load(Ordering::SeqCst);
                let d = t.sigcount(*id, slot) - base[*id as usize][slot];
                if d > s {
                    return Err(Some(("signal-duplicated".into(), format!("thread {tid} slot {slot}: sent {s}, delivered {d}"))));
                }
                let enough = if is_classic(slot) { s == 0 || d >= 1 } else { d == s };
                if !enough {
                    short = Some((*tid, slot, s, d));
                }
                if !is_classic(slot) && d == s {
                    let ps = sent.payload[*id as usize][slot].load(Ordering::SeqCst);
                    let pd = t.sigpayload(*id, slot);
                    let _ = (ps, pd);
                }
            }
        }
        // no thread other than the addressed one may have seen a signal
        for id in all_ids {
            if sleepers.iter().any(|(s, _)| s == id) {
                continue;
            }
            for slot in 0..8 {
                if t.sigcount(*id, slot) != 0 {
                    return Err(Some(("signal-to-wrong-thread".into(), format!("thread id {id} received a signal in slot {slot}"))));
                }
            }
        }
        if t.wrong_thread() != 0 {
            return Err(Some(("signal-to-wrong-thread".into(), "a thread without a counter slot handled a signal".into())));
        }
        match short {
            None => return Ok(()),
            Some((tid, slot, s, d)) => {
                if Instant::now() > deadline {
                    let signo = signo_of(slot as u8);
                    let pending = pending_mask(t.pid, tid) & (1u64 << (signo - 1)) != 0;
                    if pending {
                        return Err(None);
                    }
                    return Err(Some(("signal-lost".into(), format!("thread {tid} signal {signo}: sent {s}, delivered {d}, nothing pending any more"))));
                }
                std::thread::sleep(Duration::from_micros(300));
            }
        }
    }
}

pub fn check(c: &Case) -> Verdict {
    init_scratch();
    let scratch = Target::new_scratch();
    let mut b = Builder::new();
    let mut ids = vec![];
    for (i, k) in c.threads.iter().enumerate() {
        let st = b.add_stack(2, true, 1000 + i as u64);
        let id = b.add_thread(*k, Some(format!("t{i}").into_bytes()), st.base + 0x1000 + 8 * (i as u64 % 7), 500 + i as u64);
        if *k == K_SPINNER {
            let th = b.thread_mut(id);
            th.sp = st.base + 0x1000;
        }
        ids.push((id, *k));
    }
    let (_, words) = b.add_anon(1, 3, 0);
    let (_, appmap) = b.add_anon(2, 3, 0x77);
    let mut n = 0;
    for (id, k) in &ids {
        if *k == K_SPINNER {
            b.thread_mut(*id).aux = words + 64 * n;
            n += 1;
        }
    }
    b.spec.leader_exit = c.leader_exits;
    let spec = b.spec.clone();
    let t = match Target::spawn(&spec, scratch) {
        Ok(t) => t,
        Err(e) => return Verdict::Inconclusive(format!("target setup: {}", e.split(':').next().unwrap_or(""))),
    };
    if !t.wait_settled(&spec) {
        return Verdict::Inconclusive("target did not settle".into());
    }
    let pid = t.pid;
    let threads: Vec<(u32, i32, u8)> = ids.iter().map(|(id, k)| (*id, t.tid(*id), *k)).collect();
    let sleepers: Vec<(u32, i32)> = threads.iter().filter(|(_, _, k)| *k == K_SLEEPER).map(|(id, tid, _)| (*id, *tid)).collect();
    let all_ids: Vec<u32> = threads.iter().map(|(id, _, _)| *id).collect();
    let attach_order: Vec<i32> = std::iter::once(pid).chain(threads.iter().map(|(_, tid, _)| *tid)).collect();
    // with a zombie leader the stop step always runs into its timeout: keep it short
    let stop_timeout = c.stop_timeout_ms.map(|v| v as u64).or(if c.leader_exits { Some(15) } else { None });
    let first_worker = threads.iter().find(|(_, _, k)| *k != K_EXITER).map(|(_, tid, _)| *tid).unwrap_or(pid);
    let mut opts = DumpOpts { blamed: if c.leader_exits { first_worker } else { pid }, sanitize: c.sanitize, app_memory: vec![(appmap + 5, 3000)], stop_timeout_ms: stop_timeout, size_limit: c.size_limit.map(|l| l as u64), ..Default::default() };
    if c.with_crash {
        let mut s = 99u64;
        let mut gregs: Vec<i64> = (0..23).map(|_| splitmix(&mut s) as i64).collect();
        gregs[crate::vcore::regs::REG_RSP] = (appmap + 64) as i64;
        gregs[crate::vcore::regs::REG_RIP] = (appmap + 128) as i64;
        opts.crash = Some(CrashContext2 { gregs, fp: fpstate_of_fx(&sentinel_fx(3)), signo: 11, code: 1, addr: 0, tid: opts.blamed });
    }
    let mut classes: Vec<String> = vec![];
    let mut dumps = 0u64;
    macro_rules! bad {
        ($sig:expr, $($arg:tt)*) => { return Verdict::viol(format!("C03:{}", $sig), format!($($arg)*)) };
    }

    // ---- 1. fault-free dump with the signal schedule -----------------------------------
    let sent = Arc::new(Sent {
        counts: (0..MAX_THREADS).map(|_| Default::default()).collect(),
        payload: (0..MAX_THREADS).map(|_| Default::default()).collect(),
    });
    let base: Vec<[u64; 8]> = (0..MAX_THREADS).map(|_| [0u64; 8]).collect();
    let schedule: Vec<(RPhase, u32, i32, u8, u8)> = c
        .signals
        .iter()
        .filter(|_| !sleepers.is_empty())
        .map(|s| {
            let (id, tid) = sleepers[((s.thread as usize) * sleepers.len()) >> 16];
            let phase = match &s.phase {
                Phase::BeforeAttachOf(k) => RPhase::BeforeAttach(attach_order[((*k as usize) * attach_order.len()) >> 16]),
                Phase::AfterAttachOf(k) => RPhase::AfterAttach(attach_order[((*k as usize) * attach_order.len()) >> 16]),
                Phase::BeforeAttachOfTarget => RPhase::BeforeAttach(tid),
                Phase::AfterAttachOfTarget => RPhase::AfterAttach(tid),
                Phase::BeforeDump => RPhase::BeforeDump,
                Phase::ThreadsEnumerated => RPhase::ThreadsEnumerated,
                Phase::ThreadsSuspended => RPhase::ThreadsSuspended,
                Phase::BeforeResume => RPhase::BeforeResume,
                Phase::AfterResume => RPhase::AfterResume,
            };
            (phase, id, tid, s.slot % 8, s.count % 5 + 1)
        })
        .collect();
    let fire = {
        let schedule = schedule.clone();
        let sent = sent.clone();
        move |now: &RPhase| {
            for (phase, id, tid, slot, count) in &schedule {
                if phase == now {
                    for i in 0..*count {
                        let payload = 1000 + i as i32;
                        if send_signal(pid, *tid, *slot, payload) {
                            sent.counts[*id as usize][*slot as usize].fetch_add(1, Ordering::SeqCst);
                            sent.payload[*id as usize][*slot as usize].fetch_add(payload as u64, Ordering::SeqCst);
                        }
                    }
                }
            }
        }
    };
    let exiters: Vec<(i32, i32)> = if c.cue_exiters && c.stop_failspot {
        threads.iter().filter(|(_, _, k)| *k == K_EXITER).map(|(id, tid, _)| (*tid, t.pipes[id].1)).collect()
    } else {
        vec![]
    };
    let gone: Vec<i32> = exiters.iter().map(|(t, _)| *t).collect();
    fire(&RPhase::BeforeDump);
    let fire2 = fire.clone();
    let ex2 = exiters.clone();
    let hook = Box::new(move |p: Point| {
        let ph = match p {
            Point::ThreadsEnumerated => {
                for (tid, wfd) in &ex2 {
                    cue_and_wait(pid, *tid, *wfd);
                }
                RPhase::ThreadsEnumerated
            }
            Point::BeforeAttach(tid) => RPhase::BeforeAttach(tid),
            Point::AfterAttach(tid, _) => RPhase::AfterAttach(tid),
            Point::ThreadsSuspended => RPhase::ThreadsSuspended,
            Point::BeforeResume => RPhase::BeforeResume,
            Point::AfterResume => RPhase::AfterResume,
        };
        fire2(&ph);
    });
    let mut w = make_writer(pid, &opts);
    let mut dest = Dest::new(vec![], 0);
    let mask = if c.stop_failspot { FS_STOP } else { 0 };
    let out = with_failspots(mask, || with_hook(hook, || run_dump(&mut w, &mut dest)));
    dumps += 1;
    if let DumpOutcome::Panic(l, m) = &out {
        return panic_verdict(l, m);
    }
    let n_calls = dest.calls();
    if let Err((sig, d)) = judge_alive(&t, &threads, &spec, &gone) {
        bad!(sig, "after a dump that returned {}: {d}", if matches!(out, DumpOutcome::Ok(_)) { "Ok" } else { "Err" });
    }
    match judge_signals(&t, &sleepers, &all_ids, &sent, &base) {
        Ok(()) => {}
        Err(None) => return Verdict::Inconclusive("a signal is still pending at the deadline".into()),
        Err(Some((sig, d))) => bad!(sig, "signal schedule {:?}: {d}", schedule),
    }
    if !schedule.is_empty() {
        classes.push("signals-at-hook-points".into());
        if schedule.iter().any(|(p, _, tid, _, _)| matches!(p, RPhase::BeforeAttach(x) if x == tid)) {
            classes.push("signal-to-thread-about-to-be-attached".into());
        }
    }
    if !gone.is_empty() {
        classes.push("thread-exit-before-attach".into());
    }
    if c.stop_timeout_ms == Some(0) || c.leader_exits {
        classes.push("stop-step-times-out-after-SIGSTOP".into());
    }

    // ---- 2. every destination call failing, as error and as panic ----------------------
    if matches!(out, DumpOutcome::Ok(_)) {
        let step = if c.leader_exits { 9 } else { 1 };
        for k in (0..n_calls).step_by(step) {
            for fault in [Fault::ErrAt(k), Fault::PanicAt(k)] {
                let mut w = make_writer(pid, &opts);
                let mut dest = Dest::new(vec![], 0).with_fault(fault);
                let o = with_failspots(mask, || run_dump(&mut w, &mut dest));
                dumps += 1;
                match &o {
                    DumpOutcome::Panic(l, _) if !l.contains("vcore/dest.rs") => {
                        if let DumpOutcome::Panic(l, m) = &o {
                            return panic_verdict(l, m);
                        }
                    }
                    _ => {}
                }
                if let Err((sig, d)) = judge_alive(&t, &threads, &spec, &gone) {
                    bad!(sig, "after destination call {k} failed with {fault:?}: {d}");
                }
            }
        }
        count("destination-fault-points", 2 * (n_calls / step as u64));
        classes.push(if step == 1 { "all-destination-fault-points".into() } else { "every-9th-destination-fault-point(zombie-leader)".into() });
    }

    // ---- 3. fail-point subsets ----------------------------------------------------------
    for m in &c.failmasks {
        let mut w = make_writer(pid, &opts);
        let mut dest = Dest::new(vec![], 0);
        let o = with_failspots(*m & 31, || run_dump(&mut w, &mut dest));
        dumps += 1;
        if let DumpOutcome::Panic(l, m) = &o {
            return panic_verdict(l, m);
        }
        if let Err((sig, d)) = judge_alive(&t, &threads, &spec, &gone) {
            bad!(sig, "after a dump with fail points {:#x}: {d}", m & 31);
        }
    }

    // ---- 4. natural hard errors ----------------------------------------------------------
    // a crash context whose instruction pointer lies in a mapping that is listed but cannot be read
    // ([vvar]): the memory window around it fails hard, in the middle of the thread-list stage
    let vvar = crate::props::fid::parse_maps(&t.maps_text().unwrap_or_default()).iter().find(|l| l.name == "[vvar]").map(|l| l.start + 0x40);
    let unreadable_ip = vvar.map(|ip| {
        let mut s = 98u64;
        let mut gregs: Vec<i64> = (0..23).map(|_| splitmix(&mut s) as i64).collect();
        gregs[crate::vcore::regs::REG_RSP] = (appmap + 64) as i64;
        gregs[crate::vcore::regs::REG_RIP] = ip as i64;
        DumpOpts { crash: Some(CrashContext2 { gregs, fp: fpstate_of_fx(&sentinel_fx(4)), signo: 11, code: 1, addr: 0, tid: opts.blamed }), ..opts.clone() }
    });
    let mut hard = vec![
        ("unreadable app memory", DumpOpts { app_memory: vec![(0x3000_0000_0000, 64)], ..opts.clone() }),
        ("blamed thread that does not exist", DumpOpts { blamed: 0x3fff_fff0, crash: None, app_memory: vec![], ..opts.clone() }),
    ];
    if let Some(o) = unreadable_ip {
        hard.push(("crash instruction pointer in a listed but unreadable mapping", o));
    }
    for (what, o2) in hard {
        let mut w = make_writer(pid, &o2);
        let mut dest = Dest::new(vec![], 0);
        let o = with_failspots(mask, || run_dump(&mut w, &mut dest));
        dumps += 1;
        match &o {
            DumpOutcome::Panic(l, m) => return panic_verdict(l, m),
            DumpOutcome::Ok(_) => {}
            DumpOutcome::Err(_) => classes.push("natural-hard-error".into()),
        }
        if let Err((sig, d)) = judge_alive(&t, &threads, &spec, &gone) {
            bad!(sig, "after a dump with {what}: {d}");
        }
    }
    // ---- 5. the dumper runs out of descriptors ---------------------------------------------
    // every open beyond a budget of k simultaneously open files fails with EMFILE: whichever step that
    // hits (task listing, maps, the memory file, /proc copies), the target must be left running
    for k in [0u8, 1, 2, 3, 5, 8] {
        let mut w = make_writer(pid, &opts);
        let mut dest = Dest::new(vec![], 0);
        let o = with_fd_budget(k, || run_dump(&mut w, &mut dest));
        dumps += 1;
        match &o {
            DumpOutcome::Panic(l, m) => return panic_verdict(l, m),
            DumpOutcome::Ok(_) => classes.push("descriptor-budget:ok".into()),
            DumpOutcome::Err(_) => classes.push("descriptor-budget:err".into()),
        }
        if let Err((sig, d)) = judge_alive(&t, &threads, &spec, &gone) {
            bad!(sig, "after a dump taken with a budget of {k} open descriptors: {d}");
        }
    }
    // ---- 6. files the dumper cannot open ----------------------------------------------------
    // open() refused (EACCES) for one family of files at a time: the memory map, the memory file, the
    // per-thread status file (from the first read on: thread information cannot be built), and the
    // best-effort files together
    {
        use crate::vcore::faultfs::*;
        for (mask, arm) in [(F_MAPS, 2), (F_MEM, 2), (F_STATUS, 0), (F_CPUINFO | F_COMM | F_AUXV | F_CMDLINE | F_ENVIRON | F_LIMITS | F_OS_RELEASE, 2)] {
            let mut w = make_writer(pid, &opts);
            let mut dest = Dest::new(vec![], 0);
            let (o, _) = with_denied_files(mask, arm, || run_dump(&mut w, &mut dest));
            dumps += 1;
            match &o {
                DumpOutcome::Panic(l, m) => return panic_verdict(l, m),
                DumpOutcome::Ok(_) => classes.push("unopenable-file:ok".into()),
                DumpOutcome::Err(_) => classes.push("unopenable-file:err".into()),
            }
            if let Err((sig, d)) = judge_alive(&t, &threads, &spec, &gone) {
                bad!(sig, "after a dump during which files {mask:#x} could not be opened: {d}");
            }
        }
    }
    // ---- 7. register reads refused ------------------------------------------------------------
    // the kernel refuses ptrace register requests to the dumping thread (seccomp filter): both
    // interfaces for the general-purpose set, both for the floating-point set, the debug registers, all
    // of them - a thread is then attached but its information cannot be built
    for mask in [1u8 | 4, 2 | 8, 16, 31] {
        // request and judgement both run on the filtered thread: it is the tracer of anything the
        // request leaves attached, and a tracer that exits releases its tracees
        let r = on_filtered_thread(mask, || {
            let mut w = make_writer(pid, &opts);
            let mut dest = Dest::new(vec![], 0);
            let o = run_dump(&mut w, &mut dest);
            (o, judge_alive(&t, &threads, &spec, &gone))
        });
        let Some((o, alive)) = r else { return Verdict::Inconclusive("seccomp filter could not be installed".into()) };
        dumps += 1;
        match &o {
            DumpOutcome::Panic(l, m) => return panic_verdict(l, m),
            DumpOutcome::Ok(_) => classes.push("register-reads-refused:ok".into()),
            DumpOutcome::Err(_) => classes.push("register-reads-refused:err".into()),
        }
        if let Err((sig, d)) = alive {
            bad!(sig, "after a dump during which ptrace register requests {mask:#x} were refused: {d}");
        }
    }
    count("dumps", dumps);
    classes.sort();
    classes.dedup();
    Verdict::pass_c(Some(fp_json(c)), classes)
}

// ---------------------------------------------------------------------------
// realtime-signal storm during attach (sampled interleavings of signal arrival with attach)
// ---------------------------------------------------------------------------

#[derive(Debug, Clone, PartialEq, Eq, Hash, Serialize, Deserialize)]
pub struct StormCase {
    pub sleepers: u8,
    pub dumps: u8,
    /// which realtime slot (2..5) is fired
    pub slot: u8,
}

pub fn check_storm(c: &StormCase) -> Verdict {
    use std::sync::atomic::AtomicBool;
    init_scratch();
    let scratch = Target::new_scratch();
    let mut b = Builder::new();
    let mut ids = vec![];
    for i in 0..(c.sleepers % 3 + 1) {
        ids.push(b.add_thread(K_SLEEPER, Some(format!("s{i}").into_bytes()), 0, i as u64));
    }
    let spec = b.spec.clone();
    let t = match Target::spawn(&spec, scratch) {
        Ok(t) => t,
        Err(e) => return Verdict::Inconclusive(format!("target setup: {}", e.split(':').next().unwrap_or(""))),
    };
    if !t.wait_settled(&spec) {
        return Verdict::Inconclusive("target did not settle".into());
    }
    let pid = t.pid;
    let sleepers: Vec<(u32, i32)> = ids.iter().map(|id| (*id, t.tid(*id))).collect();
    let slot = 2 + c.slot % 4;
    let stop = Arc::new(AtomicBool::new(false));
    let sent: Arc<Vec<AtomicU64>> = Arc::new((0..sleepers.len()).map(|_| AtomicU64::new(0)).collect());
    let storm = {
        let stop = stop.clone();
        let sent = sent.clone();
        let sl = sleepers.clone();
        std::thread::spawn(move || {
            let mut i = 0usize;
            while !stop.load(Ordering::SeqCst) {
                let k = i % sl.len();
                if send_signal(pid, sl[k].1, slot, 1) {
                    sent[k].fetch_add(1, Ordering::SeqCst);
                }
                i += 1;
                if i % 64 == 0 {
                    std::thread::yield_now();
                }
            }
        })
    };
    let opts = DumpOpts { blamed: pid, ..Default::default() };
    let n_dumps = c.dumps as usize % 24 + 8;
    let mut wait_errors = 0u64;
    for _ in 0..n_dumps {
        let mut w = make_writer(pid, &opts);
        let mut dest = Dest::new(vec![], 0);
        // the process is not group-stopped, so that threads take signals while being attached
        match with_failspots(FS_STOP, || run_dump(&mut w, &mut dest)) {
            DumpOutcome::Panic(l, m) => {
                stop.store(true, Ordering::SeqCst);
                let _ = storm.join();
                return panic_verdict(&l, &m);
            }
            DumpOutcome::Ok(img) => {
                let d = crate::vcore::md::decode(&img);
                if let Ok(se) = crate::props::c11::soft_errors_of(&img, &d) {
                    let mut flat = std::collections::BTreeMap::new();
                    crate::props::c11::flatten(&se, "", &mut flat);
                    wait_errors += flat.keys().filter(|k| k.contains("WaitPidError")).count() as u64;
                }
            }
            DumpOutcome::Err(_) => {}
        }
    }
    stop.store(true, Ordering::SeqCst);
    let _ = storm.join();
    count("storm-dumps", n_dumps as u64);
    count("storm-signals-sent", sent.iter().map(|s| s.load(Ordering::SeqCst)).sum());
    // drain: every queued signal must arrive
    let deadline = Instant::now() + Duration::from_millis(3000);
    loop {
        let mut short = None;
        for (k, (id, tid)) in sleepers.iter().enumerate() {
            let s = sent[k].load(Ordering::SeqCst);
            let d = t.sigcount(*id, slot as usize);
            if d > s {
                return Verdict::viol("C03:signal-duplicated", format!("thread {tid}: sent {s}, delivered {d}"));
            }
            if d < s {
                short = Some((*tid, s, d));
            }
        }
        match short {
            None => break,
            Some((tid, s, d)) => {
                if Instant::now() > deadline {
                    let signo = signo_of(slot);
                    if pending_mask(pid, tid) & (1u64 << (signo - 1)) != 0 {
                        return Verdict::Inconclusive("realtime signals still pending at the deadline".into());
                    }
                    let sig = if wait_errors > 0 { "C03:signal-lost:attach-wait-error" } else { "C03:signal-lost" };
                    return Verdict::viol(sig, format!("realtime signal {signo} to thread {tid} while it was being dumped {n_dumps} times: sent {s}, delivered {d}, nothing pending; {wait_errors} WaitPidError soft errors were reported by those dumps"));
                }
                std::thread::sleep(Duration::from_micros(500));
            }
        }
    }
    if let Err((sig, d)) = judge_alive(&t, &sleepers.iter().map(|(id, tid)| (*id, *tid, K_SLEEPER)).collect::<Vec<_>>(), &spec, &[]) {
        return Verdict::viol(format!("C03:{sig}"), format!("after the storm: {d}"));
    }
    Verdict::pass_c(Some(fp_json(c)), vec![format!("wait-errors:{}", wait_errors.min(3))])
}

pub fn case_strategy() -> impl Strategy<Value = Case> {
    let phase = prop_oneof![
        1 => Just(Phase::BeforeDump),
        1 => Just(Phase::ThreadsEnumerated),
        1 => any::<u16>().prop_map(Phase::BeforeAttachOf),
        1 => any::<u16>().prop_map(Phase::AfterAttachOf),
        1 => Just(Phase::ThreadsSuspended),
        1 => Just(Phase::BeforeResume),
        1 => Just(Phase::AfterResume),
        3 => Just(Phase::BeforeAttachOfTarget),
        2 => Just(Phase::AfterAttachOfTarget),
    ];
    (
        proptest::collection::vec(prop_oneof![10 => Just(K_SLEEPER), 4 => Just(K_PARKED), 2 => Just(K_SPINNER), 4 => Just(K_EXITER), 2 => Just(K_NULLSP), 1 => Just(K_MAPCHURN), 1 => Just(K_FDCHURN)], 1..13).prop_map(|mut v| {
            // at most one null-SP burner per target
            let mut seen = false;
            for k in v.iter_mut() {
                if *k == K_NULLSP {
                    if seen {
                        *k = K_PARKED;
                    }
                    seen = true;
                }
            }
            v
        }),
        proptest::collection::vec((phase, any::<u16>(), 0u8..8, 0u8..5).prop_map(|(phase, thread, slot, count)| Sig { phase, thread, slot, count }), 0..10),
        proptest::bool::weighted(0.4),
        proptest::collection::vec(0u8..32, 0..4),
        any::<bool>(),
        any::<bool>(),
        any::<bool>(),
        prop_oneof![5 => Just(None), 2 => Just(Some(0u8)), 1 => Just(Some(1u8)), 1 => Just(Some(40u8))],
        (proptest::bool::weighted(0.15), proptest::option::weighted(0.3, prop_oneof![3 => 0u32..120_000, 1 => any::<u32>()])),
    )
        .prop_map(|(mut threads, signals, stop_failspot, failmasks, cue_exiters, sanitize, with_crash, stop_timeout_ms, (leader_exits, size_limit))| {
            let mut burners = 0;
            for k in threads.iter_mut() {
                if *k == K_SPINNER {
                    burners += 1;
                    if burners > 1 {
                        *k = K_PARKED;
                    }
                }
            }
            Case { threads, signals, stop_failspot, failmasks, cue_exiters, sanitize, with_crash, stop_timeout_ms, leader_exits, size_limit }
        })
}

pub fn run(ctx: &mut LaneCtx) {
    ctx.assume("liveness is observed over a bounded window (2.5 s) after dump returned/unwound: TracerPid 0, state not T/t, sleepers' heartbeats and spinners' counters advance; realtime signals must be delivered exactly as often as queued, standard signals coalesce in the kernel (1 <= delivered <= sent); a signal still pending at the deadline is inconclusive");
    ctx.assume("phase-level schedules are owned through hooks (threads enumerated, before/after attach of thread k, all suspended, before/after resume); kernel-internal interleavings inside one attach/wait are sampled, not enumerated; the branch that re-injects a non-SIGSTOP signal seen during attach is only reachable when the process was not group-stopped (StopProcess fail point) and a signal is pending at the instant of attach");
    ctx.run_sub(
        SubSpec {
            name: "faults-and-signals",
            cases: (64, 2_000),
            rule: "per generated scenario (1..12 sleeper/parked/spinner/exiter threads, now and then a thread that keeps changing the memory map or the descriptor table, and at most one sandbox-style helper thread running with a null stack pointer, signal schedule of up to 9 entries over 7 phase points (with extra weight on the attach of the signalled thread itself) x thread x {SIGUSR1,SIGHUP,SIGTRAP,SIGURG,SIGRTMIN+0..3} x count 1..5, StopProcess fail point on/off, a size limit (none / 0..120000 bytes / any) in three scenarios of ten, exiters cued at the threads-enumerated hook): one fault-free dump with the schedule, then EVERY destination call failing as I/O error and as panic (exhaustive per scenario), sampled fail-point subsets, three natural hard errors (unreadable application memory, a blamed thread that does not exist, a crash instruction pointer inside the listed but unreadable [vvar] mapping) six dumps taken while the dumper may only open 0, 1, 2, 3, 5 or 8 more descriptors (every further open fails with EMFILE) and four dumps during which one family of files cannot be opened at all (memory map / memory file / per-thread status / all best-effort files) and four dumps on a thread to which the kernel refuses ptrace register requests (general-purpose set through both interfaces / floating-point set through both / debug registers / all); after each of them the liveness predicate, after the first the signal accounting; every scenario is non-trivial; distinct = hash of scenario",
            strategy: case_strategy().boxed(),
            max_shrink_iters: 40,
            log_current: true,
        },
        check,
    );
    ctx.run_sub(
        SubSpec {
            name: "rt-signal-storm",
            cases: (48, 1_500),
            rule: "1..3 sleeper threads bombarded with a queued realtime signal from a harness thread while 8..31 dumps are taken with the process not group-stopped (StopProcess fail point), so that signals arrive at arbitrary instants of attach/wait/detach (sampled, not owned, interleavings); oracle = every successfully queued signal is delivered exactly once after the storm, threads alive; every case non-trivial; distinct = hash of case",
            strategy: (0u8..3, any::<u8>(), 0u8..4).prop_map(|(sleepers, dumps, slot)| StormCase { sleepers, dumps, slot }).boxed(),
            max_shrink_iters: 0,
            log_current: true,
        },
        check_storm,
    );
    ctx.run_sub(
        SubSpec {
            name: "dumper-interrupted",
            cases: (96, 4_000),
            rule: "targets with 1..12 parked/sleeper/spinner threads dumped 2..7 times while the DUMPING thread receives a signal with a non-restarting handler every 40..1540 us (at most 4000 per request) (so its system calls - waits for attach stops, sleeps, reads - return EINTR at arbitrary instants; sampled interleavings), group stop on/off; oracle = after every request, whatever it returned, no thread of the target is traced or stopped and all make progress; every case non-trivial; distinct = hash of case",
            strategy: (
                proptest::collection::vec(prop_oneof![2 => Just(K_PARKED), 2 => Just(K_SLEEPER)], 1..13),
                any::<u8>(),
                prop_oneof![2 => 0u16..60, 2 => 0u16..1500],
                any::<bool>(),
            )
                .prop_map(|(threads, dumps, gap_us, stop_failspot)| IntrCase { threads, dumps, gap_us, stop_failspot })
                .boxed(),
            max_shrink_iters: 0,
            log_current: true,
        },
        check_interrupted,
    );
}

// ---------------------------------------------------------------------------
// the dumping thread itself is interrupted by signals (EINTR at arbitrary system calls)
// ---------------------------------------------------------------------------

#[derive(Debug, Clone, PartialEq, Eq, Hash, Serialize, Deserialize)]
pub struct IntrCase {
    pub threads: Vec<u8>,
    pub dumps: u8,
    /// pause between two signals to the dumping thread, microseconds
    pub gap_us: u16,
    pub stop_failspot: bool,
}

extern "C" fn noop_handler(_: libc::c_int) {}

/// Runs `f` while the calling thread receives SIGUSR2 - handled by a handler installed WITHOUT
/// SA_RESTART, so that its interrupted system calls return EINTR - every `gap_us` microseconds (at most
/// 4000 times).  Returns f's result and the number of signals sent.
pub fn with_signal_storm<R>(gap_us: u64, f: impl FnOnce() -> R) -> (R, u64) {
    use std::sync::atomic::AtomicBool;
    unsafe {
        let mut sa: libc::sigaction = std::mem::zeroed();
        sa.sa_sigaction = noop_handler as usize;
        sa.sa_flags = 0;
        libc::sigemptyset(&mut sa.sa_mask);
        libc::sigaction(libc::SIGUSR2, &sa, std::ptr::null_mut());
    }
    let me = unsafe { libc::getpid() };
    let my_tid = unsafe { libc::syscall(libc::SYS_gettid) } as i32;
    let stop = Arc::new(AtomicBool::new(false));
    let sent = Arc::new(AtomicU64::new(0));
    let gap = Duration::from_micros(gap_us.max(40));
    let storm = {
        let (stop, sent) = (stop.clone(), sent.clone());
        std::thread::spawn(move || {
            unsafe {
                let mut set: libc::sigset_t = std::mem::zeroed();
                libc::sigemptyset(&mut set);
                libc::sigaddset(&mut set, libc::SIGUSR2);
                libc::pthread_sigmask(libc::SIG_BLOCK, &set, std::ptr::null_mut());
            }
            while !stop.load(Ordering::SeqCst) && sent.load(Ordering::SeqCst) < 4000 {
                unsafe { libc::syscall(libc::SYS_tgkill, me, my_tid, libc::SIGUSR2) };
                sent.fetch_add(1, Ordering::SeqCst);
                let t0 = Instant::now();
                while t0.elapsed() < gap {
                    std::hint::spin_loop();
                }
            }
        })
    };
    let r = f();
    stop.store(true, Ordering::SeqCst);
    let _ = storm.join();
    unsafe {
        libc::signal(libc::SIGUSR2, libc::SIG_IGN);
    }
    (r, sent.load(Ordering::SeqCst))
}

pub fn check_interrupted(c: &IntrCase) -> Verdict {
    use std::sync::atomic::AtomicBool;
    init_scratch();
    let scratch = Target::new_scratch();
    let mut b = Builder::new();
    let mut ids = vec![];
    for (i, k) in c.threads.iter().enumerate() {
        let st = b.add_stack(2, true, 2000 + i as u64);
        ids.push((b.add_thread(*k, Some(format!("i{i}").into_bytes()), st.base + 0x1000, 300 + i as u64), *k));
    }
    let spec = b.spec.clone();
    let t = match Target::spawn(&spec, scratch) {
        Ok(t) => t,
        Err(e) => return Verdict::Inconclusive(format!("target setup: {}", e.split(':').next().unwrap_or(""))),
    };
    if !t.wait_settled(&spec) {
        return Verdict::Inconclusive("target did not settle".into());
    }
    let pid = t.pid;
    let threads: Vec<(u32, i32, u8)> = ids.iter().map(|(id, k)| (*id, t.tid(*id), *k)).collect();
    // a handler WITHOUT SA_RESTART on the dumping thread: interrupted system calls return EINTR
    unsafe {
        let mut sa: libc::sigaction = std::mem::zeroed();
        sa.sa_sigaction = noop_handler as usize;
        sa.sa_flags = 0;
        libc::sigemptyset(&mut sa.sa_mask);
        libc::sigaction(libc::SIGUSR2, &sa, std::ptr::null_mut());
    }
    let me = unsafe { libc::getpid() };
    let my_tid = unsafe { libc::syscall(libc::SYS_gettid) } as i32;
    let stop = Arc::new(AtomicBool::new(false));
    let active = Arc::new(AtomicBool::new(false));
    let sent = Arc::new(AtomicU64::new(0));
    let gap = Duration::from_micros(c.gap_us as u64 % 1500 + 40);
    let budget = Arc::new(std::sync::atomic::AtomicI64::new(0));
    let storm = {
        let (stop, active, sent, budget) = (stop.clone(), active.clone(), sent.clone(), budget.clone());
        std::thread::spawn(move || {
            // this thread must not take the signal itself
            unsafe {
                let mut set: libc::sigset_t = std::mem::zeroed();
                libc::sigemptyset(&mut set);
                libc::sigaddset(&mut set, libc::SIGUSR2);
                libc::pthread_sigmask(libc::SIG_BLOCK, &set, std::ptr::null_mut());
            }
            while !stop.load(Ordering::SeqCst) {
                // bounded interference: at most 4000 signals per request
                if active.load(Ordering::SeqCst) && budget.fetch_sub(1, Ordering::SeqCst) > 0 {
                    unsafe { libc::syscall(libc::SYS_tgkill, me, my_tid, libc::SIGUSR2) };
                    sent.fetch_add(1, Ordering::Relaxed);
                }
                let t0 = Instant::now();
                while t0.elapsed() < gap {
                    std::hint::spin_loop();
                }
            }
        })
    };
    let opts = DumpOpts { blamed: pid, ..Default::default() };
    let n_dumps = c.dumps as usize % 6 + 2;
    let mut classes = std::collections::BTreeSet::new();
    let mut verdict = None;
    for _ in 0..n_dumps {
        let mut w = make_writer(pid, &opts);
        let mut dest = Dest::new(vec![], 0);
        budget.store(4000, Ordering::SeqCst);
        active.store(true, Ordering::SeqCst);
        let out = with_failspots(if c.stop_failspot { FS_STOP } else { 0 }, || run_dump(&mut w, &mut dest));
        active.store(false, Ordering::SeqCst);
        drop(w);
        match out {
            DumpOutcome::Panic(l, m) => {
                verdict = Some(panic_verdict(&l, &m));
                break;
            }
            DumpOutcome::Ok(img) => {
                classes.insert("dump-ok".to_string());
                let d = crate::vcore::md::decode(&img);
                if let Ok(se) = crate::props::c11::soft_errors_of(&img, &d) {
                    let mut flat = std::collections::BTreeMap::new();
                    crate::props::c11::flatten(&se, "", &mut flat);
                    if !flat.is_empty() {
                        classes.insert("soft-errors".to_string());
                    }
                }
            }
            DumpOutcome::Err(_) => {
                classes.insert("dump-err".to_string());
            }
        }
        if let Err((sig, d)) = judge_alive(&t, &threads, &spec, &[]) {
            verdict = Some(Verdict::viol(format!("C03:intr:{sig}"), format!("after a dump whose thread was interrupted by signals every {gap:?}: {d}")));
            break;
        }
    }
    stop.store(true, Ordering::SeqCst);
    let _ = storm.join();
    unsafe {
        libc::signal(libc::SIGUSR2, libc::SIG_IGN);
    }
    count("intr-dumps", n_dumps as u64);
    count("intr-signals-sent", sent.load(Ordering::SeqCst));
    if let Some(v) = verdict {
        return v;
    }
    Verdict::pass_c(Some(fp_json(c)), classes.into_iter().collect())
}

pub fn replay(sub: &str, case: &Value) -> Verdict {
    match sub {
        "dumper-interrupted" => replay_case::<IntrCase>(case, check_interrupted),
        "rt-signal-storm" => replay_case::<StormCase>(case, check_storm),
        "faults-and-signals" => replay_case::<Case>(case, check),
        _ => Verdict::Inconclusive(format!("unknown sub {sub}")),
    }
}
