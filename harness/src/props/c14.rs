//! C14 – ELF identification is total and agrees with an independent reader.

use crate::fw::*;
use crate::vcore::arena::*;
use crate::vcore::elf::*;
use minidump_writer::module_reader::{BuildId, ProcessReader, ReadFromModule, SoName};
use proptest::prelude::*;
use serde::{Deserialize, Serialize};
use serde_json::Value;

pub const LEVEL: &str = "exploration";

fn read_both(bytes: &[u8]) -> (Result<Vec<u8>, String>, Result<String, String>) {
    let id = BuildId::read_from_module(bytes.into()).map(|b| b.0).map_err(|e| format!("{e:?}"));
    let so = SoName::read_from_module(bytes.into()).map(|s| s.0).map_err(|e| format!("{e:?}"));
    (id, so)
}

#[derive(Debug, Clone, PartialEq, Eq, Hash, Serialize, Deserialize)]
pub struct RandCase {
    pub bytes: Vec<u8>,
    pub elf_magic: bool,
}

pub fn check_random(c: &RandCase) -> Verdict {
    let mut b = c.bytes.clone();
    if c.elf_magic && b.len() >= 6 {
        b[0..4].copy_from_slice(b"\x7fELF");
        b[4] = 1 + (b[4] & 1);
        b[5] = 1 + (b[5] & 1);
    }
    let (id, so) = read_both(&b);
    let deep = c.elf_magic && b.len() >= 64;
    Verdict::pass_c(if deep { Some(fingerprint(&b)) } else { None }, vec![format!("id:{}", if id.is_ok() { "ok" } else { "err" }), format!("soname:{}", if so.is_ok() { "ok" } else { "err" })])
}

#[derive(Debug, Clone, PartialEq, Eq, Hash, Serialize, Deserialize)]
pub struct KitCase {
    pub spec: ElfSpec,
    pub corruptions: Vec<(u16, CorruptVal)>,
}

pub fn expectation_mismatch(bytes: &[u8], id: &Result<Vec<u8>, String>, so: &Result<String, String>) -> Option<(String, String)> {
    let Some(want) = identify(bytes) else {
        return Some(("reader-rejects".into(), "independent reader rejects a well-formed image".into()));
    };
    match (want.build_id(), id) {
        (Some(w), Ok(g)) if &w == g => {}
        (None, Err(_)) => {}
        (w, g) => {
            let how = if want.note_id.is_some() { format!("note-via-{}", want.note_via.unwrap_or("?")) } else { "text-hash".to_string() };
            return Some((format!("build-id:{how}"), format!("independent reader: {:02x?} ({how}); module reader: {:02x?}", w, g)));
        }
    }
    match (&want.soname, so) {
        (Some(w), Ok(g)) if w == g => {}
        (None, Err(_)) => {}
        (w, g) => return Some((format!("soname:via-{}", want.soname_via.unwrap_or("none")), format!("independent reader: {w:?}; module reader: {g:?}"))),
    }
    None
}

pub fn check_kit(c: &KitCase) -> Verdict {
    let mut bt = build(&c.spec);
    let mut applied = vec![];
    for (sel, v) in &c.corruptions {
        applied.push(corrupt(&mut bt, c.spec.little, *sel, *v));
    }
    let (id, so) = read_both(&bt.bytes);
    let mut classes = vec![];
    classes.push(format!("{}{}", if c.spec.class64 { "elf64" } else { "elf32" }, if c.spec.little { "le" } else { "be" }));
    if c.corruptions.is_empty() {
        if let Some((sig, detail)) = expectation_mismatch(&bt.bytes, &id, &so) {
            return Verdict::viol(format!("C14:disagree:{sig}"), format!("{detail}; spec {:?}", c.spec));
        }
        classes.push("well-formed".into());
        if c.spec.build_id.is_none() {
            classes.push("id:text-hash".into());
        } else if c.spec.note_phdr {
            classes.push("id:note-phdr".into());
        } else if c.spec.note_section && c.spec.sections {
            classes.push("id:note-section".into());
        }
        if c.spec.soname.is_some() {
            classes.push(if c.spec.dyn_phdr { "soname:phdr" } else { "soname:section" }.into());
        }
    } else {
        classes.push("corrupted".into());
        classes.push(format!("id:{}", if id.is_ok() { "ok" } else { "err" }));
    }
    Verdict::pass_c(Some(fp_json(c)), classes)
}

/// Memory vs file: the image loaded at its PT_LOAD layout in a live helper.
pub fn check_memory(c: &KitCase) -> Verdict {
    let bt = build(&c.spec);
    let mem_image = bt.memory_image();
    if mem_image.len() as u64 > ARENA_SIZE {
        return Verdict::DontCare("image larger than the arena".into());
    }
    let (fid, fso) = read_both(&bt.bytes);
    let strategy = (fp_json(c) >> 5) % 3;
    let r = with_arena(|a| {
        for x in a.bytes().iter_mut() {
            *x = 0;
        }
        a.write(0, &mem_image);
        let pid = a.pid();
        let read = move || {
            let mid = BuildId::read_from_module(ProcessReader::new(pid, ARENA as usize).into()).map(|b| b.0).map_err(|e| format!("{e:?}"));
            let mso = SoName::read_from_module(ProcessReader::new(pid, ARENA as usize).into()).map(|s| s.0).map_err(|e| format!("{e:?}"));
            (mid, mso)
        };
        // which of the three remote-read strategies answers: the default (vectored read), the memory
        // file (vectored read refused by the kernel), or word-by-word ptrace (memory file unopenable too)
        match strategy {
            0 => Some(read()),
            1 => crate::vcore::world::on_filtered_thread(32, read),
            _ => crate::vcore::world::on_filtered_thread(32, move || {
                // word-by-word reads need the helper attached to and stopped by THIS thread
                let p = nix::unistd::Pid::from_raw(pid);
                if nix::sys::ptrace::attach(p).is_err() {
                    return None;
                }
                let _ = nix::sys::wait::waitpid(p, Some(nix::sys::wait::WaitPidFlag::__WALL));
                let r = crate::vcore::faultfs::with_denied_files(crate::vcore::faultfs::F_MEM, 2, read).0;
                let _ = nix::sys::ptrace::detach(p, None);
                Some(r)
            })
            .flatten(),
        }
    });
    let (mid, mso) = match r {
        Ok(Some(x)) => x,
        Ok(None) => return Verdict::Inconclusive("filtered reader thread could not be set up".into()),
        Err(e) => return Verdict::Inconclusive(format!("arena: {e}")),
    };
    let mut classes = vec![["reads:vectored", "reads:memory-file", "reads:ptrace-words"][strategy as usize].to_string()];
    // build id
    let via_phdr = c.spec.build_id.is_some() && c.spec.note_phdr;
    match (&fid, &mid) {
        (Ok(f), Ok(m)) => {
            if f != m {
                return Verdict::viol("C14:memory-vs-file:build-id", format!("file {f:02x?} memory {m:02x?}; spec {:?}", c.spec));
            }
            classes.push("id-agree".to_string());
        }
        (Ok(f), Err(e)) => {
            if via_phdr {
                return Verdict::viol("C14:memory-vs-file:build-id-missing-in-memory", format!("file {f:02x?} memory Err({e}); spec {:?}", c.spec));
            }
            classes.push("id-memory-err(sections-only)".into());
        }
        (Err(_), Ok(m)) => return Verdict::viol("C14:memory-vs-file:build-id-only-in-memory", format!("file has none, memory {m:02x?}")),
        (Err(_), Err(_)) => classes.push("id-none".into()),
    }
    let so_phdr = c.spec.soname.is_some() && c.spec.dyn_phdr;
    match (&fso, &mso) {
        (Ok(f), Ok(m)) => {
            if f != m {
                return Verdict::viol("C14:memory-vs-file:soname", format!("file {f:?} memory {m:?}"));
            }
            classes.push("soname-agree".into());
        }
        (Ok(f), Err(e)) => {
            if so_phdr {
                return Verdict::viol("C14:memory-vs-file:soname-missing-in-memory", format!("file {f:?} memory Err({e}); spec {:?}", c.spec));
            }
            classes.push("soname-memory-err(sections-only)".into());
        }
        (Err(_), Ok(m)) => return Verdict::viol("C14:memory-vs-file:soname-only-in-memory", format!("file has none, memory {m:?}")),
        (Err(_), Err(_)) => classes.push("soname-none".into()),
    }
    Verdict::pass_c(Some(fp_json(c)), classes)
}

// ---- system files -----------------------------------------------------------

#[derive(Debug, Clone, PartialEq, Eq, Hash, Serialize, Deserialize)]
pub struct FileCase {
    pub path: String,
}

fn list_path() -> std::path::PathBuf {
    crate::fw::verif_root().join("out/C14/elf_files.list")
}

/// Parent-side preparation: enumerate once, lanes read the list.
pub fn prepare() {
    let files = enumerate_elf_files();
    let _ = std::fs::create_dir_all(crate::fw::verif_root().join("out/C14"));
    let _ = std::fs::write(list_path(), files.join("\n"));
}

pub fn system_elf_files(cap: usize) -> Vec<FileCase> {
    let out: Vec<String> = match std::fs::read_to_string(list_path()) {
        Ok(s) => s.lines().map(|l| l.to_string()).collect(),
        Err(_) => enumerate_elf_files(),
    };
    let n = out.len();
    let step = (n / cap.max(1)).max(1);
    out.into_iter().step_by(step).take(cap).map(|path| FileCase { path }).collect()
}

fn enumerate_elf_files() -> Vec<String> {
    let mut out = vec![];
    let mut stack: Vec<std::path::PathBuf> = ["/usr/lib", "/usr/bin", "/lib", "/usr/sbin", "/usr/libexec", "/root/.rustup/toolchains", "/opt/veriftools"].iter().map(|s| s.into()).collect();
    let mut seen_dirs = std::collections::BTreeSet::new();
    while let Some(d) = stack.pop() {
        let Ok(canon) = std::fs::canonicalize(&d) else { continue };
        if !seen_dirs.insert(canon.clone()) {
            continue;
        }
        let Ok(rd) = std::fs::read_dir(&canon) else { continue };
        let mut entries: Vec<_> = rd.filter_map(|e| e.ok()).collect();
        entries.sort_by_key(|e| e.file_name());
        for e in entries {
            let Ok(ft) = e.file_type() else { continue };
            let p = e.path();
            if ft.is_dir() {
                if seen_dirs.len() < 4000 {
                    stack.push(p);
                }
            } else if ft.is_file() {
                let Ok(md) = e.metadata() else { continue };
                if md.len() < 64 || md.len() > 64 << 20 {
                    continue;
                }
                use std::io::Read;
                let mut m = [0u8; 4];
                if std::fs::File::open(&p).and_then(|mut f| f.read_exact(&mut m)).is_ok() && &m == b"\x7fELF" {
                    out.push(p.to_string_lossy().into_owned());
                }
            }
        }
    }
    out.sort();
    out.dedup();
    out
}

pub fn check_file(c: &FileCase) -> Verdict {
    let Ok(bytes) = std::fs::read(&c.path) else { return Verdict::Inconclusive("file vanished".into()) };
    let (id, so) = read_both(&bytes);
    // the by-path entry point must agree with the slice entry point
    let id2 = BuildId::read_from_file(std::path::Path::new(&c.path)).map(|b| b.0).map_err(|e| format!("{e:?}"));
    if id.is_ok() != id2.is_ok() || (id.is_ok() && id.as_ref().unwrap() != id2.as_ref().unwrap()) {
        return Verdict::viol("C14:file-vs-slice", format!("{}: slice {:02x?} file {:02x?}", c.path, id, id2));
    }
    if let Some((sig, detail)) = expectation_mismatch(&bytes, &id, &so) {
        return Verdict::viol(format!("C14:system-file:{sig}"), format!("{}: {detail}", c.path));
    }
    let mut classes = vec![];
    classes.push(if so.is_ok() { "has-soname" } else { "no-soname" }.to_string());
    classes.push(if id.is_ok() { "has-id" } else { "no-id" }.to_string());
    Verdict::pass_c(Some(fingerprint(&c.path)), classes)
}

pub fn spec_strategy() -> impl Strategy<Value = ElfSpec> {
    (
        (proptest::bool::weighted(0.75), proptest::bool::weighted(0.8), 1u16..6000, any::<u64>()),
        (
            proptest::option::weighted(0.8, prop_oneof![3 => proptest::collection::vec(any::<u8>(), 20), 1 => proptest::collection::vec(any::<u8>(), 16), 1 => proptest::collection::vec(any::<u8>(), 8), 1 => proptest::collection::vec(any::<u8>(), 32), 1 => Just(vec![0u8; 20]), 1 => proptest::collection::vec(any::<u8>(), 0..65), 1 => (any::<u8>(), 1usize..33).prop_map(|(b, n)| vec![b; n]), 1 => (proptest::collection::vec(any::<u8>(), 1..9), 1usize..5).prop_map(|(v, k)| v.repeat(2 * k))]),
            proptest::bool::weighted(0.7),
            proptest::bool::weighted(0.7),
            prop_oneof![Just(4u8), Just(8u8)],
            0u8..3,
        ),
        (
            proptest::option::weighted(0.7, prop_oneof![10 => proptest::collection::vec(prop_oneof![10 => (0x21u8..0x7f).prop_map(|c| c as char), 1 => Just('\u{e9}'), 1 => Just('\u{1f600}')], 0..24).prop_map(|v| v.into_iter().collect::<String>()), 1 => (250usize..260).prop_map(|n| "s".repeat(n)), 1 => (500usize..1500).prop_map(|n| "L".repeat(n))]),
            proptest::bool::weighted(0.7),
            proptest::bool::weighted(0.7),
            0u8..6,
        ),
        proptest::bool::weighted(0.8),
        0u8..4,
        (0u8..5, prop_oneof![3 => Just(0u8), 1 => 1u8..8], proptest::bool::weighted(0.25), 0u8..5, prop_oneof![2 => Just(0u8), 3 => 1u8..5], proptest::bool::weighted(0.3), prop_oneof![3 => Just(0u8), 2 => 1u8..4]),
    )
        .prop_map(|((class64, little, text_len, text_seed), (build_id, note_phdr, note_section, note_align, other_notes), (soname, dyn_phdr, dyn_section, dyn_order), sections, extra_phdrs, (pages, seg2_delta_pages, empty_note_first, shstr_rotation, decoy_before, decoy_after, dyn_link))| ElfSpec {
            class64, little, text_len, text_seed, build_id, note_phdr, note_section, note_align, other_notes, soname, dyn_phdr, dyn_section, dyn_order, sections, extra_phdrs, pages, seg2_delta_pages, empty_note_first, shstr_rotation, decoy_before, decoy_after, dyn_link,
        })
}

pub fn corrupt_val_strategy() -> impl Strategy<Value = CorruptVal> {
    prop_oneof![4 => (0u8..12).prop_map(CorruptVal::Boundary), 1 => (0u8..10).prop_map(CorruptVal::LenMinus), 1 => (0u8..10).prop_map(CorruptVal::LenPlus), 1 => any::<u64>().prop_map(CorruptVal::Raw), 1 => (-2i8..3).prop_map(CorruptVal::NameEdge)]
}

pub fn run(ctx: &mut LaneCtx) {
    ctx.assume("well-formed = produced uncorrupted by the ELF kit, or an ELF file installed on this machine; the independent reader follows the documented search order (PT_NOTE in program-header order, .note.gnu.build-id, XOR-fold of the first page of the first SHT_PROGBITS+ALLOC+EXEC section; DT_SONAME through PT_DYNAMIC then SHT_DYNAMIC) and translates DT_STRTAB through PT_LOAD");
    ctx.run_sub(
        SubSpec {
            name: "random-bytes",
            cases: (12_000, 1_000_000),
            rule: "random byte strings 0..8 KiB, half of them given an ELF magic/class/endianness so that parsing proceeds past the identification; oracle = BuildId and SoName readers return without panicking; non-trivial = has ELF magic and >= 64 bytes; distinct = hash of bytes",
            strategy: (proptest::collection::vec(any::<u8>(), 0..8192), any::<bool>()).prop_map(|(bytes, elf_magic)| RandCase { bytes, elf_magic }).boxed(),
            max_shrink_iters: 2048,
            log_current: false,
        },
        check_random,
    );
    ctx.run_sub(
        SubSpec {
            name: "kit-images",
            cases: (40_000, 4_000_000),
            rule: "ELF kit images (64/32 bit, LE/BE, build-id via PT_NOTE and/or section or none, id length 0..64, note alignment 4/8, SONAME via PT_DYNAMIC and/or SHT_DYNAMIC with all orders of SONAME/STRTAB/STRSZ, section table present/absent) with 0..3 structure-aware corruptions (every header/phdr/shdr/note/dyn field := boundary values, len+-k); oracle = never panics; uncorrupted images: build id and SONAME equal the independent reader's; all cases non-trivial; distinct = hash of case",
            strategy: (spec_strategy(), prop_oneof![2 => Just(vec![]), 3 => proptest::collection::vec((any::<u16>(), corrupt_val_strategy()), 1..4)]).prop_map(|(spec, corruptions)| KitCase { spec, corruptions }).boxed(),
            max_shrink_iters: 2048,
            log_current: false,
        },
        check_kit,
    );
    ctx.run_sub(
        SubSpec {
            name: "memory-vs-file",
            cases: (6_000, 400_000),
            rule: "uncorrupted kit images loaded at their PT_LOAD layout into the arena helper and read through ProcessReader - a third each through the vectored read, through /proc/pid/mem (vectored read refused by a seccomp filter) and through word-by-word ptrace (memory file unopenable as well) - vs the same bytes as a slice; equal answers required whenever the id/SONAME is reachable through program headers, never a different value; distinct = hash of case",
            strategy: spec_strategy().prop_map(|spec| KitCase { spec, corruptions: vec![] }).boxed(),
            max_shrink_iters: 1024,
            log_current: true,
        },
        check_memory,
    );
    let cap = if ctx.tier == Tier::Quick { 320 } else { 100_000 };
    ctx.run_enum(
        "system-files",
        "every ELF file found under /usr/lib, /usr/bin, /lib, /usr/sbin, /usr/libexec, the Rust toolchains and /opt/veriftools (sorted; evenly sub-sampled to 320 in the quick tier, all in the thorough tier): module reader vs independent reader, by slice and by path",
        (if ctx.wants("system-files") && ctx.fuzz_bytes.is_none() { system_elf_files(cap) } else { vec![] }).into_iter(),
        check_file,
    );
}

pub fn replay(sub: &str, case: &Value) -> Verdict {
    match sub {
        "random-bytes" => replay_case::<RandCase>(case, check_random),
        "kit-images" => replay_case::<KitCase>(case, check_kit),
        "memory-vs-file" => replay_case::<KitCase>(case, check_memory),
        "system-files" => replay_case::<FileCase>(case, check_file),
        _ => Verdict::Inconclusive(format!("unknown sub {sub}")),
    }
}
