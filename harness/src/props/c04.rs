//! C04 – the thread list is a complete, register-accurate, consistent snapshot.
//!
//! Pure part: `ThreadInfo::fill_cpu_context` on arbitrary ptrace register
//! structures vs an independent register -> context table.

use crate::fw::*;
use crate::vcore::md;
use crate::vcore::regs::*;
use minidump_writer::mem_writer::{Buffer, MemoryWriter};
use minidump_writer::minidump_cpu::RawContextCPU;
use minidump_writer::thread_info::ThreadInfo;
use proptest::prelude::*;
use serde::{Deserialize, Serialize};
use serde_json::Value;

pub const LEVEL: &str = "exploration";

#[derive(Debug, Clone, PartialEq, Eq, Hash, Serialize, Deserialize)]
pub struct RegCase {
    pub g: Gprs,
    pub orig_rax: u64,
    pub cs: u64,
    pub ss: u64,
    pub ds: u64,
    pub es: u64,
    pub fs: u64,
    pub gs: u64,
    pub fs_base: u64,
    pub gs_base: u64,
    pub fp: FpState,
    pub dregs: Vec<u64>,
}

pub fn ctx_bytes(cpu: RawContextCPU) -> Vec<u8> {
    let mut b = Buffer::with_capacity(0);
    MemoryWriter::<RawContextCPU>::alloc_with_val(&mut b, cpu).expect("serialise context");
    b.into()
}

pub fn check_regs(c: &RegCase) -> Verdict {
    let mut regs: libc::user_regs_struct = unsafe { std::mem::zeroed() };
    regs.rax = c.g.rax;
    regs.rcx = c.g.rcx;
    regs.rdx = c.g.rdx;
    regs.rbx = c.g.rbx;
    regs.rsp = c.g.rsp;
    regs.rbp = c.g.rbp;
    regs.rsi = c.g.rsi;
    regs.rdi = c.g.rdi;
    regs.r8 = c.g.r8;
    regs.r9 = c.g.r9;
    regs.r10 = c.g.r10;
    regs.r11 = c.g.r11;
    regs.r12 = c.g.r12;
    regs.r13 = c.g.r13;
    regs.r14 = c.g.r14;
    regs.r15 = c.g.r15;
    regs.rip = c.g.rip;
    regs.eflags = c.g.eflags;
    regs.orig_rax = c.orig_rax;
    regs.cs = c.cs;
    regs.ss = c.ss;
    regs.ds = c.ds;
    regs.es = c.es;
    regs.fs = c.fs;
    regs.gs = c.gs;
    regs.fs_base = c.fs_base;
    regs.gs_base = c.gs_base;
    let mut fpregs: libc::user_fpregs_struct = unsafe { std::mem::zeroed() };
    fpregs.cwd = c.fp.cwd;
    fpregs.swd = c.fp.swd;
    fpregs.ftw = c.fp.ftw;
    fpregs.fop = c.fp.fop;
    fpregs.rip = c.fp.rip;
    fpregs.rdp = c.fp.rdp;
    fpregs.mxcsr = c.fp.mxcsr;
    fpregs.mxcr_mask = c.fp.mxcr_mask;
    fpregs.st_space.copy_from_slice(&c.fp.st_space);
    fpregs.xmm_space.copy_from_slice(&c.fp.xmm_space);
    let mut dregs = [0u64; 8];
    dregs.copy_from_slice(&c.dregs);
    let info = ThreadInfo {
        stack_pointer: c.g.rsp as usize,
        tgid: 1,
        ppid: 1,
        regs,
        fpregs,
        dregs,
    };
    let mut cpu = RawContextCPU::default();
    info.fill_cpu_context(&mut cpu);
    let bytes = ctx_bytes(cpu);
    let Some(ctx) = md::parse_ctx(&bytes) else {
        return Verdict::viol("C04:context-size", format!("{} bytes", bytes.len()));
    };
    macro_rules! bad {
        ($f:expr) => { return Verdict::viol(format!("C04:reg:{}", $f), format!("context field {} does not equal the thread's register", $f)) };
    }
    if let Some(r) = gpr_mismatch(&ctx, &c.g) {
        bad!(r);
    }
    for (name, got, want) in [("cs", ctx.cs, c.cs), ("ds", ctx.ds, c.ds), ("es", ctx.es, c.es), ("fs", ctx.fs, c.fs), ("gs", ctx.gs, c.gs), ("ss", ctx.ss, c.ss)] {
        if got != want as u16 {
            bad!(name);
        }
    }
    let want_dr = [c.dregs[0], c.dregs[1], c.dregs[2], c.dregs[3], c.dregs[6], c.dregs[7]];
    if ctx.dr != want_dr {
        bad!("dr");
    }
    if let Some(f) = float_mismatch(&ctx, &c.fp) {
        bad!(f);
    }
    let need = CTX_CONTROL | CTX_INTEGER | CTX_SEGMENTS | CTX_FLOAT;
    if ctx.context_flags & need != need {
        return Verdict::viol("C04:context-flags", format!("context_flags {:#x} lacks {:#x}", ctx.context_flags, need));
    }
    if info.get_instruction_pointer() != c.g.rip as usize {
        bad!("instruction-pointer-accessor");
    }
    Verdict::pass_nt(fp_json(c), vec![])
}

pub fn fp_strategy() -> impl Strategy<Value = FpState> {
    (
        any::<(u16, u16, u16, u16, u64, u64, u32, u32)>(),
        proptest::collection::vec(any::<u32>(), 32),
        proptest::collection::vec(any::<u32>(), 64),
    )
        .prop_map(|((cwd, swd, ftw, fop, rip, rdp, mxcsr, mxcr_mask), st_space, xmm_space)| FpState {
            cwd, swd, ftw, fop, rip, rdp, mxcsr, mxcr_mask, st_space, xmm_space,
        })
}

pub fn gprs_strategy() -> impl Strategy<Value = Gprs> {
    proptest::collection::vec(any::<u64>(), 18).prop_map(|v| Gprs {
        rax: v[0], rcx: v[1], rdx: v[2], rbx: v[3], rsp: v[4], rbp: v[5], rsi: v[6], rdi: v[7], r8: v[8], r9: v[9],
        r10: v[10], r11: v[11], r12: v[12], r13: v[13], r14: v[14], r15: v[15], rip: v[16], eflags: v[17],
    })
}

pub fn run(ctx: &mut LaneCtx) {
    ctx.assume("pure part: register -> context mapping judged against a hand-written table (16 GPRs, rip, eflags low 32, 6 segment selectors low 16, dr0-3/6/7, x87/SSE state as 16-byte lanes, context flags must include CONTROL|INTEGER|SEGMENTS|FLOATING_POINT)");
    ctx.run_sub(
        SubSpec {
            name: "pure-regs",
            cases: (24_000, 2_000_000),
            rule: "arbitrary user_regs_struct / user_fpregs_struct / debug registers through ThreadInfo::fill_cpu_context, serialised and re-parsed by the hand-written context parser; every field compared; every case is non-trivial (all registers random); distinct = hash of case",
            strategy: (gprs_strategy(), proptest::collection::vec(any::<u64>(), 9), fp_strategy(), proptest::collection::vec(any::<u64>(), 8))
                .prop_map(|(g, s, fp, dregs)| RegCase { g, orig_rax: s[0], cs: s[1], ss: s[2], ds: s[3], es: s[4], fs: s[5], gs: s[6], fs_base: s[7], gs_base: s[8], fp, dregs })
                .boxed(),
            max_shrink_iters: 2048,
            log_current: false,
        },
        check_regs,
    );
}

pub fn replay(sub: &str, case: &Value) -> Verdict {
    match sub {
        "pure-regs" => replay_case::<RegCase>(case, check_regs),
        _ => Verdict::Inconclusive(format!("unknown sub {sub}")),
    }
}
