//! C04 – the thread list is a complete, register-accurate, consistent snapshot.
//!
//! Pure part: `ThreadInfo::fill_cpu_context` on arbitrary ptrace register
//! structures vs an independent register -> context table.

use crate::fw::*;
use crate::vcore::md;
use crate::vcore::regs::*;
use minidump_writer::mem_writer::{Buffer, MemoryWriter};
use minidump_writer::minidump_cpu::RawContextCPU;
use minidump_writer::thread_info::ThreadInfo;
use proptest::prelude::*;
use serde::{Deserialize, Serialize};
use serde_json::Value;

pub const LEVEL: &str = "exploration";

#[derive(Debug, Clone, PartialEq, Eq, Hash, Serialize, Deserialize)]
pub struct RegCase {
    pub g: Gprs,
    pub orig_rax: u64,
    pub cs: u64,
    pub ss: u64,
    pub ds: u64,
    pub es: u64,
    pub fs: u64,
    pub gs: u64,
    pub fs_base: u64,
    pub gs_base: u64,
    pub fp: FpState,
    pub dregs: Vec<u64>,
}

pub fn ctx_bytes(cpu: RawContextCPU) -> Vec<u8> {
    let mut b = Buffer::with_capacity(0);
    MemoryWriter::<RawContextCPU>::alloc_with_val(&mut b, cpu).expect("serialise context");
    b.into()
}

pub fn check_regs(c: &RegCase) -> Verdict {
    let mut regs: libc::user_regs_struct = unsafe { std::mem::zeroed() };
    regs.rax = c.g.rax;
    regs.rcx = c.g.rcx;
    regs.rdx = c.g.rdx;
    regs.rbx = c.g.rbx;
    regs.rsp = c.g.rsp;
    regs.rbp = c.g.rbp;
    regs.rsi = c.g.rsi;
    regs.rdi = c.g.rdi;
    regs.r8 = c.g.r8;
    regs.r9 = c.g.r9;
    regs.r10 = c.g.r10;
    regs.r11 = c.g.r11;
    regs.r12 = c.g.r12;
    regs.r13 = c.g.r13;
    regs.r14 = c.g.r14;
    regs.r15 = c.g.r15;
    regs.rip = c.g.rip;
    regs.eflags = c.g.eflags;
    regs.orig_rax = c.orig_rax;
    regs.cs = c.cs;
    regs.ss = c.ss;
    regs.ds = c.ds;
    regs.es = c.es;
    regs.fs = c.fs;
    regs.gs = c.gs;
    regs.fs_base = c.fs_base;
    regs.gs_base = c.gs_base;
    let mut fpregs: libc::user_fpregs_struct = unsafe { std::mem::zeroed() };
    fpregs.cwd = c.fp.cwd;
    fpregs.swd = c.fp.swd;
    fpregs.ftw = c.fp.ftw;
    fpregs.fop = c.fp.fop;
    fpregs.rip = c.fp.rip;
    fpregs.rdp = c.fp.rdp;
    fpregs.mxcsr = c.fp.mxcsr;
    fpregs.mxcr_mask = c.fp.mxcr_mask;
    fpregs.st_space.copy_from_slice(&c.fp.st_space);
    fpregs.xmm_space.copy_from_slice(&c.fp.xmm_space);
    let mut dregs = [0u64; 8];
    dregs.copy_from_slice(&c.dregs);
    let info = ThreadInfo {
        stack_pointer: c.g.rsp as usize,
        tgid: 1,
        ppid: 1,
        regs,
        fpregs,
        dregs,
    };
    let mut cpu = RawContextCPU::default();
    info.fill_cpu_context(&mut cpu);
    let bytes = ctx_bytes(cpu);
    let Some(ctx) = md::parse_ctx(&bytes) else {
        return Verdict::viol("C04:context-size", format!("{} bytes", bytes.len()));
    };
    macro_rules! bad {
        ($f:expr) => { return Verdict::viol(format!("C04:reg:{}", $f), format!("context field {} does not equal the thread's register", $f)) };
    }
    if let Some(r) = gpr_mismatch(&ctx, &c.g) {
        bad!(r);
    }
    for (name, got, want) in [("cs", ctx.cs, c.cs), ("ds", ctx.ds, c.ds), ("es", ctx.es, c.es), ("fs", ctx.fs, c.fs), ("gs", ctx.gs, c.gs), ("ss", ctx.ss, c.ss)] {
        if got != want as u16 {
            bad!(name);
        }
    }
    let want_dr = [c.dregs[0], c.dregs[1], c.dregs[2], c.dregs[3], c.dregs[6], c.dregs[7]];
    if ctx.dr != want_dr {
        bad!("dr");
    }
    if let Some(f) = float_mismatch(&ctx, &c.fp) {
        bad!(f);
    }
    let need = CTX_CONTROL | CTX_INTEGER | CTX_SEGMENTS | CTX_FLOAT;
    if ctx.context_flags & need != need {
        return Verdict::viol("C04:context-flags", format!("context_flags {:#x} lacks {:#x}", ctx.context_flags, need));
    }
    if info.get_instruction_pointer() != c.g.rip as usize {
        bad!("instruction-pointer-accessor");
    }
    Verdict::pass_nt(fp_json(c), vec![])
}

pub fn fp_strategy() -> impl Strategy<Value = FpState> {
    (
        any::<(u16, u16, u16, u16, u64, u64, u32, u32)>(),
        proptest::collection::vec(any::<u32>(), 32),
        proptest::collection::vec(any::<u32>(), 64),
    )
        .prop_map(|((cwd, swd, ftw, fop, rip, rdp, mxcsr, mxcr_mask), st_space, xmm_space)| FpState {
            cwd, swd, ftw, fop, rip, rdp, mxcsr, mxcr_mask, st_space, xmm_space,
        })
}

pub fn gprs_strategy() -> impl Strategy<Value = Gprs> {
    proptest::collection::vec(any::<u64>(), 18).prop_map(|v| Gprs {
        rax: v[0], rcx: v[1], rdx: v[2], rbx: v[3], rsp: v[4], rbp: v[5], rsi: v[6], rdi: v[7], r8: v[8], r9: v[9],
        r10: v[10], r11: v[11], r12: v[12], r13: v[13], r14: v[14], r15: v[15], rip: v[16], eflags: v[17],
    })
}

/// Live judge: completeness, register accuracy, snapshot consistency.
pub fn judge_live(c: &crate::props::fid::FCase) -> Verdict {
    use crate::props::fid::*;
    use crate::vcore::target::*;
    let o = match run_case(c) {
        Ok(o) => o,
        Err(e) => return run_err_verdict(e),
    };
    macro_rules! bad {
        ($sig:expr, $($arg:tt)*) => { return Verdict::viol(format!("C04:{}", $sig), format!($($arg)*)) };
    }
    let Some(threads) = o.d.threads.as_ref() else { bad!("no-thread-list", "thread list stream missing or malformed: {:?}", o.d.problems.first()) };
    let mut seen = std::collections::BTreeMap::new();
    for t in threads {
        *seen.entry(t.tid as i32).or_insert(0) += 1;
    }
    if let Some((tid, n)) = seen.iter().find(|(_, n)| **n > 1) {
        bad!("duplicate-thread", "thread {tid} listed {n} times");
    }
    // every thread that exists throughout and can be attached must be listed
    let mut must: Vec<i32> = vec![o.pid];
    for (_, tid, k) in &o.case_threads {
        if *k != K_NULLSP && !o.gone.contains(tid) {
            must.push(*tid);
        }
    }
    for tid in &must {
        if !seen.contains_key(tid) {
            bad!("thread-missing", "thread {tid} (kind {:?}) exists throughout the dump but is not listed; listed {:?}", o.kind_of(*tid), seen.keys().collect::<Vec<_>>());
        }
    }
    for tid in seen.keys() {
        if !must.contains(tid) && !o.gone.contains(tid) && o.kind_of(*tid) != Some(K_NULLSP) {
            bad!("foreign-thread", "listed thread {tid} is not a thread of the target");
        }
    }
    // vanished threads: listed with a valid context, or omitted and reported
    let mut flat = std::collections::BTreeMap::new();
    crate::props::c11::flatten(&o.soft_errors, "", &mut flat);
    for tid in &o.gone {
        if seen.contains_key(tid) {
            let t = threads.iter().find(|t| t.tid as i32 == *tid).unwrap();
            if o.ctx_of(t.ctx).is_none() {
                bad!("vanished-thread-invalid-context", "thread {tid} exited during the dump and is listed without a valid context");
            }
        } else if !flat.keys().any(|k| k.ends_with(&format!(":{tid}"))) {
            bad!("vanished-thread-not-reported", "thread {tid} exited before attach, is omitted, and no soft error names it: {:?}", flat);
        }
    }
    let mut classes = vec![];
    let mut checked_regs = 0;
    for t in threads {
        let tid = t.tid as i32;
        let Some(ctx) = o.ctx_of(t.ctx) else { bad!("context-missing", "thread {tid} has no decodable context") };
        // the crash-context thread carries the supplied context (C05's subject)
        if o.crash.is_some() && tid == o.blamed {
            continue;
        }
        let kind = o.kind_of(tid);
        if ctx.cs != 0x33 || ctx.ss != 0x2b {
            bad!("reg:segment", "thread {tid}: cs {:#x} ss {:#x}", ctx.cs, ctx.ss);
        }
        let Some((regs, fx)) = o.planned_regs.get(&tid) else { continue };
        match kind {
            Some(K_PARKED) => {
                for (i, name) in crate::vcore::md::GPR_NAMES.iter().enumerate() {
                    if matches!(*name, "rax" | "rcx" | "r11" | "rsp") {
                        continue;
                    }
                    if ctx.gpr[i] != regs[i] {
                        bad!(format!("reg:{name}"), "parked thread {tid}: {name} = {:#x}, the thread holds {:#x}", ctx.gpr[i], regs[i]);
                    }
                }
                if ctx.gpr[4] != o.planned_sp[&tid] {
                    bad!("reg:rsp", "parked thread {tid}: rsp {:#x} expected {:#x}", ctx.gpr[4], o.planned_sp[&tid]);
                }
                let after_syscall = o.syms["park_syscall_insn"] + 2;
                if ctx.rip != after_syscall || ctx.gpr[1] != ctx.rip {
                    bad!("reg:rip", "parked thread {tid}: rip {:#x} rcx {:#x}, expected {:#x}", ctx.rip, ctx.gpr[1], after_syscall);
                }
                checked_regs += 1;
            }
            Some(K_SPINNER) => {
                let aux = o.spinner_aux[&tid];
                for (i, name) in crate::vcore::md::GPR_NAMES.iter().enumerate() {
                    let want = match *name {
                        "rsp" => o.planned_sp[&tid],
                        "rbx" => aux,
                        "r12" => continue,
                        _ => regs[i],
                    };
                    if ctx.gpr[i] != want {
                        bad!(format!("reg:{name}"), "spinning thread {tid}: {name} = {:#x}, the thread holds {:#x}", ctx.gpr[i], want);
                    }
                }
                if ctx.rip < o.syms["spin_code_loop"] || ctx.rip >= o.syms["spin_code_end"] {
                    bad!("reg:rip", "spinning thread {tid}: rip {:#x} outside its loop", ctx.rip);
                }
                let n = ctx.gpr[12];
                if n < o.spinner_start[&tid] {
                    bad!("reg:r12", "spinner counter {n} below its start value");
                }
                // snapshot consistency: stack slot [rsp+8] and the app word, as captured
                let sp = ctx.gpr[4];
                if t.stack.size > 0 && sp + 16 <= t.stack_start + t.stack.size as u64 && sp >= t.stack_start {
                    let off = (sp + 8 - t.stack_start) as usize;
                    let slot = u64::from_le_bytes(o.bytes(t.stack)[off..off + 8].try_into().unwrap());
                    if !(slot == n || slot + 1 == n) {
                        bad!("snapshot:stack-slot", "thread {tid}: register counter {n} but captured stack slot {slot}: the thread ran between register and stack capture");
                    }
                    if let Some(mem) = o.d.memory.as_ref().and_then(|m| m.iter().find(|m| m.start <= aux && aux + 8 <= m.start + m.loc.size as u64)) {
                        let off = (aux - mem.start) as usize;
                        let word = u64::from_le_bytes(o.bytes(mem.loc)[off..off + 8].try_into().unwrap());
                        if !(word == n || word + 1 == n) || word > slot {
                            bad!("snapshot:app-word", "thread {tid}: register counter {n}, stack slot {slot}, captured app word {word}: not a single instant");
                        }
                        classes.push("snapshot-triple-checked".to_string());
                    }
                }
                checked_regs += 1;
            }
            _ => continue,
        }
        // float state of parked / spinning threads
        let want = crate::vcore::world::fpstate_of_fx(fx);
        let f = crate::vcore::md::FloatSave(&ctx.float_save);
        if f.control_word() != want.cwd || f.tag_word() != want.ftw as u8 || f.mx_csr() != want.mxcsr {
            bad!("reg:fp-control", "thread {tid}: cwd {:#x} ftw {:#x} mxcsr {:#x}", f.control_word(), f.tag_word(), f.mx_csr());
        }
        for r in 0..8 {
            if f.float_registers()[16 * r..16 * r + 10] != fx[32 + 16 * r..32 + 16 * r + 10] {
                bad!(format!("reg:st{r}"), "thread {tid}: st{r} differs");
            }
        }
        if f.xmm_registers() != &fx[160..416] {
            let r = (0..16).find(|r| f.xmm_registers()[16 * r..16 * r + 16] != fx[160 + 16 * r..176 + 16 * r]).unwrap();
            bad!(format!("reg:xmm{r}"), "thread {tid}: xmm{r} differs");
        }
    }
    if !o.gone.is_empty() {
        classes.push("thread-exited-before-attach".into());
    }
    if o.case_threads.iter().any(|(_, _, k)| *k == K_NULLSP) {
        classes.push("null-sp-thread".into());
    }
    if o.case_threads.iter().any(|(_, _, k)| *k == K_SPINNER) {
        classes.push("spinner".into());
    }
    crate::fw::count("thread-contexts-compared", checked_regs);
    let nt = threads.len() >= 2 && !classes.is_empty();
    Verdict::pass_c(if nt { Some(fp_json(c)) } else { None }, classes)
}

pub fn run(ctx: &mut LaneCtx) {
    ctx.assume("live part: ground truth = sentinel registers each target thread loads before blocking (parked: raw pause syscall, rax/rcx/r11 are syscall-clobbered and excluded; spinner: pure user-space loop, all GPRs compared); x87 registers compared on their 10 significant bytes; fop/fip/fdp are CPU dependent and not compared; threads can only exit between enumeration and attach with the StopProcess fail point on");
    ctx.run_sub(
        SubSpec {
            name: "live-threads",
            cases: (960, 30_000),
            rule: "generated targets (main + 1..63 threads: parked with sentinel registers, spinners with a register/stack/app-memory counter triple, sleepers, null-SP helpers, exiters cued at the threads-enumerated hook) dumped by the real writer; oracle = set of listed ids, per-register comparison with the sentinels, counter triple within one step; non-trivial = >=2 threads and a spinner, null-SP thread or vanished thread; distinct = hash of case",
            strategy: crate::props::fid::case_strategy(if ctx.tier == Tier::Quick { 20 } else { 64 }, 1).boxed(),
            max_shrink_iters: 150,
            log_current: true,
        },
        judge_live,
    );
    ctx.assume("pure part: register -> context mapping judged against a hand-written table (16 GPRs, rip, eflags low 32, 6 segment selectors low 16, dr0-3/6/7, x87/SSE state as 16-byte lanes, context flags must include CONTROL|INTEGER|SEGMENTS|FLOATING_POINT)");
    ctx.run_sub(
        SubSpec {
            name: "pure-regs",
            cases: (24_000, 2_000_000),
            rule: "arbitrary user_regs_struct / user_fpregs_struct / debug registers through ThreadInfo::fill_cpu_context, serialised and re-parsed by the hand-written context parser; every field compared; every case is non-trivial (all registers random); distinct = hash of case",
            strategy: (gprs_strategy(), proptest::collection::vec(any::<u64>(), 9), fp_strategy(), proptest::collection::vec(any::<u64>(), 8))
                .prop_map(|(g, s, fp, dregs)| RegCase { g, orig_rax: s[0], cs: s[1], ss: s[2], ds: s[3], es: s[4], fs: s[5], gs: s[6], fs_base: s[7], gs_base: s[8], fp, dregs })
                .boxed(),
            max_shrink_iters: 2048,
            log_current: false,
        },
        check_regs,
    );
}

pub fn replay(sub: &str, case: &Value) -> Verdict {
    match sub {
        "pure-regs" => replay_case::<RegCase>(case, check_regs),
        "live-threads" => replay_case::<crate::props::fid::FCase>(case, judge_live),
        _ => Verdict::Inconclusive(format!("unknown sub {sub}")),
    }
}
