//! C04 – the thread list is a complete, register-accurate, consistent snapshot.
//!
//! Pure part: `ThreadInfo::fill_cpu_context` on arbitrary ptrace register
//! structures vs an independent register -> context table.

use crate::fw::*;
use crate::vcore::md;
use crate::vcore::regs::*;
use minidump_writer::mem_writer::{Buffer, MemoryWriter};
use minidump_writer::minidump_cpu::RawContextCPU;
use minidump_writer::thread_info::ThreadInfo;
use proptest::prelude::*;
use serde::{Deserialize, Serialize};
use serde_json::Value;

pub const LEVEL: &str = "exploration";

#[derive(Debug, Clone, PartialEq, Eq, Hash, Serialize, Deserialize)]
pub struct RegCase {
    pub g: Gprs,
    pub orig_rax: u64,
    pub cs: u64,
    pub ss: u64,
    pub ds: u64,
    pub es: u64,
    pub fs: u64,
    pub gs: u64,
    pub fs_base: u64,
    pub gs_base: u64,
    pub fp: FpState,
    pub dregs: Vec<u64>,
}

pub fn ctx_bytes(cpu: RawContextCPU) -> Vec<u8> {
    let mut b = Buffer::with_capacity(0);
    MemoryWriter::<RawContextCPU>::alloc_with_val(&mut b, cpu).expect("serialise context");
    b.into()
}

pub fn check_regs(c: &RegCase) -> Verdict {
    let mut regs: libc::user_regs_struct = unsafe { std::mem::zeroed() };
    regs.rax = c.g.rax;
    regs.rcx = c.g.rcx;
    regs.rdx = c.g.rdx;
    regs.rbx = c.g.rbx;
    regs.rsp = c.g.rsp;
    regs.rbp = c.g.rbp;
    regs.rsi = c.g.rsi;
    regs.rdi = c.g.rdi;
    regs.r8 = c.g.r8;
    regs.r9 = c.g.r9;
    regs.r10 = c.g.r10;
    regs.r11 = c.g.r11;
    regs.r12 = c.g.r12;
    regs.r13 = c.g.r13;
    regs.r14 = c.g.r14;
    regs.r15 = c.g.r15;
    regs.rip = c.g.rip;
    regs.eflags = c.g.eflags;
    regs.orig_rax = c.orig_rax;
    regs.cs = c.cs;
    regs.ss = c.ss;
    regs.ds = c.ds;
    regs.es = c.es;
    regs.fs = c.fs;
    regs.gs = c.gs;
    regs.fs_base = c.fs_base;
    regs.gs_base = c.gs_base;
    let mut fpregs: libc::user_fpregs_struct = unsafe { std::mem::zeroed() };
    fpregs.cwd = c.fp.cwd;
    fpregs.swd = c.fp.swd;
    fpregs.ftw = c.fp.ftw;
    fpregs.fop = c.fp.fop;
    fpregs.rip = c.fp.rip;
    fpregs.rdp = c.fp.rdp;
    fpregs.mxcsr = c.fp.mxcsr;
    fpregs.mxcr_mask = c.fp.mxcr_mask;
    fpregs.st_space.copy_from_slice(&c.fp.st_space);
    fpregs.xmm_space.copy_from_slice(&c.fp.xmm_space);
    let mut dregs = [0u64; 8];
    dregs.copy_from_slice(&c.dregs);
    let info = ThreadInfo {
        stack_pointer: c.g.rsp as usize,
        tgid: 1,
        ppid: 1,
        regs,
        fpregs,
        dregs,
    };
    let mut cpu = RawContextCPU::default();
    info.fill_cpu_context(&mut cpu);
    let bytes = ctx_bytes(cpu);
    let Some(ctx) = md::parse_ctx(&bytes) else {
        return Verdict::viol("C04:context-size", format!("{} bytes", bytes.len()));
    };
    macro_rules! bad {
        ($f:expr) => { return Verdict::viol(format!("C04:reg:{}", $f), format!("context field {} does not equal the thread's register", $f)) };
    }
    if let Some(r) = gpr_mismatch(&ctx, &c.g) {
        bad!(r);
    }
    for (name, got, want) in [("cs", ctx.cs, c.cs), ("ds", ctx.ds, c.ds), ("es", ctx.es, c.es), ("fs", ctx.fs, c.fs), ("gs", ctx.gs, c.gs), ("ss", ctx.ss, c.ss)] {
        if got != want as u16 {
            bad!(name);
        }
    }
    let want_dr = [c.dregs[0], c.dregs[1], c.dregs[2], c.dregs[3], c.dregs[6], c.dregs[7]];
    if ctx.dr != want_dr {
        bad!("dr");
    }
    if let Some(f) = float_mismatch(&ctx, &c.fp) {
        bad!(f);
    }
    let need = CTX_CONTROL | CTX_INTEGER | CTX_SEGMENTS | CTX_FLOAT;
    if ctx.context_flags & need != need {
        return Verdict::viol("C04:context-flags", format!("context_flags {:#x} lacks {:#x}", ctx.context_flags, need));
    }
    if info.get_instruction_pointer() != c.g.rip as usize {
        bad!("instruction-pointer-accessor");
    }
    Verdict::pass_nt(fp_json(c), vec![])
}

pub fn fp_strategy() -> impl Strategy<Value = FpState> {
    (
        any::<(u16, u16, u16, u16, u64, u64, u32, u32)>(),
        proptest::collection::vec(any::<u32>(), 32),
        proptest::collection::vec(any::<u32>(), 64),
    )
        .prop_map(|((cwd, swd, ftw, fop, rip, rdp, mxcsr, mxcr_mask), st_space, xmm_space)| FpState {
            cwd, swd, ftw, fop, rip, rdp, mxcsr, mxcr_mask, st_space, xmm_space,
        })
}

pub fn gprs_strategy() -> impl Strategy<Value = Gprs> {
    proptest::collection::vec(any::<u64>(), 18).prop_map(|v| Gprs {
        rax: v[0], rcx: v[1], rdx: v[2], rbx: v[3], rsp: v[4], rbp: v[5], rsi: v[6], rdi: v[7], r8: v[8], r9: v[9],
        r10: v[10], r11: v[11], r12: v[12], r13: v[13], r14: v[14], r15: v[15], rip: v[16], eflags: v[17],
    })
}

/// Live judge: completeness, register accuracy, snapshot consistency.
pub fn judge_live(c: &crate::props::fid::FCase) -> Verdict {
    use crate::props::fid::*;
    use crate::vcore::target::*;
    let o = match run_case(c) {
        Ok(o) => o,
        Err(e) => return run_err_verdict(e),
    };
    macro_rules! bad {
        ($sig:expr, $($arg:tt)*) => { return Verdict::viol(format!("C04:{}", $sig), format!($($arg)*)) };
    }
    let Some(threads) = o.d.threads.as_ref() else { bad!("no-thread-list", "thread list stream missing or malformed: {:?}", o.d.problems.first()) };
    let mut seen = std::collections::BTreeMap::new();
    for t in threads {
        *seen.entry(t.tid as i32).or_insert(0) += 1;
    }
    if let Some((tid, n)) = seen.iter().find(|(_, n)| **n > 1) {
        bad!("duplicate-thread", "thread {tid} listed {n} times");
    }
    // every thread that exists throughout and can be attached must be listed
    let mut must: Vec<i32> = vec![o.pid];
    for (_, tid, k) in &o.case_threads {
        if *k != K_NULLSP && !o.gone.contains(tid) {
            must.push(*tid);
        }
    }
    for tid in &must {
        if !seen.contains_key(tid) {
            bad!("thread-missing", "thread {tid} (kind {:?}) exists throughout the dump but is not listed; listed {:?}", o.kind_of(*tid), seen.keys().collect::<Vec<_>>());
        }
    }
    for tid in seen.keys() {
        if !must.contains(tid) && !o.gone.contains(tid) && o.kind_of(*tid) != Some(K_NULLSP) {
            bad!("foreign-thread", "listed thread {tid} is not a thread of the target");
        }
    }
    // vanished threads: listed with a valid context, or omitted and reported
    let mut flat = std::collections::BTreeMap::new();
    crate::props::c11::flatten(&o.soft_errors, "", &mut flat);
    for tid in &o.gone {
        if seen.contains_key(tid) {
            let t = threads.iter().find(|t| t.tid as i32 == *tid).unwrap();
            if o.ctx_of(t.ctx).is_none() {
                bad!("vanished-thread-invalid-context", "thread {tid} exited during the dump and is listed without a valid context");
            }
        } else if !flat.keys().any(|k| k.ends_with(&format!(":{tid}"))) {
            bad!("vanished-thread-not-reported", "thread {tid} exited before attach, is omitted, and no soft error names it: {:?}", flat);
        }
    }
    let mut classes = vec![];
    let mut checked_regs = 0;
    for t in threads {
        let tid = t.tid as i32;
        let Some(ctx) = o.ctx_of(t.ctx) else { bad!("context-missing", "thread {tid} has no decodable context") };
        // the crash-context thread carries the supplied context (C05's subject)
        if o.crash.is_some() && tid == o.blamed {
            continue;
        }
        let kind = o.kind_of(tid);
        if ctx.cs != 0x33 || ctx.ss != 0x2b {
            bad!("reg:segment", "thread {tid}: cs {:#x} ss {:#x}", ctx.cs, ctx.ss);
        }
        // every thread of this 64-bit target runs with null data-segment selectors, whatever FS/GS *base*
        // it has (TLS; every third parked thread sets a GS base of its own with arch_prctl)
        if (ctx.ds, ctx.es, ctx.fs, ctx.gs) != (0, 0, 0, 0) {
            bad!("reg:segment", "thread {tid}: ds {:#x} es {:#x} fs {:#x} gs {:#x}, the thread holds null selectors", ctx.ds, ctx.es, ctx.fs, ctx.gs);
        }
        let Some((regs, fx)) = o.planned_regs.get(&tid) else { continue };
        match kind {
            Some(K_PARKED) => {
                for (i, name) in crate::vcore::md::GPR_NAMES.iter().enumerate() {
                    if matches!(*name, "rax" | "rcx" | "r11" | "rsp") {
                        continue;
                    }
                    if ctx.gpr[i] != regs[i] {
                        bad!(format!("reg:{name}"), "parked thread {tid}: {name} = {:#x}, the thread holds {:#x}", ctx.gpr[i], regs[i]);
                    }
                }
                if ctx.gpr[4] != o.planned_sp[&tid] {
                    bad!("reg:rsp", "parked thread {tid}: rsp {:#x} expected {:#x}", ctx.gpr[4], o.planned_sp[&tid]);
                }
                let after_syscall = o.syms["park_syscall_insn"] + 2;
                if ctx.rip != after_syscall || ctx.gpr[1] != ctx.rip {
                    bad!("reg:rip", "parked thread {tid}: rip {:#x} rcx {:#x}, expected {:#x}", ctx.rip, ctx.gpr[1], after_syscall);
                }
                checked_regs += 1;
            }
            Some(K_SPINNER) => {
                let aux = o.spinner_aux[&tid];
                for (i, name) in crate::vcore::md::GPR_NAMES.iter().enumerate() {
                    let want = match *name {
                        "rsp" => o.planned_sp[&tid],
                        "rbx" => aux,
                        "r12" => continue,
                        _ => regs[i],
                    };
                    if ctx.gpr[i] != want {
                        bad!(format!("reg:{name}"), "spinning thread {tid}: {name} = {:#x}, the thread holds {:#x}", ctx.gpr[i], want);
                    }
                }
                if ctx.rip < o.syms["spin_code_loop"] || ctx.rip >= o.syms["spin_code_end"] {
                    bad!("reg:rip", "spinning thread {tid}: rip {:#x} outside its loop", ctx.rip);
                }
                let n = ctx.gpr[12];
                if n < o.spinner_start[&tid] {
                    bad!("reg:r12", "spinner counter {n} below its start value");
                }
                // snapshot consistency: stack slot [rsp+8] and the app word, as captured
                let sp = ctx.gpr[4];
                if t.stack.size > 0 && sp + 16 <= t.stack_start + t.stack.size as u64 && sp >= t.stack_start {
                    let off = (sp + 8 - t.stack_start) as usize;
                    let slot = u64::from_le_bytes(o.bytes(t.stack)[off..off + 8].try_into().unwrap());
                    if !(slot == n || slot + 1 == n) {
                        bad!("snapshot:stack-slot", "thread {tid}: register counter {n} but captured stack slot {slot}: the thread ran between register and stack capture");
                    }
                    if let Some(mem) = o.d.memory.as_ref().and_then(|m| m.iter().find(|m| m.start <= aux && aux + 8 <= m.start + m.loc.size as u64)) {
                        let off = (aux - mem.start) as usize;
                        let word = u64::from_le_bytes(o.bytes(mem.loc)[off..off + 8].try_into().unwrap());
                        if !(word == n || word + 1 == n) || word > slot {
                            bad!("snapshot:app-word", "thread {tid}: register counter {n}, stack slot {slot}, captured app word {word}: not a single instant");
                        }
                        classes.push("snapshot-triple-checked".to_string());
                    }
                }
                checked_regs += 1;
            }
            Some(K_ODDSP) => {
                if ctx.gpr[4] != o.planned_sp[&tid] {
                    bad!("reg:rsp", "thread {tid} spinning with an odd stack pointer: rsp {:#x}, the thread holds {:#x}", ctx.gpr[4], o.planned_sp[&tid]);
                }
                if ctx.rip < o.syms["oddsp_loop"] || ctx.rip >= o.syms["oddsp_loop"] + 16 {
                    bad!("reg:rip", "thread {tid}: rip {:#x} outside its loop", ctx.rip);
                }
                classes.push("odd-sp-thread-listed".to_string());
                checked_regs += 1;
                continue;
            }
            _ => continue,
        }
        // float state of parked / spinning threads
        let want = crate::vcore::world::fpstate_of_fx(fx);
        let f = crate::vcore::md::FloatSave(&ctx.float_save);
        if f.control_word() != want.cwd || f.tag_word() != want.ftw as u8 || f.mx_csr() != want.mxcsr {
            bad!("reg:fp-control", "thread {tid}: cwd {:#x} ftw {:#x} mxcsr {:#x}", f.control_word(), f.tag_word(), f.mx_csr());
        }
        for r in 0..8 {
            if f.float_registers()[16 * r..16 * r + 10] != fx[32 + 16 * r..32 + 16 * r + 10] {
                bad!(format!("reg:st{r}"), "thread {tid}: st{r} differs");
            }
        }
        if f.xmm_registers() != &fx[160..416] {
            let r = (0..16).find(|r| f.xmm_registers()[16 * r..16 * r + 16] != fx[160 + 16 * r..176 + 16 * r]).unwrap();
            bad!(format!("reg:xmm{r}"), "thread {tid}: xmm{r} differs");
        }
    }
    if !o.gone.is_empty() {
        classes.push("thread-exited-before-attach".into());
    }
    if o.case_threads.iter().any(|(_, _, k)| *k == K_NULLSP) {
        classes.push("null-sp-thread".into());
    }
    if o.case_threads.iter().any(|(_, _, k)| *k == K_SPINNER) {
        classes.push("spinner".into());
    }
    crate::fw::count("thread-contexts-compared", checked_regs);
    if c.refuse_regsets % 4 != 0 {
        classes.push(format!("regset-interface-refused:{}", ["", "gpr", "fp", "gpr+fp"][c.refuse_regsets as usize % 4]));
    }
    let nt = threads.len() >= 2 && !classes.is_empty();
    Verdict::pass_c(if nt { Some(fp_json(c)) } else { None }, classes)
}

// ---------------------------------------------------------------------------
// the whole target is killed while the dump is being taken
// ---------------------------------------------------------------------------

#[derive(Debug, Clone, PartialEq, Eq, Hash, Serialize, Deserialize)]
pub enum KillAt {
    Enumerated,
    BeforeAttachOf(u16),
    AfterAttachOf(u16),
    Suspended,
    /// at the k-th call on the destination (the first calls happen right after suspension)
    DestCall(u8),
}

#[derive(Debug, Clone, PartialEq, Eq, Hash, Serialize, Deserialize)]
pub struct KillCase {
    pub threads: Vec<u8>,
    pub kill_at: KillAt,
    pub stop_failspot: bool,
    pub with_crash: bool,
}

pub fn check_killed(c: &KillCase) -> Verdict {
    use crate::vcore::dest::*;
    use crate::vcore::target::*;
    use crate::vcore::world::*;
    use minidump_writer::verif_hooks::Point;
    init_scratch();
    let scratch = Target::new_scratch();
    let mut b = Builder::new();
    let mut ids = vec![];
    for (i, k) in c.threads.iter().enumerate() {
        let st = b.add_stack(2, true, 4000 + i as u64);
        let id = b.add_thread(*k, Some(format!("k{i}").into_bytes()), st.base + 0x1000 + 8 * (i as u64 % 5), 700 + i as u64);
        if *k == K_SPINNER {
            b.thread_mut(id).sp = st.base + 0x1000;
        }
        ids.push(id);
    }
    let (_, words) = b.add_anon(1, 3, 0);
    let mut n = 0;
    for (id, k) in ids.iter().zip(c.threads.iter()) {
        if *k == K_SPINNER {
            b.thread_mut(*id).aux = words + 64 * n;
            n += 1;
        }
    }
    let spec = b.spec.clone();
    let t = match Target::spawn(&spec, scratch) {
        Ok(t) => t,
        Err(e) => return Verdict::Inconclusive(format!("target setup: {}", e.split(':').next().unwrap_or(""))),
    };
    if !t.wait_settled(&spec) {
        return Verdict::Inconclusive("target did not settle".into());
    }
    let pid = t.pid;
    let tids: Vec<i32> = std::iter::once(pid).chain(ids.iter().map(|id| t.tid(*id))).collect();
    let pick_tid = |k: u16| tids[((k as usize) * tids.len()) >> 16];
    let mut opts = DumpOpts { blamed: pid, ..Default::default() };
    if c.with_crash {
        let mut s = 77u64;
        let gregs: Vec<i64> = (0..23).map(|_| splitmix(&mut s) as i64).collect();
        opts.crash = Some(CrashContext2 { gregs, fp: fpstate_of_fx(&sentinel_fx(5)), signo: 11, code: 1, addr: 0, tid: pid });
    }
    let killed = std::sync::Arc::new(std::sync::atomic::AtomicBool::new(false));
    let kill = {
        let killed = killed.clone();
        move || {
            if !killed.swap(true, std::sync::atomic::Ordering::SeqCst) {
                unsafe { libc::kill(pid, libc::SIGKILL) };
                // wait until the kernel has torn the process down far enough that its threads no longer run
                for _ in 0..2000 {
                    let st = std::fs::read_to_string(format!("/proc/{pid}/stat")).unwrap_or_default();
                    let state = st.rsplit(')').next().and_then(|r| r.trim().chars().next()).unwrap_or('X');
                    if state == 'Z' || state == 'X' {
                        break;
                    }
                    std::thread::sleep(std::time::Duration::from_micros(200));
                }
            }
        }
    };
    let at = match &c.kill_at {
        KillAt::Enumerated => Some(Point::ThreadsEnumerated),
        KillAt::BeforeAttachOf(k) => Some(Point::BeforeAttach(pick_tid(*k))),
        KillAt::AfterAttachOf(k) => Some(Point::AfterAttach(pick_tid(*k), true)),
        KillAt::Suspended => Some(Point::ThreadsSuspended),
        KillAt::DestCall(_) => None,
    };
    let k2 = kill.clone();
    let hook = Box::new(move |p: Point| {
        let hit = match (&at, &p) {
            (Some(Point::AfterAttach(a, _)), Point::AfterAttach(b, _)) => a == b,
            (Some(a), b) => a == b,
            _ => false,
        };
        if hit {
            k2();
        }
    });
    let mut w = make_writer(pid, &opts);
    let mut dest = Dest::new(vec![], 0);
    if let KillAt::DestCall(k) = &c.kill_at {
        let k3 = kill.clone();
        dest.on_call(*k as u64, Box::new(move || k3()));
    }
    let mask = if c.stop_failspot { FS_STOP } else { 0 };
    let out = with_failspots(mask, || with_hook(hook, || run_dump(&mut w, &mut dest)));
    let was_killed = killed.load(std::sync::atomic::Ordering::SeqCst);
    let img = match out {
        DumpOutcome::Panic(l, m) => return panic_verdict(&l, &m),
        DumpOutcome::Err(_) => return Verdict::pass_c(if was_killed { Some(fp_json(c)) } else { None }, vec![format!("killed:{was_killed}:dump-err")]),
        DumpOutcome::Ok(v) => v,
    };
    macro_rules! bad {
        ($sig:expr, $($arg:tt)*) => { return Verdict::viol(format!("C04:killed:{}", $sig), format!($($arg)*)) };
    }
    let d = md::decode(&img);
    let Some(threads) = d.threads.as_ref() else { bad!("no-thread-list", "dump returned Ok but the thread list is missing or malformed: {:?}", d.problems.first()) };
    let mut seen = std::collections::BTreeSet::new();
    for th in threads {
        let tid = th.tid as i32;
        if !tids.contains(&tid) {
            bad!("foreign-thread", "listed thread id {tid} is not a thread of the target ({tids:?}); target killed at {:?}", c.kill_at);
        }
        if !seen.insert(tid) {
            bad!("duplicate-thread", "thread {tid} listed twice");
        }
        let ok = th.ctx.size != 0 && (th.ctx.rva as u64 + th.ctx.size as u64) <= img.len() as u64 && md::parse_ctx(&img[th.ctx.rva as usize..(th.ctx.rva + th.ctx.size) as usize]).is_some();
        if !ok {
            bad!("listed-without-valid-context", "thread {tid} is listed without a valid context (target killed at {:?})", c.kill_at);
        }
    }
    // omitted threads must be reported
    let soft = crate::props::c11::soft_errors_of(&img, &d).unwrap_or(serde_json::Value::Null);
    let mut flat = std::collections::BTreeMap::new();
    crate::props::c11::flatten(&soft, "", &mut flat);
    for tid in &tids {
        if !seen.contains(tid) && !flat.keys().any(|k| k.ends_with(&format!(":{tid}"))) {
            bad!("omitted-thread-not-reported", "thread {tid} is omitted and no soft error names it: {:?}", flat.keys().collect::<Vec<_>>());
        }
    }
    Verdict::pass_c(if was_killed { Some(fp_json(c)) } else { None }, vec![format!("killed:{was_killed}:dump-ok:{}-of-{}-listed", seen.len().min(1), 1)])
}

// ---------------------------------------------------------------------------
// the dumping thread is interrupted by signals while it collects the threads
// ---------------------------------------------------------------------------

#[derive(Debug, Clone, PartialEq, Eq, Hash, Serialize, Deserialize)]
pub struct IntrCase {
    pub parked: u8,
    pub sleepers: u8,
    pub gap_us: u16,
    pub dumps: u8,
}

pub fn check_interrupted(c: &IntrCase) -> Verdict {
    use crate::vcore::dest::Dest;
    use crate::vcore::target::*;
    use crate::vcore::world::*;
    init_scratch();
    let scratch = Target::new_scratch();
    let mut b = Builder::new();
    let mut ids = vec![];
    let mut sps = vec![];
    for i in 0..(1 + c.parked % 10) {
        let st = b.add_stack(2, true, 3000 + i as u64);
        let sp = st.base + 0x1000 + 16 * i as u64;
        ids.push((b.add_thread(K_PARKED, Some(format!("q{i}").into_bytes()), sp, 500 + i as u64), K_PARKED));
        sps.push(sp);
    }
    for i in 0..(c.sleepers % 4) {
        ids.push((b.add_thread(K_SLEEPER, Some(format!("z{i}").into_bytes()), 0, 600 + i as u64), K_SLEEPER));
    }
    let spec = b.spec.clone();
    let t = match Target::spawn(&spec, scratch) {
        Ok(t) => t,
        Err(e) => return Verdict::Inconclusive(format!("target setup: {}", e.split(':').next().unwrap_or(""))),
    };
    if !t.wait_settled(&spec) {
        return Verdict::Inconclusive("target did not settle".into());
    }
    let pid = t.pid;
    let mut want: Vec<u32> = std::iter::once(pid as u32).chain(ids.iter().map(|(id, _)| t.tid(*id) as u32)).collect();
    want.sort();
    let opts = DumpOpts { blamed: pid, ..Default::default() };
    let mut classes = std::collections::BTreeSet::new();
    let mut total_signals = 0;
    for k in 0..(2 + c.dumps % 4) {
        let mut w = make_writer(pid, &opts);
        let mut dest = Dest::new(vec![], 0);
        let (out, sent) = crate::props::c03::with_signal_storm(40 + c.gap_us as u64 % 1500, || run_dump(&mut w, &mut dest));
        drop(w);
        total_signals += sent;
        match out {
            DumpOutcome::Panic(l, m) => return panic_verdict(&l, &m),
            DumpOutcome::Err(_) => {
                classes.insert("dump-err".to_string());
            }
            DumpOutcome::Ok(img) => {
                classes.insert("dump-ok".to_string());
                let d = md::decode(&img);
                let mut got: Vec<u32> = d.threads.as_ref().map(|v| v.iter().map(|t| t.tid).collect()).unwrap_or_default();
                got.sort();
                if got != want {
                    return Verdict::viol("C04:interrupted:thread-set", format!("request #{k}, dumping thread interrupted by {sent} signals: listed {got:?}, the target's threads (all of which exist throughout and can be attached) are {want:?}"));
                }
                for (i, (id, kind)) in ids.iter().enumerate() {
                    if *kind != K_PARKED {
                        continue;
                    }
                    let tid = t.tid(*id) as u32;
                    let th = d.threads.as_ref().unwrap().iter().find(|x| x.tid == tid).unwrap();
                    let Some(ctx) = (if th.ctx.size != 0 && (th.ctx.rva as usize + th.ctx.size as usize) <= img.len() { md::parse_ctx(&img[th.ctx.rva as usize..(th.ctx.rva + th.ctx.size) as usize]) } else { None }) else { return Verdict::viol("C04:interrupted:context-missing", format!("thread {tid} has no decodable context")) };
                    if ctx.gpr[4] != sps[i] {
                        return Verdict::viol("C04:interrupted:reg:rsp", format!("parked thread {tid}: rsp {:#x}, the thread holds {:#x}", ctx.gpr[4], sps[i]));
                    }
                }
            }
        }
        if !t.wait_settled(&spec) {
            return Verdict::Inconclusive("target did not settle after an interrupted request".into());
        }
    }
    count("signals-to-the-dumping-thread", total_signals);
    Verdict::pass_c(Some(fp_json(c)), classes.into_iter().collect())
}

pub fn run(ctx: &mut LaneCtx) {
    ctx.run_sub(
        SubSpec {
            name: "dumper-interrupted",
            cases: (160, 6_000),
            rule: "targets with 1..10 parked and 0..3 sleeper threads dumped 2..5 times while the DUMPING thread receives a signal with a non-restarting handler every 40..1540 us (at most 4000 per request), so that its waits for attach stops return EINTR at arbitrary instants (sampled interleavings); oracle = every request that returns Ok lists exactly the target's threads - all of which exist throughout and can be attached - and every parked thread with its planned stack pointer; every case non-trivial; distinct = hash of case",
            strategy: (0u8..10, 0u8..4, any::<u16>(), 0u8..4).prop_map(|(parked, sleepers, gap_us, dumps)| IntrCase { parked, sleepers, gap_us, dumps }).boxed(),
            max_shrink_iters: 40,
            log_current: true,
        },
        check_interrupted,
    );
    ctx.run_sub(
        SubSpec {
            name: "killed-mid-dump",
            cases: (480, 20_000),
            rule: "targets with 1..10 parked/sleeper/spinner threads that are SIGKILLed at a generated point of the dump (threads enumerated / before or after the attach of a chosen thread / all threads suspended / k-th destination call), with and without the group stop and a crash context; oracle = the request fails, or its thread list names only threads of the target, each once, each with a valid context, and every omitted thread is named by a soft error; non-trivial = the kill point was reached; distinct = hash of case",
            strategy: (
                proptest::collection::vec(prop_oneof![3 => Just(crate::vcore::target::K_PARKED), 2 => Just(crate::vcore::target::K_SLEEPER), 1 => Just(crate::vcore::target::K_SPINNER)], 1..11),
                prop_oneof![1 => Just(KillAt::Enumerated), 2 => any::<u16>().prop_map(KillAt::BeforeAttachOf), 3 => any::<u16>().prop_map(KillAt::AfterAttachOf), 3 => Just(KillAt::Suspended), 2 => (0u8..12).prop_map(KillAt::DestCall)],
                any::<bool>(),
                any::<bool>(),
            )
                .prop_map(|(threads, kill_at, stop_failspot, with_crash)| KillCase { threads, kill_at, stop_failspot, with_crash })
                .boxed(),
            max_shrink_iters: 100,
            log_current: true,
        },
        check_killed,
    );
    ctx.assume("live part: ground truth = sentinel registers each target thread loads before blocking (parked: raw pause syscall, rax/rcx/r11 are syscall-clobbered and excluded; spinner: pure user-space loop, all GPRs compared); x87 registers compared on their 10 significant bytes; fop/fip/fdp are CPU dependent and not compared; threads can only exit between enumeration and attach with the StopProcess fail point on");
    ctx.run_sub(
        SubSpec {
            name: "live-threads",
            cases: (960, 30_000),
            rule: "generated targets (main + 1..63 threads, a fifth of the cases with more than 20 so that a triggered size limit meets a blamed thread at list position 20 or later: parked with sentinel registers, spinners with a register/stack/app-memory counter triple, sleepers, null-SP helpers, a spinner whose stack pointer holds an odd value such as all ones, exiters cued at the threads-enumerated hook; every third parked thread has a GS base of its own) dumped by the real writer - in a quarter of the cases on a thread to which the kernel refuses PTRACE_GETREGSET for the general-purpose and/or floating-point set (seccomp filter), so that PTRACE_GETREGS / PTRACE_GETFPREGS answer; oracle = set of listed ids, per-register comparison with the sentinels, counter triple within one step; non-trivial = >=2 threads and a spinner, null-SP thread or vanished thread; distinct = hash of case",
            strategy: (prop_oneof![4 => crate::props::fid::case_strategy(if ctx.tier == Tier::Quick { 20 } else { 64 }, 1), 1 => crate::props::fid::case_strategy(34, 21)], proptest::option::weighted(0.3, any::<u8>()), prop_oneof![3 => Just(0u8), 1 => 1u8..4])
                .prop_map(|(mut c, odd, refuse)| {
                    c.odd_sp = odd;
                    c.refuse_regsets = refuse;
                    if c.threads.len() > 20 {
                        // the many-thread cases are about list positions >= 20: a limit that triggers,
                        // and (two cases in three) a blamed thread from the upper part of the list
                        c.limit = crate::props::fid::LimitG::Tiny;
                        if c.threads.len() % 3 != 0 {
                            c.blamed = crate::props::fid::BlamedG::Thread(40_000 + (c.threads.len() as u16 * 631) % 25_000);
                        }
                        if odd.is_none() {
                            c.crash = None;
                        }
                    }
                    c
                })
                .boxed(),
            max_shrink_iters: 150,
            log_current: true,
        },
        judge_live,
    );
    ctx.assume("pure part: register -> context mapping judged against a hand-written table (16 GPRs, rip, eflags low 32, 6 segment selectors low 16, dr0-3/6/7, x87/SSE state as 16-byte lanes, context flags must include CONTROL|INTEGER|SEGMENTS|FLOATING_POINT)");
    ctx.run_sub(
        SubSpec {
            name: "pure-regs",
            cases: (24_000, 2_000_000),
            rule: "arbitrary user_regs_struct / user_fpregs_struct / debug registers through ThreadInfo::fill_cpu_context, serialised and re-parsed by the hand-written context parser; every field compared; every case is non-trivial (all registers random); distinct = hash of case",
            strategy: (gprs_strategy(), proptest::collection::vec(any::<u64>(), 9), fp_strategy(), proptest::collection::vec(any::<u64>(), 8))
                .prop_map(|(g, s, fp, dregs)| RegCase { g, orig_rax: s[0], cs: s[1], ss: s[2], ds: s[3], es: s[4], fs: s[5], gs: s[6], fs_base: s[7], gs_base: s[8], fp, dregs })
                .boxed(),
            max_shrink_iters: 2048,
            log_current: false,
        },
        check_regs,
    );
}

pub fn replay(sub: &str, case: &Value) -> Verdict {
    match sub {
        "pure-regs" => replay_case::<RegCase>(case, check_regs),
        "live-threads" => replay_case::<crate::props::fid::FCase>(case, judge_live),
        "killed-mid-dump" => replay_case::<KillCase>(case, check_killed),
        "dumper-interrupted" => replay_case::<IntrCase>(case, check_interrupted),
        _ => Verdict::Inconclusive(format!("unknown sub {sub}")),
    }
}
