//! C16 – the image builder obeys its layout laws.
//!
//! Generator: histories (<= 60 ops) of reserve / write / fill-later / array /
//! bytes / string operations over every element type the stream writers use.
//! Oracle: a reference `Vec<u8>` model with a hand-written little-endian field
//! layout table per type (written from the minidump format definition, not
//! from minidump-common's derive).

use crate::fw::*;
use minidump_writer::mem_writer::*;
use minidump_writer::minidump_cpu::RawContextCPU;
use minidump_writer::minidump_format::*;
use proptest::prelude::*;
use serde::{Deserialize, Serialize};
use serde_json::Value;
use std::any::Any;

pub const LEVEL: &str = "exploration";

#[derive(Debug, Clone, Copy, PartialEq, Eq, Hash, Serialize, Deserialize)]
pub enum Ty {
    U8,
    U16,
    U32,
    U64,
    Dir,
    Loc,
    MemDesc,
    Thread,
    ThreadName,
    Module,
    Header,
    SysInfo,
    ExcStream,
    MemInfo,
    MemInfoList,
    HandleDesc,
    HandleStream,
    LinkMap,
    Debug,
    Ctx,
}

const ALL_TYS: [Ty; 20] = [
    Ty::U8,
    Ty::U16,
    Ty::U32,
    Ty::U64,
    Ty::Dir,
    Ty::Loc,
    Ty::MemDesc,
    Ty::Thread,
    Ty::ThreadName,
    Ty::Module,
    Ty::Header,
    Ty::SysInfo,
    Ty::ExcStream,
    Ty::MemInfo,
    Ty::MemInfoList,
    Ty::HandleDesc,
    Ty::HandleStream,
    Ty::LinkMap,
    Ty::Debug,
    Ty::Ctx,
];
const COPY_TYS: [Ty; 6] = [Ty::U8, Ty::U16, Ty::U32, Ty::U64, Ty::Loc, Ty::MemDesc];

/// Field widths (bytes), in serialisation order, from the format definition.
fn layout(t: Ty) -> Vec<usize> {
    match t {
        Ty::U8 => vec![1],
        Ty::U16 => vec![2],
        Ty::U32 => vec![4],
        Ty::U64 => vec![8],
        Ty::Dir => vec![4, 4, 4],
        Ty::Loc => vec![4, 4],
        Ty::MemDesc => vec![8, 4, 4],
        Ty::Thread => vec![4, 4, 4, 4, 8, 8, 4, 4, 4, 4],
        Ty::ThreadName => vec![4, 8],
        Ty::Module => {
            let mut v = vec![8, 4, 4, 4, 4];
            v.extend([4; 13]);
            v.extend([4; 8]);
            v
        }
        Ty::Header => vec![4, 4, 4, 4, 4, 4, 8],
        Ty::SysInfo => {
            let mut v = vec![2, 2, 2, 1, 1, 4, 4, 4, 4, 4, 2, 2];
            v.extend([1; 24]);
            v
        }
        Ty::ExcStream => {
            let mut v = vec![4, 4, 4, 4, 8, 8, 4, 4];
            v.extend([8; 15]);
            v.extend([4, 4]);
            v
        }
        Ty::MemInfo => vec![8, 8, 4, 4, 8, 4, 4, 4, 4],
        Ty::MemInfoList => vec![4, 4, 8],
        Ty::HandleDesc => vec![8, 4, 4, 4, 4, 4, 4],
        Ty::HandleStream => vec![4, 4, 4, 4],
        Ty::LinkMap => vec![8, 4, 8],
        Ty::Debug => vec![4, 4, 4, 8, 8, 8],
        Ty::Ctx => {
            let mut v = vec![8; 6];
            v.extend([4, 4, 2, 2, 2, 2, 2, 2, 4]);
            v.extend([8; 6]);
            v.extend([8; 17]);
            v.extend([1; 512]);
            v.extend([16; 26]);
            v.extend([8; 6]);
            v
        }
    }
}

pub fn size_of_ty(t: Ty) -> usize {
    layout(t).iter().sum()
}

fn splitmix(x: &mut u64) -> u64 {
    *x = x.wrapping_add(0x9e37_79b9_7f4a_7c15);
    let mut z = *x;
    z = (z ^ (z >> 30)).wrapping_mul(0xbf58_476d_1ce4_e5b9);
    z = (z ^ (z >> 27)).wrapping_mul(0x94d0_49bb_1331_11eb);
    z ^ (z >> 31)
}

/// Field values for a type from a seed (pure function of the generated seed).
fn values(t: Ty, seed: u64) -> Vec<u128> {
    let mut s = seed;
    layout(t)
        .iter()
        .map(|w| {
            let lo = splitmix(&mut s) as u128;
            let hi = splitmix(&mut s) as u128;
            let v = (hi << 64) | lo;
            if *w >= 16 {
                v
            } else {
                v & ((1u128 << (8 * *w)) - 1)
            }
        })
        .collect()
}

/// Reference serialiser: little-endian concatenation of the fields.
fn model_bytes(t: Ty, vals: &[u128]) -> Vec<u8> {
    let mut out = vec![];
    for (w, v) in layout(t).iter().zip(vals) {
        out.extend_from_slice(&v.to_le_bytes()[..*w]);
    }
    out
}

struct It<'a>(std::slice::Iter<'a, u128>);
impl It<'_> {
    fn u8(&mut self) -> u8 {
        *self.0.next().unwrap() as u8
    }
    fn u16(&mut self) -> u16 {
        *self.0.next().unwrap() as u16
    }
    fn u32(&mut self) -> u32 {
        *self.0.next().unwrap() as u32
    }
    fn u64(&mut self) -> u64 {
        *self.0.next().unwrap() as u64
    }
    fn u128(&mut self) -> u128 {
        *self.0.next().unwrap()
    }
    fn loc(&mut self) -> MDLocationDescriptor {
        MDLocationDescriptor {
            data_size: self.u32(),
            rva: self.u32(),
        }
    }
}

trait Build: Sized {
    fn build(it: &mut It) -> Self;
}
impl Build for u8 {
    fn build(it: &mut It) -> Self {
        it.u8()
    }
}
impl Build for u16 {
    fn build(it: &mut It) -> Self {
        it.u16()
    }
}
impl Build for u32 {
    fn build(it: &mut It) -> Self {
        it.u32()
    }
}
impl Build for u64 {
    fn build(it: &mut It) -> Self {
        it.u64()
    }
}
impl Build for MDRawDirectory {
    fn build(it: &mut It) -> Self {
        MDRawDirectory {
            stream_type: it.u32(),
            location: it.loc(),
        }
    }
}
impl Build for MDLocationDescriptor {
    fn build(it: &mut It) -> Self {
        it.loc()
    }
}
impl Build for MDMemoryDescriptor {
    fn build(it: &mut It) -> Self {
        MDMemoryDescriptor {
            start_of_memory_range: it.u64(),
            memory: it.loc(),
        }
    }
}
impl Build for MDRawThread {
    fn build(it: &mut It) -> Self {
        MDRawThread {
            thread_id: it.u32(),
            suspend_count: it.u32(),
            priority_class: it.u32(),
            priority: it.u32(),
            teb: it.u64(),
            stack: MDMemoryDescriptor {
                start_of_memory_range: it.u64(),
                memory: it.loc(),
            },
            thread_context: it.loc(),
        }
    }
}
impl Build for MDRawThreadName {
    fn build(it: &mut It) -> Self {
        MDRawThreadName {
            thread_id: it.u32(),
            thread_name_rva: it.u64(),
        }
    }
}
impl Build for MDRawModule {
    fn build(it: &mut It) -> Self {
        MDRawModule {
            base_of_image: it.u64(),
            size_of_image: it.u32(),
            checksum: it.u32(),
            time_date_stamp: it.u32(),
            module_name_rva: it.u32(),
            version_info: MDVSFixedFileInfo {
                signature: it.u32(),
                struct_version: it.u32(),
                file_version_hi: it.u32(),
                file_version_lo: it.u32(),
                product_version_hi: it.u32(),
                product_version_lo: it.u32(),
                file_flags_mask: it.u32(),
                file_flags: it.u32(),
                file_os: it.u32(),
                file_type: it.u32(),
                file_subtype: it.u32(),
                file_date_hi: it.u32(),
                file_date_lo: it.u32(),
            },
            cv_record: it.loc(),
            misc_record: it.loc(),
            reserved0: [it.u32(), it.u32()],
            reserved1: [it.u32(), it.u32()],
        }
    }
}
impl Build for MDRawHeader {
    fn build(it: &mut It) -> Self {
        MDRawHeader {
            signature: it.u32(),
            version: it.u32(),
            stream_count: it.u32(),
            stream_directory_rva: it.u32(),
            checksum: it.u32(),
            time_date_stamp: it.u32(),
            flags: it.u64(),
        }
    }
}
impl Build for MDRawSystemInfo {
    fn build(it: &mut It) -> Self {
        MDRawSystemInfo {
            processor_architecture: it.u16(),
            processor_level: it.u16(),
            processor_revision: it.u16(),
            number_of_processors: it.u8(),
            product_type: it.u8(),
            major_version: it.u32(),
            minor_version: it.u32(),
            build_number: it.u32(),
            platform_id: it.u32(),
            csd_version_rva: it.u32(),
            suite_mask: it.u16(),
            reserved2: it.u16(),
            cpu: format::CPU_INFORMATION {
                data: {
                    let mut d = [0u8; 24];
                    for b in d.iter_mut() {
                        *b = it.u8();
                    }
                    d
                },
            },
        }
    }
}
impl Build for MDRawExceptionStream {
    fn build(it: &mut It) -> Self {
        MDRawExceptionStream {
            thread_id: it.u32(),
            __align: it.u32(),
            exception_record: MDException {
                exception_code: it.u32(),
                exception_flags: it.u32(),
                exception_record: it.u64(),
                exception_address: it.u64(),
                number_parameters: it.u32(),
                __align: it.u32(),
                exception_information: {
                    let mut d = [0u64; 15];
                    for b in d.iter_mut() {
                        *b = it.u64();
                    }
                    d
                },
            },
            thread_context: it.loc(),
        }
    }
}
impl Build for MDMemoryInfo {
    fn build(it: &mut It) -> Self {
        MDMemoryInfo {
            base_address: it.u64(),
            allocation_base: it.u64(),
            allocation_protection: it.u32(),
            __alignment1: it.u32(),
            region_size: it.u64(),
            state: it.u32(),
            protection: it.u32(),
            _type: it.u32(),
            __alignment2: it.u32(),
        }
    }
}
impl Build for MDMemoryInfoList {
    fn build(it: &mut It) -> Self {
        MDMemoryInfoList {
            size_of_header: it.u32(),
            size_of_entry: it.u32(),
            number_of_entries: it.u64(),
        }
    }
}
impl Build for MDRawHandleDescriptor {
    fn build(it: &mut It) -> Self {
        MDRawHandleDescriptor {
            handle: it.u64(),
            type_name_rva: it.u32(),
            object_name_rva: it.u32(),
            attributes: it.u32(),
            granted_access: it.u32(),
            handle_count: it.u32(),
            pointer_count: it.u32(),
        }
    }
}
impl Build for MDRawHandleDataStream {
    fn build(it: &mut It) -> Self {
        MDRawHandleDataStream {
            size_of_header: it.u32(),
            size_of_descriptor: it.u32(),
            number_of_descriptors: it.u32(),
            reserved: it.u32(),
        }
    }
}
impl Build for MDRawLinkMap {
    fn build(it: &mut It) -> Self {
        MDRawLinkMap {
            addr: it.u64(),
            name: it.u32(),
            ld: it.u64(),
        }
    }
}
impl Build for MDRawDebug {
    fn build(it: &mut It) -> Self {
        MDRawDebug {
            version: it.u32(),
            map: it.u32(),
            dso_count: it.u32(),
            brk: it.u64(),
            ldbase: it.u64(),
            dynamic: it.u64(),
        }
    }
}
impl Build for RawContextCPU {
    fn build(it: &mut It) -> Self {
        let mut c = RawContextCPU::default();
        c.p1_home = it.u64();
        c.p2_home = it.u64();
        c.p3_home = it.u64();
        c.p4_home = it.u64();
        c.p5_home = it.u64();
        c.p6_home = it.u64();
        c.context_flags = it.u32();
        c.mx_csr = it.u32();
        c.cs = it.u16();
        c.ds = it.u16();
        c.es = it.u16();
        c.fs = it.u16();
        c.gs = it.u16();
        c.ss = it.u16();
        c.eflags = it.u32();
        c.dr0 = it.u64();
        c.dr1 = it.u64();
        c.dr2 = it.u64();
        c.dr3 = it.u64();
        c.dr6 = it.u64();
        c.dr7 = it.u64();
        c.rax = it.u64();
        c.rcx = it.u64();
        c.rdx = it.u64();
        c.rbx = it.u64();
        c.rsp = it.u64();
        c.rbp = it.u64();
        c.rsi = it.u64();
        c.rdi = it.u64();
        c.r8 = it.u64();
        c.r9 = it.u64();
        c.r10 = it.u64();
        c.r11 = it.u64();
        c.r12 = it.u64();
        c.r13 = it.u64();
        c.r14 = it.u64();
        c.r15 = it.u64();
        c.rip = it.u64();
        for b in c.float_save.iter_mut() {
            *b = it.u8();
        }
        for v in c.vector_register.iter_mut() {
            *v = it.u128();
        }
        c.vector_control = it.u64();
        c.debug_control = it.u64();
        c.last_branch_to_rip = it.u64();
        c.last_branch_from_rip = it.u64();
        c.last_exception_to_rip = it.u64();
        c.last_exception_from_rip = it.u64();
        c
    }
}

fn build<T: Build>(vals: &[u128]) -> T {
    T::build(&mut It(vals.iter()))
}

macro_rules! with_ty {
    ($t:expr, $T:ident => $body:expr) => {
        match $t {
            Ty::U8 => { type $T = u8; $body }
            Ty::U16 => { type $T = u16; $body }
            Ty::U32 => { type $T = u32; $body }
            Ty::U64 => { type $T = u64; $body }
            Ty::Dir => { type $T = MDRawDirectory; $body }
            Ty::Loc => { type $T = MDLocationDescriptor; $body }
            Ty::MemDesc => { type $T = MDMemoryDescriptor; $body }
            Ty::Thread => { type $T = MDRawThread; $body }
            Ty::ThreadName => { type $T = MDRawThreadName; $body }
            Ty::Module => { type $T = MDRawModule; $body }
            Ty::Header => { type $T = MDRawHeader; $body }
            Ty::SysInfo => { type $T = MDRawSystemInfo; $body }
            Ty::ExcStream => { type $T = MDRawExceptionStream; $body }
            Ty::MemInfo => { type $T = MDMemoryInfo; $body }
            Ty::MemInfoList => { type $T = MDMemoryInfoList; $body }
            Ty::HandleDesc => { type $T = MDRawHandleDescriptor; $body }
            Ty::HandleStream => { type $T = MDRawHandleDataStream; $body }
            Ty::LinkMap => { type $T = MDRawLinkMap; $body }
            Ty::Debug => { type $T = MDRawDebug; $body }
            Ty::Ctx => { type $T = RawContextCPU; $body }
        }
    };
}
macro_rules! with_copy_ty {
    ($t:expr, $T:ident => $body:expr) => {
        match $t {
            Ty::U8 => { type $T = u8; $body }
            Ty::U16 => { type $T = u16; $body }
            Ty::U32 => { type $T = u32; $body }
            Ty::U64 => { type $T = u64; $body }
            Ty::Loc => { type $T = MDLocationDescriptor; $body }
            Ty::MemDesc => { type $T = MDMemoryDescriptor; $body }
            _ => unreachable!(),
        }
    };
}

#[derive(Debug, Clone, Serialize, Deserialize)]
pub enum Op {
    Alloc { ty: Ty },
    AllocVal { ty: Ty, seed: u64 },
    SetValue { slot: u16, seed: u64 },
    AllocArray { ty: Ty, n: u16 },
    SetAt { arr: u16, idx: u16, seed: u64 },
    FromArray { ty: Ty, n: u16, seed: u64 },
    FromIter { ty: Ty, n: u16, seed: u64 },
    WriteBytes { data: Vec<u8> },
    WriteAll { data: Vec<u8> },
    Str { s: String },
}

#[derive(Debug, Clone, Serialize, Deserialize)]
pub struct Case {
    pub ops: Vec<Op>,
}

fn ty_strategy() -> impl Strategy<Value = Ty> {
    (0..ALL_TYS.len()).prop_map(|i| ALL_TYS[i])
}
fn copy_ty_strategy() -> impl Strategy<Value = Ty> {
    (0..COPY_TYS.len()).prop_map(|i| COPY_TYS[i])
}

pub fn string_strategy() -> impl Strategy<Value = String> {
    let ch = prop_oneof![
        4 => any::<char>(),
        2 => (0x20u32..0x7f).prop_map(|c| char::from_u32(c).unwrap()),
        1 => (0x1_0000u32..0x11_0000).prop_filter_map("surrogate", char::from_u32),
        1 => prop_oneof![Just('\u{0}'), Just('\u{ffff}'), Just('\u{d7ff}'), Just('\u{e000}'), Just('\u{10ffff}'), Just('\u{fffd}')],
    ];
    prop_oneof![
        12 => proptest::collection::vec(ch.clone(), 0..24),
        // around 256 UTF-16 units (a plausible fixed-buffer size) and far beyond
        1 => proptest::collection::vec(ch.clone(), 120..135),
        1 => proptest::collection::vec(ch.clone(), 250..262),
        1 => proptest::collection::vec(ch, 600..1200),
    ]
    .prop_map(|v| v.into_iter().collect())
}

/// element counts: mostly a handful, sometimes hundreds, sometimes around the powers of two up to 4096
/// (a thread list, a memory list or a module list of a large process)
fn count_strategy() -> impl Strategy<Value = u16> {
    prop_oneof![
        40 => 0u16..9,
        3 => 9u16..300,
        1 => (0usize..5, 0u16..4).prop_map(|(k, d)| [255u16, 511, 1023, 2047, 4095][k] + d),
        1 => 300u16..3000,
    ]
}

fn op_strategy() -> impl Strategy<Value = Op> {
    prop_oneof![
        3 => ty_strategy().prop_map(|ty| Op::Alloc { ty }),
        3 => (ty_strategy(), any::<u64>()).prop_map(|(ty, seed)| Op::AllocVal { ty, seed }),
        4 => (any::<u16>(), any::<u64>()).prop_map(|(slot, seed)| Op::SetValue { slot, seed }),
        3 => (ty_strategy(), count_strategy()).prop_map(|(ty, n)| Op::AllocArray { ty, n }),
        4 => (any::<u16>(), any::<u16>(), any::<u64>()).prop_map(|(arr, idx, seed)| Op::SetAt { arr, idx, seed }),
        2 => (copy_ty_strategy(), count_strategy(), any::<u64>()).prop_map(|(ty, n, seed)| Op::FromArray { ty, n, seed }),
        2 => (ty_strategy(), count_strategy(), any::<u64>()).prop_map(|(ty, n, seed)| Op::FromIter { ty, n, seed }),
        2 => proptest::collection::vec(any::<u8>(), 0..40).prop_map(|data| Op::WriteBytes { data }),
        1 => proptest::collection::vec(any::<u8>(), 0..40).prop_map(|data| Op::WriteAll { data }),
        3 => string_strategy().prop_map(|s| Op::Str { s }),
    ]
}

struct Slot {
    ty: Ty,
    pos: usize,
    w: Box<dyn Any>,
}
struct Arr {
    ty: Ty,
    pos: usize,
    n: usize,
    w: Box<dyn Any>,
}

fn idx_of(sel: u16, len: usize) -> usize {
    // monotone map (shrinks towards 0)
    ((sel as usize) * len) >> 16
}

pub fn check(case: &Case) -> Verdict {
    let mut buf = Buffer::with_capacity(0);
    let mut model: Vec<u8> = vec![];
    let mut slots: Vec<Slot> = vec![];
    let mut arrs: Vec<Arr> = vec![];
    let mut appends_since: Vec<usize> = vec![]; // per slot creation order: model len at creation
    let mut fill_later_after_append = false;
    let mut kinds = std::collections::BTreeSet::new();

    macro_rules! bad {
        ($sig:expr, $($arg:tt)*) => {
            return Verdict::viol(format!("C16:{}", $sig), format!($($arg)*))
        };
    }

    for (step, op) in case.ops.iter().enumerate() {
        let old_len = model.len();
        if buf.position() as usize != old_len {
            bad!("position", "step {step}: position {} != model len {old_len}", buf.position());
        }
        match op {
            Op::Alloc { ty } => {
                let sz = size_of_ty(*ty);
                with_ty!(*ty, T => {
                    let w = match MemoryWriter::<T>::alloc(&mut buf) { Ok(w) => w, Err(e) => bad!("alloc-err", "{e:?}") };
                    let loc = w.location();
                    if loc.rva as usize != old_len || loc.data_size as usize != sz || w.position as usize != old_len || w.size != sz {
                        bad!("alloc-location", "step {step} {ty:?}: location ({},{}) expected ({old_len},{sz})", loc.rva, loc.data_size);
                    }
                    slots.push(Slot { ty: *ty, pos: old_len, w: Box::new(w) });
                });
                model.extend(std::iter::repeat(0).take(sz));
                appends_since.push(model.len());
                kinds.insert("alloc");
            }
            Op::AllocVal { ty, seed } => {
                let vals = values(*ty, *seed);
                let bytes = model_bytes(*ty, &vals);
                with_ty!(*ty, T => {
                    let v: T = build(&vals);
                    let w = match MemoryWriter::<T>::alloc_with_val(&mut buf, v) { Ok(w) => w, Err(e) => bad!("alloc-err", "{e:?}") };
                    let loc = w.location();
                    if loc.rva as usize != old_len || loc.data_size as usize != bytes.len() || w.size != bytes.len() {
                        bad!("allocval-location", "step {step} {ty:?}: location ({},{}) size {} expected ({old_len},{})", loc.rva, loc.data_size, w.size, bytes.len());
                    }
                    slots.push(Slot { ty: *ty, pos: old_len, w: Box::new(w) });
                });
                model.extend_from_slice(&bytes);
                appends_since.push(model.len());
                kinds.insert("alloc_with_val");
            }
            Op::SetValue { slot, seed } => {
                if slots.is_empty() {
                    continue;
                }
                let i = idx_of(*slot, slots.len());
                let s = &mut slots[i];
                let vals = values(s.ty, *seed);
                let bytes = model_bytes(s.ty, &vals);
                with_ty!(s.ty, T => {
                    let w = s.w.downcast_mut::<MemoryWriter<T>>().unwrap();
                    if let Err(e) = w.set_value(&mut buf, build::<T>(&vals)) { bad!("set-err", "{e:?}") }
                    let loc = w.location();
                    if loc.rva as usize != s.pos { bad!("slot-moved", "slot moved") }
                });
                model[s.pos..s.pos + bytes.len()].copy_from_slice(&bytes);
                if appends_since[i] < old_len {
                    fill_later_after_append = true;
                }
                kinds.insert("set_value");
            }
            Op::AllocArray { ty, n } => {
                let sz = size_of_ty(*ty);
                let n = *n as usize % 4200;
                with_ty!(*ty, T => {
                    let w = match MemoryArrayWriter::<T>::alloc_array(&mut buf, n) { Ok(w) => w, Err(e) => bad!("alloc-err", "{e:?}") };
                    let loc = w.location();
                    if loc.rva as usize != old_len || loc.data_size as usize != sz * n || w.position as usize != old_len {
                        bad!("array-location", "step {step} {ty:?}x{n}: location ({},{}) expected ({old_len},{})", loc.rva, loc.data_size, sz * n);
                    }
                    for i in 0..n {
                        let li = w.location_of_index(i);
                        if li.rva as usize != old_len + i * sz || li.data_size as usize != sz {
                            bad!("location-of-index", "{ty:?}[{i}] at ({},{}) expected ({}, {sz})", li.rva, li.data_size, old_len + i * sz);
                        }
                    }
                    arrs.push(Arr { ty: *ty, pos: old_len, n, w: Box::new(w) });
                });
                model.extend(std::iter::repeat(0).take(sz * n));
                kinds.insert("alloc_array");
            }
            Op::SetAt { arr, idx, seed } => {
                let cands: Vec<usize> = (0..arrs.len()).filter(|i| arrs[*i].n > 0).collect();
                if cands.is_empty() {
                    continue;
                }
                let ai = cands[idx_of(*arr, cands.len())];
                let a = &mut arrs[ai];
                let i = idx_of(*idx, a.n);
                let vals = values(a.ty, *seed);
                let bytes = model_bytes(a.ty, &vals);
                with_ty!(a.ty, T => {
                    let w = a.w.downcast_mut::<MemoryArrayWriter<T>>().unwrap();
                    if let Err(e) = w.set_value_at(&mut buf, build::<T>(&vals), i) { bad!("set-err", "{e:?}") }
                });
                let at = a.pos + i * bytes.len();
                model[at..at + bytes.len()].copy_from_slice(&bytes);
                if a.pos + a.n * bytes.len() < old_len {
                    fill_later_after_append = true;
                }
                kinds.insert("set_value_at");
            }
            Op::FromArray { ty, n, seed } => {
                // alloc_from_array needs Copy element types: other types fold onto one of those (total interpreter)
                let ty = &if COPY_TYS.contains(ty) { *ty } else { COPY_TYS[(*seed % COPY_TYS.len() as u64) as usize] };
                let n = *n as usize % 4200;
                let sz = size_of_ty(*ty);
                let mut all = vec![];
                with_copy_ty!(*ty, T => {
                    let mut v: Vec<T> = vec![];
                    for i in 0..n {
                        let vals = values(*ty, seed.wrapping_add(i as u64 * 7919));
                        all.extend(model_bytes(*ty, &vals));
                        v.push(build::<T>(&vals));
                    }
                    let w = match MemoryArrayWriter::<T>::alloc_from_array(&mut buf, &v) { Ok(w) => w, Err(e) => bad!("alloc-err", "{e:?}") };
                    let loc = w.location();
                    if loc.rva as usize != old_len || loc.data_size as usize != sz * n {
                        bad!("array-location", "from_array {ty:?}x{n}: ({},{}) expected ({old_len},{})", loc.rva, loc.data_size, sz * n);
                    }
                    arrs.push(Arr { ty: *ty, pos: old_len, n, w: Box::new(w) });
                });
                model.extend(all);
                kinds.insert("alloc_from_array");
            }
            Op::FromIter { ty, n, seed } => {
                let n = *n as usize % 4200;
                let sz = size_of_ty(*ty);
                let mut all = vec![];
                with_ty!(*ty, T => {
                    let mut v: Vec<T> = vec![];
                    for i in 0..n {
                        let vals = values(*ty, seed.wrapping_add(i as u64 * 104729));
                        all.extend(model_bytes(*ty, &vals));
                        v.push(build::<T>(&vals));
                    }
                    let w = match MemoryArrayWriter::<T>::alloc_from_iter(&mut buf, v) { Ok(w) => w, Err(e) => bad!("alloc-err", "{e:?}") };
                    let loc = w.location();
                    if loc.rva as usize != old_len || loc.data_size as usize != sz * n {
                        bad!("array-location", "from_iter {ty:?}x{n}: ({},{}) expected ({old_len},{})", loc.rva, loc.data_size, sz * n);
                    }
                    arrs.push(Arr { ty: *ty, pos: old_len, n, w: Box::new(w) });
                });
                model.extend(all);
                kinds.insert("alloc_from_iter");
            }
            Op::WriteBytes { data } => {
                let w = MemoryArrayWriter::<u8>::write_bytes(&mut buf, data);
                let loc = w.location();
                if loc.rva as usize != old_len || loc.data_size as usize != data.len() {
                    bad!("bytes-location", "write_bytes: ({},{}) expected ({old_len},{})", loc.rva, loc.data_size, data.len());
                }
                model.extend_from_slice(data);
                kinds.insert("write_bytes");
            }
            Op::WriteAll { data } => {
                buf.write_all(data);
                model.extend_from_slice(data);
                kinds.insert("write_all");
            }
            Op::Str { s } => {
                let loc = match write_string_to_location(&mut buf, s) {
                    Ok(l) => l,
                    Err(e) => bad!("string-err", "{e:?}"),
                };
                let units: Vec<u16> = s.encode_utf16().collect();
                if loc.rva as usize != old_len || loc.data_size as usize != 4 + 2 * units.len() {
                    bad!("string-location", "string {s:?}: ({},{}) expected ({old_len},{})", loc.rva, loc.data_size, 4 + 2 * units.len());
                }
                model.extend_from_slice(&((2 * units.len()) as u32).to_le_bytes());
                for u in &units {
                    model.extend_from_slice(&u.to_le_bytes());
                }
                // round trip from the implementation's bytes
                let img: &[u8] = &buf;
                if img.len() >= old_len + 4 {
                    let n = u32::from_le_bytes(img[old_len..old_len + 4].try_into().unwrap()) as usize;
                    if old_len + 4 + n <= img.len() && n % 2 == 0 {
                        let us: Vec<u16> = img[old_len + 4..old_len + 4 + n]
                            .chunks(2)
                            .map(|c| u16::from_le_bytes([c[0], c[1]]))
                            .collect();
                        let back: String = char::decode_utf16(us).map(|r| r.unwrap_or('\u{fffd}')).collect();
                        if &back != s {
                            bad!("string-roundtrip", "{s:?} decoded as {back:?}");
                        }
                    } else {
                        bad!("string-length", "declared byte length {n} does not fit / is odd");
                    }
                }
                kinds.insert("string");
            }
        }
        let img: &[u8] = &buf;
        if img != model.as_slice() {
            // find first difference for the signature
            let at = img.iter().zip(model.iter()).position(|(a, b)| a != b).unwrap_or(img.len().min(model.len()));
            let kind = if at < old_len { "earlier-bytes-changed" } else { "appended-bytes-wrong" };
            bad!(kind, "step {step} {op:?}: image differs from model at offset {at} (len {} vs {}), old_len {old_len}", img.len(), model.len());
        }
    }
    let nt = if fill_later_after_append && kinds.len() >= 3 {
        Some(fp_json(case))
    } else {
        None
    };
    let mut classes: Vec<String> = kinds.iter().map(|k| k.to_string()).collect();
    if fill_later_after_append {
        classes.push("fill-later-after-append".into());
    }
    Verdict::pass_c(nt, classes)
}

/// Size law for every type, serialised bytes == hand-written field serialiser.
#[derive(Debug, Clone, Serialize, Deserialize)]
pub struct ValCase {
    pub ty: Ty,
    pub seed: u64,
    pub prefix: u8,
}

fn check_val(c: &ValCase) -> Verdict {
    let mut buf = Buffer::with_capacity(0);
    buf.write_all(&vec![0xa5; c.prefix as usize]);
    let vals = values(c.ty, c.seed);
    let want = model_bytes(c.ty, &vals);
    with_ty!(c.ty, T => {
        let w = match MemoryWriter::<T>::alloc_with_val(&mut buf, build::<T>(&vals)) {
            Ok(w) => w,
            Err(e) => return Verdict::viol("C16:alloc-err", format!("{e:?}")),
        };
        if w.location().rva != c.prefix as u32 || w.location().data_size as usize != want.len() {
            return Verdict::viol("C16:allocval-location", format!("{:?}", w.location()));
        }
    });
    let img: &[u8] = &buf;
    if &img[c.prefix as usize..] != want.as_slice() || img[..c.prefix as usize].iter().any(|b| *b != 0xa5) {
        return Verdict::viol(
            format!("C16:serialized-bytes:{:?}", c.ty),
            format!("{:?}: bytes differ from the field-by-field little-endian layout", c.ty),
        );
    }
    Verdict::pass_nt(fingerprint(&(c.ty, c.seed)), vec![format!("{:?}", c.ty)])
}

pub fn run(ctx: &mut LaneCtx) {
    ctx.assume("layout table per element type is hand-written from the minidump format definition; little-endian only (the writer is only built for x86_64 here)");
    ctx.run_sub(
        SubSpec {
            name: "history",
            cases: (48_000, 3_000_000),
            rule: "histories of <=60 builder ops over 20 element types (arrays of 0..8 elements mostly, sometimes hundreds and sometimes 255..4098 elements around the powers of two) and Unicode strings (0..23 characters, and lengths around 128, 256 and 600..1200) vs a Vec<u8> reference model checked after every op; non-trivial = history contains a fill-later (set_value/set_value_at) after >=1 intervening append and uses >=3 op kinds; distinct = hash of the history",
            strategy: proptest::collection::vec(op_strategy(), 0..60).prop_map(|ops| Case { ops }).boxed(),
            max_shrink_iters: 4096,
            log_current: false,
        },
        check,
    );
    ctx.run_sub(
        SubSpec {
            name: "value-bytes",
            cases: (8_000, 400_000),
            rule: "one value of each element type written after a 0..255 byte prefix; bytes must equal the hand-written field serialiser; non-trivial = every case (distinct by type+seed)",
            strategy: (ty_strategy(), any::<u64>(), any::<u8>())
                .prop_map(|(ty, seed, prefix)| ValCase { ty, seed, prefix })
                .boxed(),
            max_shrink_iters: 1024,
            log_current: false,
        },
        check_val,
    );
}

pub fn replay(sub: &str, case: &Value) -> Verdict {
    match sub {
        "history" => replay_case::<Case>(case, check),
        "value-bytes" => replay_case::<ValCase>(case, check_val),
        _ => Verdict::Inconclusive(format!("unknown sub {sub}")),
    }
}
