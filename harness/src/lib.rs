//! vcheck library: framework, shared machinery and property checks (also used
//! by the cargo-fuzz targets under /verif/fuzz).
pub mod fw;
pub mod props;
pub mod vcore;
