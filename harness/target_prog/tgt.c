// Specification-driven target program for the minidump-writer verification
// harness.  Usage: tgt <specfile> [ignored argv...]
//
// Reads a line-based spec, builds mappings / threads / descriptors exactly as
// described, prints a report on stdout and then serves commands on stdin.
#define _GNU_SOURCE
#include <errno.h>
#include <link.h>
#include <fcntl.h>
#include <pthread.h>
#include <sched.h>
#include <signal.h>
#include <stdint.h>
#include <stdio.h>
#include <stdlib.h>
#include <string.h>
#include <sys/eventfd.h>
#include <sys/mman.h>
#include <sys/mount.h>
#include <sys/prctl.h>
#include <sys/resource.h>
#include <sys/socket.h>
#include <sys/stat.h>
#include <sys/syscall.h>
#include <sys/types.h>
#include <time.h>
#include <unistd.h>

#ifndef MAP_FIXED_NOREPLACE
#define MAP_FIXED_NOREPLACE 0x100000
#endif

#define MAX_THREADS 80
#define MAX_MAPS 256
#define NSIG_SLOTS 8

// ---- shared page layout (also known to the harness) -----------------------
struct shared {
  volatile uint64_t heartbeat[MAX_THREADS];            // 0
  volatile uint64_t sigcount[MAX_THREADS][NSIG_SLOTS]; // 640
  volatile uint64_t sigpayload[MAX_THREADS][NSIG_SLOTS];
  volatile uint64_t wrong_thread;                       // signals seen by a thread with no slot
};
static struct shared *shm;
static struct shared dummy_shm;

struct thr {
  uint64_t regs[16]; // rax rcx rdx rbx rsp rbp rsi rdi r8..r15      (offset 0)
  uint64_t aux;      // spinner: address of the app word            (offset 128)
  uint64_t code;     // spinner: address to run the loop at (0 = in place) (136)
  uint8_t fx[512] __attribute__((aligned(16))); //                   (offset 144)
  int id, kind;
  int has_name, namelen;
  char name[16];
  int pipefd[2];
  volatile int tid;
  pthread_t pt;
};
enum { K_PARKED = 0, K_SPINNER = 1, K_SLEEPER = 2, K_NULLSP = 3, K_EXITER = 4, K_FDCHURN = 5, K_ODDSP = 6, K_MAPCHURN = 7 };

static struct thr thrs[MAX_THREADS] __attribute__((aligned(16)));
static int nthr;
static int leader_exit;
static __thread int my_id = -1;

struct map {
  int id;
  uint64_t addr, len;
};
static struct map maps[MAX_MAPS];
static int nmaps;

static uint8_t pat(uint64_t a, uint64_t seed) {
  uint64_t x = (a ^ seed) * 0x9E3779B97F4A7C15ull;
  x ^= x >> 29;
  return (uint8_t)(x >> 56);
}

static void die(const char *what) {
  fprintf(stderr, "tgt: %s: %s\n", what, strerror(errno));
  printf("fail %s\n", what);
  fflush(stdout);
  _exit(3);
}

// ---- asm thread bodies -----------------------------------------------------
// rdi = struct thr *.  Offsets: regs 0, aux 128, code 136, fx 144.
void park_entry(struct thr *);
void spin_entry(struct thr *);
void nullsp_entry(struct thr *);
void oddsp_entry(struct thr *);
extern char spin_code_start[], spin_code_loop[], spin_code_end[];
extern char park_syscall_insn[], nullsp_loop[], oddsp_loop[];
__asm__(
    ".text\n"
    ".globl park_entry\n"
    "park_entry:\n"
    "  fxrstor64 144(%rdi)\n"
    "  mov %rdi, %r11\n"
    "  mov 16(%r11), %rdx\n"
    "  mov 24(%r11), %rbx\n"
    "  mov 40(%r11), %rbp\n"
    "  mov 48(%r11), %rsi\n"
    "  mov 56(%r11), %rdi\n"
    "  mov 64(%r11), %r8\n"
    "  mov 72(%r11), %r9\n"
    "  mov 80(%r11), %r10\n"
    "  mov 96(%r11), %r12\n"
    "  mov 104(%r11), %r13\n"
    "  mov 112(%r11), %r14\n"
    "  mov 120(%r11), %r15\n"
    "  mov 32(%r11), %rsp\n"
    "1:\n"
    "  mov $34, %eax\n" // pause
    ".globl park_syscall_insn\n"
    "park_syscall_insn:\n"
    "  syscall\n"
    "  jmp 1b\n"
    "\n"
    ".globl spin_entry\n"
    "spin_entry:\n"
    "  mov 136(%rdi), %rax\n"
    "  test %rax, %rax\n"
    "  jnz 2f\n"
    "  lea spin_code_start(%rip), %rax\n"
    "2:\n"
    "  jmp *%rax\n"
    ".globl spin_code_start\n"
    "spin_code_start:\n" // position independent, rdi = thr
    "  fxrstor64 144(%rdi)\n"
    "  mov %rdi, %r13\n"
    "  mov 0(%r13), %rax\n"
    "  mov 8(%r13), %rcx\n"
    "  mov 16(%r13), %rdx\n"
    "  mov 128(%r13), %rbx\n" // app word address
    "  mov 40(%r13), %rbp\n"
    "  mov 48(%r13), %rsi\n"
    "  mov 56(%r13), %rdi\n"
    "  mov 64(%r13), %r8\n"
    "  mov 72(%r13), %r9\n"
    "  mov 80(%r13), %r10\n"
    "  mov 88(%r13), %r11\n"
    "  mov 96(%r13), %r12\n" // counter start
    "  mov 112(%r13), %r14\n"
    "  mov 120(%r13), %r15\n"
    "  mov 32(%r13), %rsp\n"
    "  mov 104(%r13), %r13\n"
    ".globl spin_code_loop\n"
    "spin_code_loop:\n"
    "  inc %r12\n"
    "  mov %r12, 8(%rsp)\n"
    "  mov %r12, (%rbx)\n"
    "  jmp spin_code_loop\n"
    ".globl spin_code_end\n"
    "spin_code_end:\n"
    "\n"
    ".globl nullsp_entry\n"
    "nullsp_entry:\n"
    "  mov 96(%rdi), %r12\n"
    "  xor %rsp, %rsp\n"
    ".globl nullsp_loop\n"
    "nullsp_loop:\n"
    "  inc %r12\n"
    "  pause\n"
    "  jmp nullsp_loop\n"
    // like nullsp_entry, but the stack pointer is loaded from the spec (any value, e.g. all ones)
    ".globl oddsp_entry\n"
    "oddsp_entry:\n"
    "  mov 96(%rdi), %r12\n"
    "  mov 32(%rdi), %rsp\n"
    ".globl oddsp_loop\n"
    "oddsp_loop:\n"
    "  inc %r12\n"
    "  pause\n"
    "  jmp oddsp_loop\n");

static void block_all_signals(void) {
  sigset_t s;
  sigfillset(&s);
  pthread_sigmask(SIG_BLOCK, &s, NULL);
}

static int sig_slot(int signo) {
  if (signo == SIGUSR1) return 0;
  if (signo == SIGHUP) return 1;
  if (signo >= SIGRTMIN && signo < SIGRTMIN + 4) return 2 + (signo - SIGRTMIN);
  if (signo == SIGTRAP) return 6;
  if (signo == SIGURG) return 7;
  return -1;
}

static void on_signal(int signo, siginfo_t *si, void *uc) {
  (void)uc;
  int slot = sig_slot(signo);
  int id = my_id;
  if (id < 0 || slot < 0) {
    __sync_fetch_and_add(&shm->wrong_thread, 1);
    return;
  }
  __sync_fetch_and_add(&shm->sigcount[id][slot], 1);
  __sync_fetch_and_add(&shm->sigpayload[id][slot], (uint64_t)(uint32_t)si->si_value.sival_int);
}

static void *thread_main(void *arg) {
  struct thr *t = arg;
  my_id = t->id;
  if (t->has_name) {
    char nm[17];
    memset(nm, 0, sizeof nm);
    memcpy(nm, t->name, t->namelen);
    prctl(PR_SET_NAME, nm, 0, 0, 0);
  }
  if (t->kind != K_SLEEPER) {
    block_all_signals();
  } else {
    sigset_t s; // threads inherit main's all-blocked mask: sleepers take signals
    sigfillset(&s);
    pthread_sigmask(SIG_UNBLOCK, &s, NULL);
  }
  t->tid = (int)syscall(SYS_gettid);
  switch (t->kind) {
  case K_PARKED:
    // a thread may carry a GS base of its own (as Wine and some runtimes set): selector stays 0
    if (t->aux) syscall(SYS_arch_prctl, 0x1001 /* ARCH_SET_GS */, t->aux);
    park_entry(t);
    break;
  case K_SPINNER:
    spin_entry(t);
    break;
  case K_NULLSP:
    nullsp_entry(t);
    break;
  case K_ODDSP:
    oddsp_entry(t);
    break;
  case K_EXITER: {
    char c;
    while (read(t->pipefd[0], &c, 1) < 0 && errno == EINTR) {
    }
    syscall(SYS_exit, 0);
    break;
  }
  case K_FDCHURN: {
    // keeps changing the descriptor table: 0..8 extra descriptors are open at any instant
    int fds[8];
    for (;;) {
      for (int i = 0; i < 8; i++) fds[i] = open("/dev/null", O_RDONLY);
      for (int i = 0; i < 8; i++)
        if (fds[i] >= 0) close(fds[i]);
      shm->heartbeat[t->id]++;
    }
  }
  case K_MAPCHURN: {
    // keeps changing the memory map: a region of 1..8 pages appears, is touched and disappears
    for (unsigned n = 0;; n++) {
      size_t len = (1 + n % 8) * 4096ul;
      char *p = mmap(NULL, len, PROT_READ | PROT_WRITE, MAP_PRIVATE | MAP_ANONYMOUS, -1, 0);
      if (p != MAP_FAILED) {
        p[0] = (char)n;
        if (n % 3 == 0) mprotect(p, 4096, PROT_READ);
        munmap(p, len);
      }
      shm->heartbeat[t->id]++;
    }
  }
  case K_SLEEPER:
  default:
    for (;;) {
      struct timespec ts = {0, 200000};
      nanosleep(&ts, NULL);
      shm->heartbeat[t->id]++;
    }
  }
  return NULL;
}

static int hexval(int c) {
  if (c >= '0' && c <= '9') return c - '0';
  if (c >= 'a' && c <= 'f') return c - 'a' + 10;
  return -1;
}
static int unhex(const char *s, uint8_t *out, int max) {
  int n = 0;
  if (s[0] == '-' && s[1] == 0) return 0;
  while (s[0] && s[1] && n < max) {
    out[n++] = (uint8_t)(hexval(s[0]) * 16 + hexval(s[1]));
    s += 2;
  }
  return n;
}

static struct map *find_map(int id) {
  for (int i = 0; i < nmaps; i++)
    if (maps[i].id == id) return &maps[i];
  return NULL;
}

int main(int argc, char **argv) {
  if (argc < 2) return 2;
  prctl(PR_SET_PDEATHSIG, SIGKILL);
  setvbuf(stdout, NULL, _IOLBF, 0);
  shm = &dummy_shm;
  FILE *f = fopen(argv[1], "r");
  if (!f) die("open spec");
  static char line[65536];
  // signal handlers for sleepers
  struct sigaction sa;
  memset(&sa, 0, sizeof sa);
  sa.sa_sigaction = on_signal;
  sa.sa_flags = SA_SIGINFO | SA_RESTART;
  sigfillset(&sa.sa_mask);
  sigaction(SIGUSR1, &sa, NULL);
  sigaction(SIGHUP, &sa, NULL);
  for (int i = 0; i < 4; i++) sigaction(SIGRTMIN + i, &sa, NULL);
  sigaction(SIGTRAP, &sa, NULL);
  sigaction(SIGURG, &sa, NULL);
  block_all_signals(); // main thread never handles signals

  while (fgets(line, sizeof line, f)) {
    char cmd[32];
    if (sscanf(line, "%31s", cmd) != 1) continue;
    if (!strcmp(cmd, "shared")) {
      char path[4096];
      sscanf(line, "%*s %4095s", path);
      int fd = open(path, O_RDWR);
      if (fd < 0) die("open shared");
      void *p = mmap(NULL, sizeof(struct shared), PROT_READ | PROT_WRITE, MAP_SHARED, fd, 0);
      if (p == MAP_FAILED) die("mmap shared");
      close(fd);
      shm = p;
    } else if (!strcmp(cmd, "pivot")) {
      // private mount namespace with a tmpfs root: mapped files then show bare names
      char dir[4096];
      sscanf(line, "%*s %4095s", dir);
      if (unshare(CLONE_NEWNS) != 0) die("unshare");
      if (mount(NULL, "/", NULL, MS_REC | MS_PRIVATE, NULL) != 0) die("mount private");
      if (mount("tmpfs", dir, "tmpfs", 0, "size=16m") != 0) die("mount tmpfs");
      if (chdir(dir) != 0) die("chdir");
      printf("pivot-mounted\n");
    } else if (!strcmp(cmd, "pivot2")) {
      if (syscall(SYS_pivot_root, ".", ".") != 0) die("pivot_root");
      if (umount2(".", MNT_DETACH) != 0) die("umount old root");
      if (chdir("/") != 0) die("chdir /");
    } else if (!strcmp(cmd, "mkdir")) {
      char path[4096];
      sscanf(line, "%*s %4095s", path);
      mkdir(path, 0755);
    } else if (!strcmp(cmd, "writefile")) {
      // writefile <hexpath> <size> <seed> <hexprefix>
      char hp[8192], hx[32768];
      unsigned long size, seed;
      hx[0] = 0;
      sscanf(line, "%*s %8191s %lu %lu %32767s", hp, &size, &seed, hx);
      uint8_t pb[4096];
      int pl = unhex(hp, pb, sizeof pb - 1);
      pb[pl] = 0;
      int fd = open((char *)pb, O_CREAT | O_TRUNC | O_RDWR, 0755);
      if (fd < 0) die("writefile open");
      uint8_t *buf = malloc(size ? size : 1);
      for (unsigned long i = 0; i < size; i++) buf[i] = pat(i, seed);
      static uint8_t pre[16384];
      int n = unhex(hx, pre, sizeof pre);
      if ((unsigned long)n > size) n = (int)size;
      memcpy(buf, pre, n);
      if (write(fd, buf, size) != (ssize_t)size) die("writefile write");
      free(buf);
      close(fd);
    } else if (!strcmp(cmd, "map")) {
      // map id addr pages prot kind hexpath offpages shared seed hexcontentpath
      int id, prot, shared;
      unsigned long addr, pages, offpages, seed;
      char kind[16], hpath[8192], hcontent[8192];
      if (sscanf(line, "%*s %d %lx %lu %d %15s %8191s %lu %d %lu %8191s", &id, &addr, &pages, &prot, kind, hpath, &offpages, &shared, &seed, hcontent) != 10) die("map parse");
      uint8_t pb[4097], cb[4097];
      int pl = unhex(hpath, pb, 4096);
      pb[pl] = 0;
      int cl = unhex(hcontent, cb, 4096);
      cb[cl] = 0;
      size_t len = pages * 4096ul;
      int flags = (shared ? MAP_SHARED : MAP_PRIVATE) | (addr ? MAP_FIXED_NOREPLACE : 0);
      int mprot = ((prot & 1) ? PROT_READ : 0) | ((prot & 2) ? PROT_WRITE : 0) | ((prot & 4) ? PROT_EXEC : 0);
      void *p;
      if (!strcmp(kind, "anon")) {
        p = mmap((void *)addr, len, PROT_READ | PROT_WRITE, flags | MAP_ANONYMOUS | MAP_NORESERVE, -1, 0);
        if (p == MAP_FAILED) die("mmap anon");
        if (cl > 0) {
          int fd = open((char *)cb, O_RDONLY);
          if (fd < 0) die("open content");
          size_t got = 0;
          ssize_t r;
          while (got < len && (r = read(fd, (char *)p + got, len - got)) > 0) got += r;
          close(fd);
        } else if (seed != 0) {
          uint8_t *b = p;
          for (size_t i = 0; i < len; i++) b[i] = pat((uint64_t)p + i, seed);
        }
      } else {
        int fd = open((char *)pb, (shared && (prot & 2)) ? O_RDWR : O_RDONLY);
        if (fd < 0) die("open map file");
        p = mmap((void *)addr, len, mprot, flags, fd, offpages * 4096ul);
        if (p == MAP_FAILED) die("mmap file");
        close(fd);
      }
      maps[nmaps].id = id;
      maps[nmaps].addr = (uint64_t)p;
      maps[nmaps].len = len;
      nmaps++;
      printf("map %d %lx %lx\n", id, (unsigned long)p, (unsigned long)len);
      // final protection is applied by 'protect' lines after pokes
      if (!strcmp(kind, "anon")) {
        // remember desired prot in the low bits of len? keep simple: apply later via 'protect'
      }
    } else if (!strcmp(cmd, "stripes")) {
      // stripes addr count : 2*count pages, every other one read-only => 2*count lines in the memory map
      unsigned long addr, count;
      sscanf(line, "%*s %lx %lu", &addr, &count);
      char *p = mmap((void *)addr, count * 2 * 4096ul, PROT_READ | PROT_WRITE, MAP_PRIVATE | MAP_ANONYMOUS | MAP_NORESERVE | MAP_FIXED_NOREPLACE, -1, 0);
      if (p == MAP_FAILED) die("mmap stripes");
      for (unsigned long i = 0; i < count; i++)
        if (mprotect(p + (2 * i + 1) * 4096ul, 4096, PROT_READ) != 0) die("mprotect stripes");
    } else if (!strcmp(cmd, "poke")) {
      unsigned long addr, val;
      sscanf(line, "%*s %lx %lx", &addr, &val);
      *(volatile uint64_t *)addr = val;
    } else if (!strcmp(cmd, "pokebytes")) {
      unsigned long addr;
      static char hx[65000];
      sscanf(line, "%*s %lx %64999s", &addr, hx);
      static uint8_t tmp[32500];
      int n = unhex(hx, tmp, sizeof tmp);
      memcpy((void *)addr, tmp, n);
    } else if (!strcmp(cmd, "protect")) {
      unsigned long addr, pages;
      int prot;
      sscanf(line, "%*s %lx %lu %d", &addr, &pages, &prot);
      int mprot = ((prot & 1) ? PROT_READ : 0) | ((prot & 2) ? PROT_WRITE : 0) | ((prot & 4) ? PROT_EXEC : 0);
      if (mprotect((void *)addr, pages * 4096ul, mprot) != 0) die("mprotect");
    } else if (!strcmp(cmd, "unlink")) {
      char hp[8192];
      sscanf(line, "%*s %8191s", hp);
      uint8_t pb[4097];
      int pl = unhex(hp, pb, 4096);
      pb[pl] = 0;
      unlink((char *)pb);
    } else if (!strcmp(cmd, "copycode")) {
      // copycode <addr>: copy the spinner loop code to addr
      unsigned long addr;
      sscanf(line, "%*s %lx", &addr);
      memcpy((void *)addr, spin_code_start, spin_code_end - spin_code_start);
    } else if (!strcmp(cmd, "fd")) {
      char kind[16], hp[8192];
      hp[0] = '-';
      hp[1] = 0;
      sscanf(line, "%*s %15s %8191s", kind, hp);
      uint8_t pb[4097];
      int pl = unhex(hp, pb, 4096);
      pb[pl] = 0;
      int fd = -1;
      if (!strcmp(kind, "file")) fd = open((char *)pb, O_RDWR | O_CREAT, 0644);
      else if (!strcmp(kind, "deleted")) {
        fd = open((char *)pb, O_RDWR | O_CREAT, 0644);
        unlink((char *)pb);
      } else if (!strcmp(kind, "pipe")) {
        int p[2];
        if (pipe(p) == 0) fd = p[0];
      } else if (!strcmp(kind, "socket")) {
        int p[2];
        if (socketpair(AF_UNIX, SOCK_STREAM, 0, p) == 0) fd = p[0];
      } else if (!strcmp(kind, "eventfd")) fd = eventfd(0, 0);
      else if (!strcmp(kind, "dir")) fd = open((char *)pb, O_RDONLY | O_DIRECTORY);
      else if (!strcmp(kind, "devnull")) fd = open("/dev/null", O_RDWR);
      printf("fd %d\n", fd);
    } else if (!strcmp(cmd, "rlimit")) {
      int res;
      unsigned long soft, hard;
      sscanf(line, "%*s %d %lu %lu", &res, &soft, &hard);
      struct rlimit rl = {soft, hard};
      setrlimit(res, &rl);
    } else if (!strcmp(cmd, "mainname")) {
      char hx[64];
      sscanf(line, "%*s %63s", hx);
      uint8_t nm[17];
      memset(nm, 0, sizeof nm);
      unhex(hx, nm, 15);
      prctl(PR_SET_NAME, nm, 0, 0, 0);
    } else if (!strcmp(cmd, "thread")) {
      // thread id kind hexname|- sp aux code seedregs(16 hex) fxfile|-
      if (nthr >= MAX_THREADS) die("too many threads");
      struct thr *t = &thrs[nthr];
      memset(t, 0, sizeof *t);
      char hname[64], fxhex[1100];
      unsigned long sp, aux, code;
      int n = 0;
      if (sscanf(line, "%*s %d %d %63s %lx %lx %lx %n", &t->id, &t->kind, hname, &sp, &aux, &code, &n) < 6) die("thread parse");
      const char *p = line + n;
      for (int i = 0; i < 16; i++) {
        char *e;
        t->regs[i] = strtoull(p, &e, 16);
        p = e;
      }
      while (*p == ' ') p++;
      sscanf(p, "%1099s", fxhex);
      t->regs[4] = sp;
      t->aux = aux;
      t->code = code;
      if (hname[0] == '-' && hname[1] == 0) {
        t->has_name = 0;
      } else if (hname[0] == '=' ) { // explicit empty name
        t->has_name = 1;
        t->namelen = 0;
      } else {
        t->has_name = 1;
        t->namelen = unhex(hname, (uint8_t *)t->name, 15);
      }
      // default fx image: sane control words
      memset(t->fx, 0, 512);
      t->fx[0] = 0x7f;
      t->fx[1] = 0x03;               // fcw 0x37f
      t->fx[24] = 0x80;
      t->fx[25] = 0x1f;              // mxcsr 0x1f80
      if (!(fxhex[0] == '-' && fxhex[1] == 0)) unhex(fxhex, t->fx, 512);
      if (t->kind == K_EXITER && pipe(t->pipefd) != 0) die("pipe");
      nthr++;
    } else if (!strcmp(cmd, "leaderexit")) {
      leader_exit = 1;
    } else if (!strcmp(cmd, "end")) {
      break;
    }
  }
  fclose(f);
  // start threads
  for (int i = 0; i < nthr; i++) {
    pthread_attr_t at;
    pthread_attr_init(&at);
    pthread_attr_setstacksize(&at, 64 * 1024);
    if (pthread_create(&thrs[i].pt, &at, thread_main, &thrs[i]) != 0) die("pthread_create");
  }
  for (int i = 0; i < nthr; i++) {
    while (thrs[i].tid == 0) sched_yield();
    printf("thread %d %d %d %d\n", thrs[i].id, thrs[i].tid, thrs[i].pipefd[0], thrs[i].pipefd[1]);
  }
  printf("sym park_syscall_insn %lx\n", (unsigned long)park_syscall_insn);
  printf("sym spin_code_start %lx\n", (unsigned long)spin_code_start);
  printf("sym spin_code_loop %lx\n", (unsigned long)spin_code_loop);
  printf("sym spin_code_end %lx\n", (unsigned long)spin_code_end);
  printf("sym nullsp_loop %lx\n", (unsigned long)nullsp_loop);
  printf("sym oddsp_loop %lx\n", (unsigned long)oddsp_loop);
  {
    extern ElfW(Dyn) _DYNAMIC[];
    printf("rdebug %d %lx %lx %lx\n", _r_debug.r_version, (unsigned long)_r_debug.r_brk, (unsigned long)_r_debug.r_ldbase, (unsigned long)_DYNAMIC);
    for (struct link_map *m = _r_debug.r_map; m; m = m->l_next) {
      printf("dso %lx %lx ", (unsigned long)m->l_addr, (unsigned long)m->l_ld);
      const char *n = m->l_name ? m->l_name : "";
      if (!*n) printf("-");
      for (; *n; n++) printf("%02x", (unsigned char)*n);
      printf("\n");
    }
  }
  printf("pid %d\n", getpid());
  // give parked/spinner threads a moment to reach their loops: they report tid
  // before entering asm; the harness additionally waits for stable state.
  printf("ready\n");
  fflush(stdout);
  if (leader_exit) syscall(SYS_exit, 0); // only the main thread exits: zombie thread-group leader
  // command loop
  while (fgets(line, sizeof line, stdin)) {
    char cmd[32];
    if (sscanf(line, "%31s", cmd) != 1) continue;
    if (!strcmp(cmd, "quit")) break;
    if (!strcmp(cmd, "cue")) {
      int id;
      sscanf(line, "%*s %d", &id);
      for (int i = 0; i < nthr; i++)
        if (thrs[i].id == id && thrs[i].kind == K_EXITER) {
          char c = 1;
          if (write(thrs[i].pipefd[1], &c, 1) != 1) {
          }
        }
      printf("ok\n");
    } else if (!strcmp(cmd, "unmap")) {
      int id;
      sscanf(line, "%*s %d", &id);
      struct map *m = find_map(id);
      if (m) munmap((void *)m->addr, m->len);
      printf("ok\n");
    } else if (!strcmp(cmd, "protect")) {
      unsigned long a = 0, l = 0;
      int prot = 0;
      sscanf(line, "%*s %lx %lx %d", &a, &l, &prot);
      if (mprotect((void *)a, l, prot) != 0) printf("err\n");
      else printf("ok\n");
    } else if (!strcmp(cmd, "ping")) {
      printf("ok\n");
    }
    fflush(stdout);
  }
  _exit(0);
}
