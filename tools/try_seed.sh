#!/bin/bash
# tools/try_seed.sh <ID><sfx>... : apply each stored seeded change to /repo, run the property's quick check, undo.
for S in "$@"; do
  ID=${S:0:3}
  git -C /repo apply /verif/seeded/$S/patch.diff || { echo "$S: patch does not apply"; continue; }
  echo "##### $S"
  ./check $ID quick 2>&1 | grep -v "^proptest" | cut -c1-260 | tail -3
  git -C /repo checkout -- .
done
