#!/bin/bash
# tools/confirm_seed.sh <ID> [suffix] : confirm a seeded change in its scratch worktree /tmp/seed_<ID><suffix>,
# store it under /verif/seeded/<ID><suffix>/ and run the property's quick check against it.
# Environment: PART=suite only runs the suite/demo part (can run for several seeds in parallel),
# PART=check only runs the property's quick check against the stored patch (serial: it patches /repo).
ID=$1; SUF=${2:-}; WT=/tmp/seed_$ID$SUF; OUT=/verif/seeded/$ID$SUF; PART=${PART:-both}
if [ "$PART" != "check" ]; then
mkdir -p $OUT; cp $WT/SEED/* $OUT/ 2>/dev/null
cd $WT || exit 3
git checkout -q -- . ; 
DEMO=$(ls tests/seed_demo*.rs 2>/dev/null | head -1 | xargs -n1 basename 2>/dev/null | sed 's/\.rs$//')
{
echo "== apply patch"; git apply SEED/patch.diff && echo applied || { echo "PATCH DOES NOT APPLY"; exit 3; }
echo "== existing test suite with the change (demo excluded)"
cargo test --workspace --offline --no-fail-fast $(ls tests/*.rs | grep -v seed_demo | xargs -n1 basename | sed 's/\.rs$//' | sed 's/^/--test /' | tr '\n' ' ') --lib 2>&1 | grep -E "^test result|FAILED|failed" 
echo "== demo with the change (must fail)"
cargo test --offline --test $DEMO 2>&1 | grep -E "^test |^test result" | head -20
git checkout -q -- src Cargo.toml 2>/dev/null; git checkout -q -- .
echo "== demo without the change (must pass)"
cargo test --offline --test $DEMO 2>&1 | grep -E "^test |^test result" | head -20
} > $OUT/confirm.log 2>&1
cat $OUT/confirm.log
fi
[ "$PART" = "suite" ] && exit 0
cd /verif
echo "== my check against the seeded change"
git -C /repo apply /verif/seeded/$ID$SUF/patch.diff || { echo "patch does not apply to /repo"; exit 3; }
./check $ID quick 2>&1 | grep -v "^proptest" | cut -c1-300 | tee $OUT/check_quick.log | tail -4
git -C /repo checkout -- .
