#!/bin/bash
export VERIF_REPO=$VP_RUN_REPO
cp /repo/Cargo.lock $VP_RUN_REPO/ 2>/dev/null
for p in C16 C13 C12 C20 C06 C15 C09 C04 C05 C14 C17 C02 C01 C07 C08 C10 C11 C18 C19 C03; do
  /usr/bin/time -f "$p wall %es" ./check $p thorough 2>&1 | grep -v "^proptest" | tail -3
done
