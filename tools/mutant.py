#!/usr/bin/env python3
"""tools/mutant.py <ID[,ID..]> <file> <old> <new> [--tier quick]
Applies a textual mutation to /repo (must be clean), runs ./check for each ID, reverts.
Prints KILLED/SURVIVED per ID."""
import sys, subprocess, os
ids, path, old, new = sys.argv[1].split(','), sys.argv[2], sys.argv[3], sys.argv[4]
p = os.path.join('/repo', path)
st = subprocess.run(['git','-C','/repo','status','--porcelain','--untracked-files=no'],capture_output=True,text=True).stdout.strip()
if st:
    print('repo not clean:', st); sys.exit(3)
s = open(p).read()
if s.count(old) != 1:
    print(f'pattern occurs {s.count(old)} times'); sys.exit(3)
open(p,'w').write(s.replace(old,new))
try:
    for i in ids:
        r = subprocess.run(['./check', i, 'quick'], cwd='/verif', capture_output=True, text=True)
        lines = [l for l in (r.stdout+r.stderr).splitlines() if l.startswith(('VIOLATION','violation','BUILD','INCONCLUSIVE','OK'))]
        print(('KILLED  ' if r.returncode==1 else 'SURVIVED' if r.returncode==0 else f'EXIT{r.returncode}'), i, '|', (lines[0][:200] if lines else ''))
finally:
    subprocess.run(['git','-C','/repo','checkout','--','.'])
