#!/bin/bash
# quick tier of every check under several seeds (stability on the unchanged tree)
export VERIF_REPO=${VP_RUN_REPO:-}
[ -n "$VERIF_REPO" ] && cp /repo/Cargo.lock $VERIF_REPO/ 2>/dev/null
for s in ${SEEDS:-11 12 13 14 15}; do
  for p in C01 C02 C03 C04 C05 C06 C07 C08 C09 C10 C11 C12 C13 C14 C15 C16 C17 C18 C19 C20; do
    VERIF_SEED=$s ./check $p quick 2>&1 | grep -v "^proptest" | grep -E "^(OK|VIOLATION|INCONCLUSIVE|violation|inconclusive|BUILD)" | cut -c1-300
  done
done
