#!/usr/bin/env python3
"""tools/automutate.py <worker k> <of n> <scratch dir> [--max N] [--seed S] [--files f1,f2] [--skip-suite]

Automatic mutation campaign (sensitivity measurement for the checks; not a check itself).

For each generated single-site textual mutant of the Linux x86_64 source of /repo:
  1. apply it to a scratch worktree of /repo HEAD (never to /repo itself);
  2. `cargo check` - mutants that do not compile are dropped;
  3. the repository's own suite (cargo test --workspace --no-fail-fast --offline) - mutants it
     kills are dropped (they are not the changes the machinery is for);
  4. the quick tier of all 20 checks, run from a scratch copy of the committed /verif with
     VERIF_REPO pointing at the mutated worktree.
Result lines go to /verif/mutation/log-<k>.jsonl (append).  Survivors are triaged by hand
(equivalent for every listed property / outside every statement / a gap to close).
The scratch directory is removed at the end.
"""
import sys, os, re, json, subprocess, random, shutil, time, hashlib

k, n, scratch = int(sys.argv[1]), int(sys.argv[2]), sys.argv[3]
args = sys.argv[4:]
def opt(name, default=None):
    if name in args:
        return args[args.index(name) + 1]
    return default
MAX = int(opt('--max', '100000'))
SEED = int(opt('--seed', '1'))
ONLY = opt('--files')
SKIP_SUITE = '--skip-suite' in args
RETEST = '--retest' in args
HOURS = float(opt('--hours', '100'))

FILES = """src/dir_section.rs src/mem_writer.rs src/linux/minidump_writer.rs src/linux/ptrace_dumper.rs
src/linux/maps_reader.rs src/linux/module_reader.rs src/linux/mem_reader.rs src/linux/dso_debug.rs
src/linux/thread_info.rs src/linux/thread_info/x86.rs src/linux/auxv/mod.rs src/linux/auxv/reader.rs
src/linux/dumper_cpu_info/x86_mips.rs src/linux/dumper_cpu_info.rs src/linux/crash_context/x86_64.rs
src/linux/sections/thread_list_stream.rs src/linux/sections/mappings.rs src/linux/sections/handle_data_stream.rs
src/linux/sections/memory_info_list_stream.rs src/linux/sections/exception_stream.rs
src/linux/sections/thread_names_stream.rs src/linux/sections/systeminfo_stream.rs
src/linux/sections/memory_list_stream.rs src/linux/sections/app_memory.rs src/linux/serializers.rs""".split()
if ONLY:
    FILES = ONLY.split(',')

SWAPS = [(' < ', ' <= '), (' <= ', ' < '), (' > ', ' >= '), (' >= ', ' > '), (' == ', ' != '), (' != ', ' == '),
         (' + ', ' - '), (' - ', ' + '), (' && ', ' || '), (' || ', ' && '), (' += ', ' -= '), (' -= ', ' += '),
         ('.min(', '.max('), ('.max(', '.min('), ('true', 'false'), ('false', 'true'),
         ('continue;', 'break;'), ('break;', 'continue;'), ('saturating_sub', 'wrapping_sub'),
         ('saturating_add', 'wrapping_add'), (' & ', ' | '), (' | ', ' & '), (' << ', ' >> '), (' >> ', ' << '),
         ('.is_some()', '.is_none()'), ('.is_none()', '.is_some()'), ('.is_ok()', '.is_err()'), ('.is_err()', '.is_ok()'),
         ('.first()', '.last()'), ('.last()', '.first()'), ('..=', '..'), ('.any(', '.all('), ('.all(', '.any('),
         ('.position(', '.rposition('), ('.find(', '.rfind('), ('.rfind(', '.find('), ('.rev()', ''),
         ('.is_empty()', '.len() > 1'), (' / ', ' * '), (' * ', ' / '), (' % ', ' / ')]

def code_part(line):
    # strip trailing line comment (naive but adequate: no '//' inside the strings of these files except URLs in comments)
    i = line.find('//')
    return line if i < 0 else line[:i]

def candidates(path, text):
    lines = text.split('\n')
    # cut test modules
    end = len(lines)
    for i, l in enumerate(lines):
        if l.strip() == '#[cfg(test)]' and any(x.strip().startswith('mod ') for x in lines[i + 1:i + 4]):
            end = i
            break
    out = []
    depth_skip = False
    skip_item = False
    skip_other = 0
    depth = 0
    opened = False
    for i in range(end):
        l = lines[i]
        s = l.strip()
        if s == '#[cfg(test)]':
            skip_item = True  # a test-only item: skip to the closing brace in column 0
            continue
        if skip_other > 0 or (s.startswith('#[cfg(') and re.search(r'target_arch = "(x86|arm|aarch64|mips|mips64)"|target_pointer_width = "32"|target_os = "android"', s) and 'x86_64' not in s and 'not(' not in s):
            # code for another architecture: dead here, its mutants are trivially equivalent
            if skip_other == 0:
                skip_other = 1
                depth = 0
                opened = False
                continue
            depth += l.count('{') - l.count('}')
            opened = opened or '{' in l
            if depth <= 0 and (opened or s.endswith((';', ','))):
                skip_other = 0
            continue
        if skip_item:
            if l.startswith('}') or (l.rstrip().endswith(';') and not l.startswith(' ')):
                skip_item = False
            continue
        if not s or s.startswith('//') or s.startswith('#[') or s.startswith('use ') or s.startswith('pub use '):
            continue
        if s.startswith(('assert!', 'assert_eq!', 'debug_assert', 'log::', 'tracing::')) or 'verif_hooks' in l or 'failspot' in l.lower() and 'fail_point' not in l.lower():
            continue
        c = code_part(l)
        for a, b in SWAPS:
            start = 0
            while True:
                j = c.find(a, start)
                if j < 0:
                    break
                start = j + len(a)
                # skip generics-like '<' '>' contexts for comparison swaps
                if a.strip() in ('<', '>', '<=', '>=') and ('->' in c[max(0, j - 2):j + 3]):
                    continue
                if a in ('true', 'false') and (c[j - 1:j].isalnum() or c[j - 1:j] == '_' or c[start:start + 1].isalnum() or c[start:start + 1] == '_'):
                    continue
                out.append((i, j, a, b, 'swap'))
        # integer literals +1
        for m in re.finditer(r'(?<![\w.])(0x[0-9a-fA-F_]+|\d[\d_]*)(?![\w.]|\.\d)', c):
            tok = m.group(1)
            try:
                v = int(tok.replace('_', ''), 0)
            except ValueError:
                continue
            if tok.startswith('0x'):
                nv = hex(v + 1)
            else:
                nv = str(v + 1)
            out.append((i, m.start(1), tok, nv, 'lit+1'))
            if v > 0:
                nv2 = hex(v - 1) if tok.startswith('0x') else str(v - 1)
                out.append((i, m.start(1), tok, nv2, 'lit-1'))
        # negate if condition
        m = re.match(r'^(\s*(?:\} else )?if )((?!let ).+)( \{\s*)$', c)
        if m and ' let ' not in c:
            out.append((i, len(m.group(1)), m.group(2), '!(' + m.group(2) + ')', 'negate-if'))
        # delete a simple call statement
        if re.match(r'^\s*[a-z_][\w.:]*(\.[a-z_]\w*)*\(.*\);\s*$', c) and not s.startswith(('return', 'let ', 'break', 'continue')) and c.count('(') == c.count(')'):
            out.append((i, len(c) - len(c.lstrip()), c.strip(), '/* deleted */', 'delete-stmt'))
        # drop a `?`-propagated statement's effect is too invasive; instead: early-return removal
    return out

def sh(cmd, cwd=None, timeout=None, env=None):
    try:
        r = subprocess.run(cmd, cwd=cwd, shell=isinstance(cmd, str), capture_output=True, text=True, timeout=timeout, env=env, errors='replace')
        return r.returncode, r.stdout + r.stderr
    except subprocess.TimeoutExpired as e:
        return 124, (e.stdout or '') if isinstance(e.stdout, str) else ''

head = subprocess.run(['git', '-C', '/repo', 'rev-parse', '--short', 'HEAD'], capture_output=True, text=True).stdout.strip()
vhead = subprocess.run(['git', '-C', '/verif', 'rev-parse', '--short', 'HEAD'], capture_output=True, text=True).stdout.strip()
os.makedirs(scratch, exist_ok=True)
REPO = os.path.join(scratch, 'repo')
VER = os.path.join(scratch, 'verif')
env = dict(os.environ, CARGO_NET_OFFLINE='true')
if not os.path.isdir(REPO):
    rc, o = sh(['git', '-C', '/repo', 'worktree', 'add', '--detach', REPO, 'HEAD'])
    assert rc == 0, o
    shutil.copy('/repo/Cargo.lock', REPO)
else:
    sh(['git', '-C', REPO, 'checkout', '--', 'src'])
if not os.path.isdir(VER):
    os.makedirs(VER)
    rc, o = sh('git -C /verif archive HEAD | tar -x -C ' + VER)
    assert rc == 0, o

allc = []
for f in FILES:
    t = open(os.path.join(REPO, f)).read()
    for c in candidates(f, t):
        allc.append((f,) + c)
rng = random.Random(SEED)
rng.shuffle(allc)
mine = allc[k::n][:MAX]
os.makedirs('/verif/mutation', exist_ok=True)
LOG = f'/verif/mutation/log-{k}.jsonl'
done = set()
latest = {}
for p in sorted(f'/verif/mutation/{x}' for x in os.listdir('/verif/mutation') if x.endswith('.jsonl')):
    for l in open(p):
        try:
            r = json.loads(l)
            done.add(r['key'])
            latest[r['key']] = r
        except Exception:
            pass
retest_keys = set()
if RETEST:
    # survivors recorded against an older /verif are judged again by the current checks (suite step skipped: they passed it)
    retest_keys = {k for k, r in latest.items() if r.get('result') in ('SURVIVED', 'inconclusive') and r.get('verif') != vhead}
    done -= retest_keys
print(f'worker {k}/{n}: {len(allc)} candidate mutants total, {len(mine)} mine; repo {head} verif {vhead}', flush=True)
IDS = ['C%02d' % i for i in range(1, 21)]
t_end = time.time() + HOURS * 3600

# warm builds on the unmutated tree
sh('cargo test --workspace --no-run --offline', cwd=REPO, env=env, timeout=1800)
rc, o = sh('./check --build', cwd=VER, env=dict(env, VERIF_REPO=REPO), timeout=1800)
print('warm build rc', rc, flush=True)

def keyof(m):
    f, i, j, a, b, kind = m
    return hashlib.sha1(f'{f}:{i}:{j}:{a}:{b}'.encode()).hexdigest()[:16]
if RETEST:
    mine = [m for m in allc[k::n] if keyof(m) in retest_keys] + [m for m in mine if keyof(m) not in retest_keys]
for (f, i, j, a, b, kind) in mine:
    if time.time() > t_end:
        break
    path = os.path.join(REPO, f)
    orig = open(path).read()
    lines = orig.split('\n')
    l = lines[i]
    if l[j:j + len(a)] != a:
        continue
    key = hashlib.sha1(f'{f}:{i}:{j}:{a}:{b}'.encode()).hexdigest()[:16]
    if key in done:
        continue
    lines[i] = l[:j] + b + l[j + len(a):]
    rec = {'key': key, 'file': f, 'line': i + 1, 'col': j, 'kind': kind, 'old': l.strip(), 'new': lines[i].strip(), 'repo': head, 'verif': vhead}
    open(path, 'w').write('\n'.join(lines))
    t0 = time.time()
    try:
        rc, o = sh('cargo check --offline --lib', cwd=REPO, env=env, timeout=600)
        if rc != 0:
            rec['result'] = 'nocompile'
            continue
        if not SKIP_SUITE and key not in retest_keys:
            ok = False
            for attempt in range(2):
                rc, o = sh('cargo test --workspace --no-fail-fast --offline', cwd=REPO, env=env, timeout=900)
                if rc == 0:
                    ok = True
                    break
                failed = sorted(set(re.findall(r'^test (\S+) \.\.\. FAILED', o, re.M)))
                rec.setdefault('suite_failed', []).append(failed if failed else ['rc=%d' % rc])
                if rc == 124:
                    break
                if len(failed) > 2:
                    break
            if not ok:
                rec['result'] = 'suite-killed'
                continue
        killed, other = [], []
        for pid in IDS:
            rc, o = sh(['./check', pid, 'quick'], cwd=VER, env=dict(env, VERIF_REPO=REPO, VERIF_SEED=str(SEED)), timeout=1200)
            if rc == 1:
                sigs = re.findall(r'^violation \[[^\]]*\] ([^ ]*):', o, re.M)
                killed.append({'id': pid, 'sigs': sorted(set(sigs))[:4]})
            elif rc != 0:
                other.append({'id': pid, 'rc': rc, 'tail': o[-300:]})
        rec['killed_by'] = killed
        if other:
            rec['other'] = other
        rec['result'] = 'killed' if killed else ('inconclusive' if other else 'SURVIVED')
    finally:
        open(path, 'w').write(orig)
        rec['secs'] = round(time.time() - t0, 1)
        with open(LOG, 'a') as fh:
            fh.write(json.dumps(rec) + '\n')
        print(rec.get('result'), f, i + 1, kind, '|', rec['old'][:70], '=>', rec['new'][:70], '|', [x['id'] for x in rec.get('killed_by', [])], flush=True)

sh(['git', '-C', '/repo', 'worktree', 'remove', '--force', REPO])
shutil.rmtree(scratch, ignore_errors=True)
sh(['git', '-C', '/repo', 'worktree', 'prune'])
print('done', flush=True)
