#!/usr/bin/env python3
"""Regenerates MANIFEST.json from tools_manifest_data.json (the per-check table)."""
import json, subprocess
data = json.load(open('/verif/tools_manifest_data.json'))
props = [json.loads(l)['id'] for l in open('/verif/properties.jsonl')]
checks = []
for pid in props:
    d = data['checks'].get(pid)
    if not d: continue
    checks.append({
        "property_id": pid,
        "quick_cmd": f"./check {pid} quick",
        "thorough_cmd": f"./check {pid} thorough",
        "evidence_file": f"/verif/evidence/{pid}.json",
        "replay_cmd_template": f"./check {pid} --replay {{path}}",
        "engine": d["engine"],
        "level_claimed": {"category": d["level"], "text": d["text"], "design_ref": d.get("design_ref", f"DESIGN.md section 4, {pid}")},
        "level_note": d["note"],
        "technique": d["technique"],
    })
na = [{"property_id": p, "reason": data['not_applicable'].get(p, "check not built yet in this revision (work in progress; will be claimed once its generator and oracle exist)")} for p in props if p not in data['checks']]
hooks = subprocess.run(['git','-C','/repo','log','--format=%H %s'],capture_output=True,text=True).stdout.splitlines()
hook_commits = [l.split()[0] for l in hooks if 'verif hooks' in l]
m = {
  "version": 1,
  "setup_cmd": "./check --build",
  "hooks": {
    "guard": "cargo feature verif-hooks",
    "enable": "the harness crate /verif/harness depends on minidump-writer = { path = \"/repo\", features = [\"verif-hooks\"] }; failspot/enabled is switched on by feature unification",
    "baseline_off_cmd": "cd /repo && cargo test --workspace --no-fail-fast --offline",
    "source_commits": hook_commits,
    "add_only": True
  },
  "engines": data["engines"],
  "checks": checks,
  "notes": data["notes"],
  "not_applicable": na,
}
json.dump(m, open('/verif/MANIFEST.json','w'), indent=1)
print("checks:", len(checks), "not_applicable:", len(na))
