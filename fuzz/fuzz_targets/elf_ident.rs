#![no_main]
// C14 (totality) in-target: any byte image through the BuildId / SoName readers.
// The oracle lives in the harness library; a violation that is not a listed
// known finding aborts (libFuzzer records the input as a crash artifact).
use libfuzzer_sys::fuzz_target;
fuzz_target!(|data: &[u8]| {
    vcheck::props::fuzz_entry::elf_ident(data);
});
