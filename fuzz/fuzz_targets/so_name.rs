#![no_main]
// C02 totality: arbitrary mapped-file name bytes through the effective-name / version logic.
use libfuzzer_sys::fuzz_target;
fuzz_target!(|data: &[u8]| {
    vcheck::props::fuzz_entry::so_name(data);
});
