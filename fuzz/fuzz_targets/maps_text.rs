#![no_main]
// C13 invariants on kernel-shaped memory-map texts + C02 totality of the parser/aggregator.
use libfuzzer_sys::fuzz_target;
fuzz_target!(|data: &[u8]| {
    vcheck::props::fuzz_entry::maps_text(data);
});
