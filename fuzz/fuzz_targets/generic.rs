#![no_main]
// Generic E4 target: the input bytes are decoded structure-aware (serde over the bytes, vcore/bytede.rs)
// into the case type of the proptest sub-check selected by VERIF_FUZZ_PROP / VERIF_FUZZ_SUB and judged
// by that sub-check's oracle.  An unlisted violation aborts (crash artifact).
use libfuzzer_sys::fuzz_target;
fuzz_target!(|data: &[u8]| {
    vcheck::props::fuzz_entry::generic(data);
});
