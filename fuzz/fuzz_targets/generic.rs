#![no_main]
// Generic E4 target: the input bytes are the random stream of proptest's pass-through RNG, so the
// coverage-guided engine drives the same generator and oracle as the proptest sub-check selected by
// VERIF_FUZZ_PROP / VERIF_FUZZ_SUB.  An unlisted violation aborts (crash artifact).
use libfuzzer_sys::fuzz_target;
fuzz_target!(|data: &[u8]| {
    vcheck::props::fuzz_entry::generic(data);
});
